"""datetime shim: inside kopf's modules that read the wall clock, `datetime.datetime.now()` becomes
EPOCH + the world's virtual clock. Harness-side only (module attributes are replaced at run time);
without it progress timestamps (wall clock) and sleeps (loop time) disagree and retries never become due."""
from __future__ import annotations

import datetime as _dt
import types

EPOCH = _dt.datetime(2030, 1, 1, tzinfo=_dt.timezone.utc)
_current = {'clock': None}


class VDateTime(_dt.datetime):
    @classmethod
    def now(cls, tz=None):
        c = _current['clock']
        base = EPOCH + _dt.timedelta(seconds=c.now if c is not None else 0)
        return base if tz is not None else base.replace(tzinfo=None)

    @classmethod
    def utcnow(cls):
        return cls.now(None)


_shim = types.ModuleType('datetime')
_shim.__dict__.update({k: getattr(_dt, k) for k in dir(_dt) if not k.startswith('__')})
_shim.datetime = VDateTime


def install(clock) -> None:
    _current['clock'] = clock
    from kopf._cogs.clients import events
    from kopf._cogs.structs import credentials
    from kopf._core.actions import application, progression
    from kopf._core.engines import peering, probing
    for m in (progression, application, peering, credentials, events, probing):
        if getattr(m, 'datetime', None) is not _shim:
            m.datetime = _shim


def to_virtual(iso: str) -> float:
    """Virtual seconds of an ISO timestamp written by kopf under the shim."""
    d = _dt.datetime.fromisoformat(iso.replace('Z', '+00:00'))
    if d.tzinfo is None:
        d = d.replace(tzinfo=_dt.timezone.utc)
    return (d - EPOCH).total_seconds()
