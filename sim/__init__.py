"""World simulator: executes the real kopf deterministically (virtual time, fake API, scripted handlers)."""
