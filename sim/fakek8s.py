"""A stateful in-process model of the Kubernetes API server — the executable twin of spec/K8s.tla.

It implements what kopf relies on: discovery, list/watch with resourceVersions (a per-resource
change log, `since`, bookmarks, 410 after compaction), merge-patch (RFC 7386) and JSON-patch
(RFC 6902 incl. `test`, failed test -> 422) on the main and /status endpoints, finalizers and
graceful deletion, no-op writes (no version bump, no event), uids, name reuse.

Nothing here imports kopf. The session object handed to kopf (`FakeSession`) holds requests and
watch lines as the World's policy says, which is how latency, ordering and faults become data.
"""
from __future__ import annotations

import asyncio
import copy
import json
import re
import urllib.parse
from typing import Any, Callable

from vf.jv import merge_patch, pointer_tokens


class ResDef:
    def __init__(self, group: str, version: str, plural: str, kind: str, namespaced: bool = True,
                 status_sub: bool = False, verbs: tuple[str, ...] = ('list', 'watch', 'patch', 'get', 'create', 'delete'),
                 singular: str | None = None, categories: tuple[str, ...] = (), shortnames: tuple[str, ...] = ()) -> None:
        self.categories = tuple(categories); self.shortnames = tuple(shortnames)
        self.group = group; self.version = version; self.plural = plural; self.kind = kind
        self.namespaced = namespaced; self.status_sub = status_sub; self.verbs = verbs
        self.singular = singular or kind.lower()

    @property
    def key(self) -> tuple[str, str, str]:
        return (self.group, self.version, self.plural)

    @property
    def api_version(self) -> str:
        return f'{self.group}/{self.version}' if self.group else self.version


class JsonPatchError(Exception):
    pass


def apply_json_patch(doc: Any, ops: list[dict[str, Any]]) -> Any:
    """RFC 6902 (add/remove/replace/test), written independently of the jsonpatch package."""
    doc = copy.deepcopy(doc)
    for op in ops:
        toks = pointer_tokens(op['path'])
        kind = op['op']
        if kind == 'test':
            cur = doc
            try:
                for t in toks:
                    cur = cur[int(t)] if isinstance(cur, list) else cur[t]
            except (KeyError, IndexError, ValueError, TypeError):
                raise JsonPatchError(f'test failed: {op["path"]} missing')
            if cur != op['value']:
                raise JsonPatchError(f'test failed: {op["path"]}')
            continue
        if not toks:
            if kind in ('add', 'replace'):
                doc = copy.deepcopy(op['value']); continue
            raise JsonPatchError('cannot remove the root')
        parent = doc
        try:
            for t in toks[:-1]:
                parent = parent[int(t)] if isinstance(parent, list) else parent[t]
        except (KeyError, IndexError, ValueError, TypeError):
            raise JsonPatchError(f'path not found: {op["path"]}')
        last = toks[-1]
        if isinstance(parent, list):
            if kind == 'add':
                if last == '-':
                    parent.append(copy.deepcopy(op['value']))
                else:
                    i = int(last)
                    if i > len(parent): raise JsonPatchError('index out of range')
                    parent.insert(i, copy.deepcopy(op['value']))
            else:
                i = int(last)
                if i >= len(parent): raise JsonPatchError('index out of range')
                if kind == 'remove': del parent[i]
                elif kind == 'replace': parent[i] = copy.deepcopy(op['value'])
                else: raise JsonPatchError(f'unsupported op {kind}')
        elif isinstance(parent, dict):
            if kind == 'add':
                parent[last] = copy.deepcopy(op['value'])
            elif kind == 'remove':
                if last not in parent: raise JsonPatchError(f'path not found: {op["path"]}')
                del parent[last]
            elif kind == 'replace':
                if last not in parent: raise JsonPatchError(f'path not found: {op["path"]}')
                parent[last] = copy.deepcopy(op['value'])
            else:
                raise JsonPatchError(f'unsupported op {kind}')
        else:
            raise JsonPatchError(f'path not found: {op["path"]}')
    return doc


class Watch:
    """One open watch request: lines committed by the server and not yet released to the client."""
    _n = 0

    def __init__(self, srv: 'FakeK8s', res: ResDef, ns: str | None, since: int, session: 'FakeSession') -> None:
        Watch._n += 1
        self.id = Watch._n
        self.srv = srv; self.res = res; self.ns = ns; self.since = since; self.session = session
        self.pending: list[dict[str, Any]] = []      # lines held back (delivery is a schedule choice)
        self.queue: asyncio.Queue[Any] = asyncio.Queue()
        self.open = True
        self.delivered = 0

    def matches(self, obj: dict[str, Any]) -> bool:
        return self.ns is None or obj['metadata'].get('namespace') == self.ns

    def commit(self, line: dict[str, Any]) -> None:
        if not self.open:
            return
        self.pending.append(line)
        self.srv.world_deliver(self)

    def release(self, n: int | None = None) -> int:
        """Hand the first n (default: all) pending lines to the client."""
        k = 0
        while self.pending and (n is None or k < n) and self.open:
            line = self.pending.pop(0)
            self.queue.put_nowait((json.dumps(line) + '\n').encode())
            self.delivered += 1; k += 1
            obj = line.get('object', {})
            self.srv.rec('srv.watch.line', loop=self.session.owner, watch=self.id, res=self.res.plural, type=line['type'],
                         uid=obj.get('metadata', {}).get('uid'), name=obj.get('metadata', {}).get('name'),
                         rv=_rvint(obj.get('metadata', {}).get('resourceVersion')),
                         code=obj.get('code') if line['type'] == 'ERROR' else None)
        return k

    def end(self, how: str = 'eof') -> None:
        """Server-side end of the stream: 'eof' (clean), 'conn' (connection error), 'payload' (payload error)."""
        if self.open:
            self.open = False
            self.queue.put_nowait(('END', how))
            self.srv.rec('srv.watch.end', loop=self.session.owner, watch=self.id, res=self.res.plural, how=how)
            if self in self.srv.watches:
                self.srv.watches.remove(self)

    # aiohttp.StreamReader-compatible part used by kopf's api.iter_jsonlines
    async def iter_chunked(self, n: int):
        import aiohttp
        while True:
            item = await self.queue.get()
            if isinstance(item, tuple):
                if item[1] == 'clienttimeout':           # aiohttp.ClientTimeout(total=...) of the streaming request has run out
                    raise asyncio.TimeoutError()
                if item[1] == 'conn':
                    raise aiohttp.ClientConnectionError('simulated connection loss')
                if item[1] == 'payload':
                    raise aiohttp.ClientPayloadError('simulated payload error')
                return
            yield item


def _rvint(rv: Any) -> int | None:
    try:
        return int(rv)
    except (TypeError, ValueError):
        return None


class Resp:
    def __init__(self, status: int = 200, payload: Any = None, watch: Watch | None = None,
                 headers: dict[str, str] | None = None) -> None:
        self.status = status; self.payload = payload; self.content = watch
        self.headers = headers or {}; self.closed = False

    async def json(self) -> Any:
        return copy.deepcopy(self.payload)

    async def text(self) -> str:
        return json.dumps(self.payload)

    def raise_for_status(self) -> None:
        if self.status >= 400:
            import aiohttp
            self.close()
            raise aiohttp.ClientResponseError(None, (), status=self.status, headers=self.headers)  # type: ignore

    def close(self) -> None:
        if not self.closed:
            self.closed = True
            if self.content is not None and self.content.open:
                w = self.content
                w.open = False
                w.queue.put_nowait(('END', 'closed'))
                w.srv.rec('srv.watch.end', loop=w.session.owner, watch=w.id, res=w.res.plural, how='client-closed')
                if w in w.srv.watches:
                    w.srv.watches.remove(w)

    def release(self) -> None:
        self.close()

    async def __aenter__(self) -> 'Resp':
        return self

    async def __aexit__(self, *a: Any) -> None:
        self.close()


def status_payload(code: int, message: str = '', **details: Any) -> dict[str, Any]:
    p: dict[str, Any] = {'kind': 'Status', 'apiVersion': 'v1', 'status': 'Failure', 'code': code, 'message': message}
    if details:
        p['details'] = details
    return p


class Req:
    """One HTTP request attempt as seen by the server side."""
    _n = 0

    def __init__(self, session: 'FakeSession', method: str, url: str, body: Any, headers: dict[str, str] | None) -> None:
        Req._n += 1
        self.id = Req._n
        self.session = session; self.method = method.upper(); self.url = url; self.body = body
        self.headers = headers or {}
        u = urllib.parse.urlparse(url)
        self.path = u.path; self.query = urllib.parse.parse_qs(u.query)
        self.is_watch = 'watch' in self.query
        self.t = session.srv.now()
        self.gate_before: asyncio.Future | None = None      # manual holds (lock-step replay)
        self.gate_after: asyncio.Future | None = None
        self.applied = False; self.result: Any = None; self.route: dict[str, Any] = {}
        self.timeout: Any = None                             # the aiohttp.ClientTimeout the caller passed, if any

    def release_before(self) -> None:
        if self.gate_before is not None and not self.gate_before.done():
            self.gate_before.set_result(None)

    def release_after(self) -> None:
        if self.gate_after is not None and not self.gate_after.done():
            self.gate_after.set_result(None)


class Fault:
    """What to answer instead of serving the request: a status code, or a transport-level failure."""
    def __init__(self, kind: str, code: int = 0, retry_after: int | None = None, apply_first: bool = False) -> None:
        self.kind = kind          # 'status' | 'conn' | 'timeout'
        self.code = code; self.retry_after = retry_after
        self.apply_first = apply_first   # the server applies the write, but the reply is lost


class Plan:
    """The World's decision for one request."""
    def __init__(self, pre: float = 0, post: float = 0, fault: Fault | None = None,
                 hold_before: bool = False, hold_after: bool = False) -> None:
        self.pre = pre; self.post = post; self.fault = fault
        self.hold_before = hold_before; self.hold_after = hold_after


class FakeSession:
    """What kopf gets as `aiohttp_session` (through kopf.AiohttpSession from a login handler)."""

    def __init__(self, srv: 'FakeK8s', owner: str, gen: int = 1) -> None:
        self.srv = srv; self.owner = owner; self.gen = gen
        self.headers: dict[str, str] = {}
        self.closed = False
        self.dead = False            # killed process: requests neither reach the server nor return
        self.inflight: list[Req] = []

    async def close(self) -> None:
        # like aiohttp: the session refuses new requests as soon as close() starts, and close() itself takes a while
        # (it shuts the open connections down) -- at least one iteration of the loop, `srv.close_latency` seconds if set
        self.closed = True
        await asyncio.sleep(getattr(self.srv, 'close_latency', 0) or 0)

    async def _forever(self) -> None:
        await asyncio.get_running_loop().create_future()

    async def request(self, method: str, url: str, json: Any = None, headers: dict[str, str] | None = None,
                      timeout: Any = None, **_: Any) -> Resp:
        import aiohttp
        if self.closed:
            raise RuntimeError('Session is closed')
        if self.dead:
            await self._forever()
        srv = self.srv
        req = Req(self, method, url, copy.deepcopy(json), headers)
        req.timeout = timeout
        srv.parse_route(req)
        plan = srv.policy(req) if srv.policy is not None else Plan()
        plan = plan or Plan()
        self.inflight.append(req)
        srv.requests.append(req)
        try:
            await asyncio.sleep(0)           # a request never completes within the caller's step
            if plan.hold_before:
                req.gate_before = asyncio.get_running_loop().create_future()
                srv.held.append(req); srv.rec('srv.hold', req=req.id, when='before', **req.route)
                await req.gate_before
            if plan.pre:
                await asyncio.sleep(plan.pre)
            if self.dead:
                await self._forever()
            fault = plan.fault
            if fault is not None and not fault.apply_first:
                resp = None
            else:
                resp = srv.serve(req)
                req.applied = True
            if plan.hold_after:
                req.gate_after = asyncio.get_running_loop().create_future()
                if req not in srv.held: srv.held.append(req)
                srv.rec('srv.hold', req=req.id, when='after', **req.route)
                await req.gate_after
            if plan.post:
                await asyncio.sleep(plan.post)
            if self.dead:
                await self._forever()
            if fault is not None:
                srv.rec('srv.fault', req=req.id, loop=self.owner, fault=fault.kind, code=fault.code, route=req.route.get('kind'), name=req.route.get('name'), plural=req.route.get('plural'), ns=req.route.get('ns'), ra=fault.retry_after)
                if fault.kind == 'conn':
                    raise aiohttp.ClientConnectionError('simulated connection error')
                if fault.kind == 'timeout':
                    raise asyncio.TimeoutError()
                if fault.kind == 'sslclosed':       # the TLS stream was shut down under the session (the credentials are still fine)
                    raise aiohttp.ClientOSError(1, '[SSL: APPLICATION_DATA_AFTER_CLOSE_NOTIFY] application data after close notify')
                hdrs = {'Retry-After': str(fault.retry_after)} if fault.retry_after is not None else {}
                if resp is not None and resp.content is not None:
                    resp.close()
                return Resp(fault.code, status_payload(fault.code, f'simulated {fault.code}'), headers=hdrs)
            return resp  # type: ignore
        finally:
            if req in self.inflight: self.inflight.remove(req)
            if req in srv.held: srv.held.remove(req)


class FakeK8s:
    def __init__(self, now: Callable[[], float], rec: Callable[..., None]) -> None:
        self.now = now; self.rec = rec
        self.rv = 0
        self.uid_n = 0
        self.resources: dict[tuple[str, str, str], ResDef] = {}
        self.objs: dict[tuple[tuple[str, str, str], str | None, str], dict[str, Any]] = {}
        self.log: dict[tuple[str, str, str], list[tuple[int, str, dict[str, Any]]]] = {}
        self.compacted: dict[tuple[str, str, str], int] = {}
        self.watches: list[Watch] = []
        self.requests: list[Req] = []
        self.held: list[Req] = []
        self.policy: Callable[[Req], Plan | None] | None = None
        self.watch_policy: Callable[[Watch, dict[str, Any]], bool] | None = None   # True = deliver now
        self.valid_gens: set[int] | None = None       # None: credentials are not checked
        self.keep_bodies: set[str] = set()            # plurals whose PATCH bodies are recorded
        self.preferred: dict[str, str] = {}           # group -> preferred version (default: the lowest)
        self.posted_events: list[dict[str, Any]] = []
        self.projector: Callable[[ResDef, dict[str, Any]], Any] | None = None   # abstract state for the traces
        self.add_resource(ResDef('', 'v1', 'namespaces', 'Namespace', namespaced=False))
        self.add_resource(ResDef('', 'v1', 'events', 'Event', namespaced=True, verbs=('create',)))
        self.add_resource(ResDef('apiextensions.k8s.io', 'v1', 'customresourcedefinitions', 'CustomResourceDefinition',
                                 namespaced=False))

    # ---- registry of kinds
    def add_resource(self, r: ResDef, announce: bool = False) -> ResDef:
        self.resources[r.key] = r
        self.log.setdefault(r.key, [])
        if announce:        # as a CRD object, so that kopf's resource observer notices it
            self.create_crd_object(r)
        return r

    def create_crd_object(self, r: ResDef) -> None:
        crd = self.resources[('apiextensions.k8s.io', 'v1', 'customresourcedefinitions')]
        self.create(crd, None, f'{r.plural}.{r.group}', {'spec': {'group': r.group, 'names': {'plural': r.plural, 'kind': r.kind}}})

    def touch_crd_object(self, r: ResDef) -> None:
        """The CRD of this kind was modified (a version, a category, ... changed): its watchers get a MODIFIED event."""
        crd = self.resources[('apiextensions.k8s.io', 'v1', 'customresourcedefinitions')]
        if (crd.key, None, f'{r.plural}.{r.group}') in self.objs:
            self.edit(crd, None, f'{r.plural}.{r.group}', lambda o: o['spec'].update(rev=o['spec'].get('rev', 0) + 1))

    def remove_resource(self, r: ResDef) -> None:
        self.resources.pop(r.key, None)
        for w in list(self.watches):
            if w.res.key == r.key:
                w.end('eof')
        crd = self.resources[('apiextensions.k8s.io', 'v1', 'customresourcedefinitions')]
        if (crd.key, None, f'{r.plural}.{r.group}') in self.objs:
            self.delete(crd, None, f'{r.plural}.{r.group}')

    def find(self, plural: str) -> ResDef:
        for r in self.resources.values():
            if r.plural == plural:
                return r
        raise KeyError(plural)

    # ---- state changes (each one is an action of K8s.tla)
    def _bump(self) -> int:
        self.rv += 1
        return self.rv

    def _normalise(self, o: dict[str, Any]) -> None:
        md = o.setdefault('metadata', {})
        for k in ('annotations', 'labels', 'finalizers'):
            if k in md and not md[k]:
                del md[k]

    def _emit(self, res: ResDef, typ: str, obj: dict[str, Any]) -> None:
        snap = copy.deepcopy(obj)
        rv = int(snap['metadata']['resourceVersion'])
        self.log[res.key].append((rv, typ, snap))
        for w in list(self.watches):
            if w.res.key == res.key and w.matches(snap):
                w.commit({'type': typ, 'object': copy.deepcopy(snap)})

    def world_deliver(self, w: Watch) -> None:
        if self.watch_policy is None or self.watch_policy(w, w.pending[-1]):
            w.release()

    def _proj(self, res: ResDef, o: dict[str, Any]) -> Any:
        return self.projector(res, o) if self.projector is not None else None

    def get(self, res: ResDef, ns: str | None, name: str) -> dict[str, Any] | None:
        return self.objs.get((res.key, ns if res.namespaced else None, name))

    def create(self, res: ResDef, ns: str | None, name: str, body: dict[str, Any], actor: str = 'user') -> dict[str, Any]:
        key = (res.key, ns if res.namespaced else None, name)
        assert key not in self.objs, f'{key} exists'
        self.uid_n += 1
        o = copy.deepcopy(body)
        o.setdefault('apiVersion', res.api_version); o.setdefault('kind', res.kind)
        md = o.setdefault('metadata', {})
        md['name'] = name
        if res.namespaced: md['namespace'] = ns
        md['uid'] = f'uid-{self.uid_n}'
        md['creationTimestamp'] = '2030-01-01T00:00:00Z'
        md['generation'] = 1
        md['resourceVersion'] = str(self._bump())
        self._normalise(o)
        self.objs[key] = o
        self.rec('srv.create', actor=actor, res=res.plural, group=res.group, name=name, uid=md['uid'], rv=self.rv, proj=self._proj(res, o))
        self._emit(res, 'ADDED', o)
        return o

    def _after_write(self, res: ResDef, key: Any, old: dict[str, Any], new: dict[str, Any], actor: str, how: str) -> tuple[dict[str, Any], bool]:
        """Common tail of every write: no-op detection, version bump, deletion completion, events."""
        self._normalise(new)
        new['metadata']['resourceVersion'] = old['metadata']['resourceVersion']
        if new == old:
            self.rec('srv.write', actor=actor, how=how, res=res.plural, group=res.group, name=key[2], uid=old['metadata']['uid'],
                     rv=_rvint(old['metadata']['resourceVersion']), noop=True)
            return copy.deepcopy(old), False
        if new.get('spec') != old.get('spec'):
            new['metadata']['generation'] = old['metadata'].get('generation', 1) + 1
        new['metadata']['resourceVersion'] = str(self._bump())
        gone = bool(new['metadata'].get('deletionTimestamp')) and not new['metadata'].get('finalizers')
        self.rec('srv.write', actor=actor, how=how, res=res.plural, group=res.group, name=key[2], uid=new['metadata']['uid'],
                 rv=self.rv, noop=False, gone=gone)
        self.events_last_proj = self._proj(res, new)
        self.rec('srv.state', res=res.plural, group=res.group, name=key[2], uid=new['metadata']['uid'], rv=self.rv, gone=gone, proj=self.events_last_proj)
        if gone:
            del self.objs[key]
            self._emit(res, 'DELETED', new)
        else:
            self.objs[key] = new
            self._emit(res, 'MODIFIED', new)
        return copy.deepcopy(new), True

    def edit(self, res: ResDef, ns: str | None, name: str, fn: Callable[[dict[str, Any]], None], actor: str = 'user') -> dict[str, Any]:
        key = (res.key, ns if res.namespaced else None, name)
        old = self.objs[key]
        new = copy.deepcopy(old)
        fn(new)
        return self._after_write(res, key, old, new, actor, 'edit')[0]

    def delete(self, res: ResDef, ns: str | None, name: str, actor: str = 'user') -> None:
        key = (res.key, ns if res.namespaced else None, name)
        old = self.objs[key]
        new = copy.deepcopy(old)
        if new['metadata'].get('finalizers'):
            if new['metadata'].get('deletionTimestamp'):
                return
            new['metadata']['deletionTimestamp'] = '2030-01-01T00:00:01Z'
            self._after_write(res, key, old, new, actor, 'delete-mark')
        else:
            new['metadata']['resourceVersion'] = str(self._bump())
            del self.objs[key]
            self.rec('srv.write', actor=actor, how='delete', res=res.plural, group=res.group, name=name, uid=new['metadata']['uid'],
                     rv=self.rv, noop=False, gone=True)
            self._emit(res, 'DELETED', new)

    def compact(self, res: ResDef, upto: int | None = None) -> None:
        """Forget the change log up to a version: watches from older versions get 410."""
        self.compacted[res.key] = self.rv if upto is None else upto

    def bookmark(self, res: ResDef) -> None:
        for w in list(self.watches):
            if w.res.key == res.key:
                w.commit({'type': 'BOOKMARK', 'object': {'kind': res.kind, 'apiVersion': res.api_version,
                                                         'metadata': {'resourceVersion': str(self.rv)}}})

    # ---- HTTP
    _RE_CORE = re.compile(r'^/api/(?P<v>[^/]+)(?P<rest>/.*)?$')
    _RE_GRP = re.compile(r'^/apis/(?P<g>[^/]+)/(?P<v>[^/]+)(?P<rest>/.*)?$')

    def parse_route(self, req: Req) -> None:
        path = req.path.rstrip('/')
        route: dict[str, Any] = {'method': req.method, 'kind': 'other', 'path': path}
        m = self._RE_GRP.match(path)
        g = v = rest = None
        if m:
            g, v, rest = m.group('g'), m.group('v'), m.group('rest') or ''
        else:
            m = self._RE_CORE.match(path)
            if m:
                g, v, rest = '', m.group('v'), m.group('rest') or ''
        if path in ('/api', '/apis', '/version') or (m and not rest):
            route['kind'] = 'discovery'
        elif m:
            segs = [s for s in rest.split('/') if s]
            ns = None
            if segs[0] == 'namespaces' and len(segs) >= 3:
                ns = segs[1]; segs = segs[2:]
            plural = segs[0]; name = segs[1] if len(segs) > 1 else None; sub = segs[2] if len(segs) > 2 else None
            route.update(group=g, version=v, ns=ns, plural=plural, name=name, sub=sub)
            if req.method == 'GET' and name is None:
                route['kind'] = 'watch' if req.is_watch else 'list'
            elif req.method == 'GET':
                route['kind'] = 'get'
            elif req.method == 'PATCH':
                ct = req.headers.get('Content-Type', '')
                route['kind'] = 'patch'; route['ptype'] = 'json' if 'json-patch' in ct else 'merge'
            elif req.method == 'POST':
                route['kind'] = 'create'
            elif req.method == 'DELETE':
                route['kind'] = 'delete'
        req.route = route

    def serve(self, req: Req) -> Resp:
        r = req.route; owner = req.session.owner
        if self.valid_gens is not None and req.session.gen not in self.valid_gens:
            self.rec('srv.req', req=req.id, loop=owner, code=401, gen=req.session.gen, sent=req.t, **r)
            return Resp(401, status_payload(401, 'Unauthorized'))
        resp = self._serve(req)
        extra = {k: v for k, v in req.__dict__.get('info', {}).items()}
        if r.get('kind') == 'patch' and r.get('plural') in self.keep_bodies and 'pbody' not in extra:
            extra['pbody'] = copy.deepcopy(req.body)
        self.rec('srv.req', req=req.id, loop=owner, code=resp.status, gen=req.session.gen, sent=req.t, **r, **extra)
        return resp

    def _serve(self, req: Req) -> Resp:
        r = req.route; path = r['path']
        if path == '/version':
            return Resp(200, {'major': '1', 'minor': '30'})
        if path == '/api':
            return Resp(200, {'versions': sorted({k[1] for k in self.resources if k[0] == ''})})
        if path == '/apis':
            groups = {}
            for (g, v, _p) in self.resources:
                if g:
                    groups.setdefault(g, set()).add(v)
            pref = lambda g, vs: self.preferred.get(g) if self.preferred.get(g) in vs else sorted(vs)[0]
            return Resp(200, {'groups': [{'name': g, 'preferredVersion': {'version': pref(g, vs), 'groupVersion': f'{g}/{pref(g, vs)}'},
                                          'versions': [{'version': v, 'groupVersion': f'{g}/{v}'} for v in sorted(vs)]}
                                         for g, vs in sorted(groups.items())]})
        if r['kind'] == 'discovery':
            m = self._RE_GRP.match(path) or self._RE_CORE.match(path)
            g = m.groupdict().get('g', '') or ''; v = m.group('v')
            items = []
            for res in self.resources.values():
                if res.group == g and res.version == v:
                    items.append({'name': res.plural, 'kind': res.kind, 'singularName': res.singular,
                                  'namespaced': res.namespaced, 'verbs': list(res.verbs),
                                  'categories': list(res.categories), 'shortNames': list(res.shortnames)})
                    if res.status_sub:
                        items.append({'name': res.plural + '/status', 'kind': res.kind, 'singularName': '',
                                      'namespaced': res.namespaced, 'verbs': ['get', 'patch', 'update']})
            if not items:
                return Resp(404, status_payload(404, 'no such group/version'))
            return Resp(200, {'kind': 'APIResourceList', 'groupVersion': f'{g}/{v}' if g else v, 'resources': items})
        if r['kind'] == 'other':
            return Resp(404, status_payload(404, f'no route {path}'))
        res = self.resources.get((r['group'], r['version'], r['plural']))
        if res is None:
            return Resp(404, status_payload(404, f'no such resource {r["plural"]}'))
        ns = r['ns']
        if r['kind'] == 'list':
            items = [copy.deepcopy(o) for (k, n, _), o in sorted(self.objs.items(), key=lambda kv: int(kv[1]['metadata']['resourceVersion']))
                     if k == res.key and (ns is None or n == ns)]
            req.info = {'listrv': self.rv, 'uids': [o['metadata']['uid'] for o in items], 'names': [o['metadata']['name'] for o in items],
                        'rvs': [int(o['metadata']['resourceVersion']) for o in items]}
            return Resp(200, {'kind': res.kind + 'List', 'apiVersion': res.api_version,
                              'metadata': {'resourceVersion': str(self.rv)}, 'items': items})
        if r['kind'] == 'watch':
            since = _rvint(req.query.get('resourceVersion', [None])[0])
            w = Watch(self, res, ns, since if since is not None else self.rv, req.session)
            req.info = {'since': since, 'watch': w.id}
            self.watches.append(w)
            if since is not None and since < self.compacted.get(res.key, 0):
                w.pending.append({'type': 'ERROR', 'object': status_payload(410, 'too old resource version')})
                w.release()
                w.end('eof')
                return Resp(200, None, watch=w)
            if since is not None:
                for rv, typ, snap in self.log[res.key]:
                    if rv > since and w.matches(snap):
                        w.commit({'type': typ, 'object': copy.deepcopy(snap)})
            # ?timeoutSeconds=N: the server ends the stream cleanly after N seconds; ClientTimeout(total=M): the client gives up after M
            loop = asyncio.get_running_loop()
            tsec = req.query.get('timeoutSeconds', [None])[0]
            if tsec is not None:
                loop.call_later(float(tsec), w.end, 'eof')
            total = getattr(req.timeout, 'total', None)
            if total is not None:
                loop.call_later(float(total), w.end, 'clienttimeout')
            return Resp(200, None, watch=w)
        name = r['name']
        key = (res.key, ns if res.namespaced else None, name)
        if r['kind'] == 'create':
            body = req.body or {}
            if res.plural == 'events':
                self.posted_events.append(body)
                return Resp(201, body)
            nm = body.get('metadata', {}).get('name') or f'gen-{self.uid_n + 1}'
            if (res.key, ns if res.namespaced else None, nm) in self.objs:
                return Resp(409, status_payload(409, 'already exists'))
            return Resp(201, self.create(res, ns, nm, body, actor=req.session.owner))
        obj = self.objs.get(key)
        if obj is None:
            return Resp(404, status_payload(404, f'{res.plural} "{name}" not found'))
        if r['kind'] == 'get':
            return Resp(200, copy.deepcopy(obj))
        if r['kind'] == 'delete':
            self.delete(res, ns, name, actor=req.session.owner)
            return Resp(200, copy.deepcopy(obj))
        if r['kind'] == 'patch':
            sub = r['sub']
            if sub not in (None, 'status') or (sub == 'status' and not res.status_sub):
                return Resp(404, status_payload(404, f'no subresource {sub}'))
            old = obj
            if r['ptype'] == 'merge':
                patch = req.body if isinstance(req.body, dict) else {}
                if sub == 'status':
                    new = copy.deepcopy(old)
                    if 'status' in patch:
                        st = merge_patch(old.get('status'), patch['status'])
                        if st is None: new.pop('status', None)
                        else: new['status'] = st
                else:
                    eff = dict(patch)
                    if res.status_sub:
                        eff.pop('status', None)       # the main endpoint ignores status when it is a subresource
                    new = merge_patch(old, eff)
            else:
                try:
                    cand = apply_json_patch(old, req.body or [])
                except JsonPatchError as e:
                    req.info = {'uid': old['metadata']['uid'], 'conflict': str(e)}
                    return Resp(422, status_payload(422, str(e)))
                new = copy.deepcopy(old)
                if sub == 'status':
                    if 'status' in cand: new['status'] = cand['status']
                    else: new.pop('status', None)
                else:
                    st = old.get('status') if res.status_sub else cand.get('status')
                    new = cand
                    if st is None: new.pop('status', None)
                    else: new['status'] = st
            # immutable system fields
            for f in ('uid', 'name', 'namespace', 'creationTimestamp', 'deletionTimestamp', 'generation'):
                if f in old['metadata']: new.setdefault('metadata', {})[f] = old['metadata'][f]
                else: new.get('metadata', {}).pop(f, None)
            body, changed = self._after_write(res, key, old, new, req.session.owner, f'{r["ptype"]}{"/status" if sub else ""}')
            req.info = {'uid': old['metadata']['uid'], 'rv_after': _rvint(body['metadata']['resourceVersion']), 'changed': changed,
                        'gone': key not in self.objs, 'proj': self._proj(res, body)}
            if res.plural in self.keep_bodies:
                req.info['pbody'] = copy.deepcopy(req.body)
            return Resp(200, body)
        return Resp(405, status_payload(405, 'method not allowed'))
