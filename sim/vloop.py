"""Virtual-time event loops and the World scheduler.

One asyncio loop per simulated operator process (kopf's run_tasks sweeps "all tasks of the loop"
on exit, so two operators must not share one). Loops never block and never advance time: the
World steps them (`_run_once`) and moves the shared clock itself, which makes the schedule data:

* `run_until(t)` runs everything that happens strictly before `t` and — if `inclusive` — the
  timers that are due exactly at `t`;
* world events (`at(t, fn, phase)`) are environment actions; phase 0 fires *before* the loops'
  timers of that instant are run (this is how "an event arrives at the very instant the idle
  timeout fires" is produced), phase 1 after the loops went idle at that instant.
"""
from __future__ import annotations

import asyncio
import heapq
import itertools
import selectors
import signal
import threading
from asyncio import events
from typing import Any, Callable


class Clock:
    def __init__(self) -> None:
        self.now = 0.0


class _DummySelector(selectors.BaseSelector):
    def __init__(self) -> None:
        self._map: dict[int, selectors.SelectorKey] = {}

    def register(self, fileobj, events, data=None):
        fd = fileobj if isinstance(fileobj, int) else fileobj.fileno()
        key = selectors.SelectorKey(fileobj, fd, events, data)
        self._map[fd] = key
        return key

    def unregister(self, fileobj):
        fd = fileobj if isinstance(fileobj, int) else fileobj.fileno()
        return self._map.pop(fd)

    def select(self, timeout=None):
        return []       # the World advances the clock, never the loop

    def get_map(self):
        return self._map


class VLoop(asyncio.SelectorEventLoop):
    """An event loop whose time is the world clock and which is stepped from outside."""

    def __init__(self, clock: Clock, name: str = 'loop') -> None:
        super().__init__(_DummySelector())
        self.clock = clock
        self.name = name
        self.steps = 0

    def time(self) -> float:
        return self.clock.now

    def add_signal_handler(self, sig, callback, *args):   # kopf then logs "OS signals are ignored"
        raise NotImplementedError

    def enter(self) -> None:
        self._thread_id = threading.get_ident()
        events._set_running_loop(self)

    def leave(self) -> None:
        self._thread_id = None
        events._set_running_loop(None)

    def step(self) -> None:
        self.enter()
        try:
            self._run_once()
            self.steps += 1
        finally:
            self.leave()

    def _drop_cancelled(self) -> None:
        while self._scheduled and self._scheduled[0]._cancelled:
            h = heapq.heappop(self._scheduled)
            h._scheduled = False
            self._timer_cancelled_count = max(0, self._timer_cancelled_count - 1)

    def busy(self) -> bool:
        if self._ready:
            return True
        self._drop_cancelled()
        return bool(self._scheduled) and self._scheduled[0]._when <= self.clock.now + 1e-9

    def next_when(self) -> float | None:
        self._drop_cancelled()
        return self._scheduled[0]._when if self._scheduled else None

    def spawn(self, coro, name: str | None = None) -> asyncio.Task:
        self.enter()
        try:
            return self.create_task(coro, name=name)
        finally:
            self.leave()

    def pending_tasks(self) -> list[asyncio.Task]:
        return [t for t in asyncio.all_tasks(self) if not t.done()]


class Stall(Exception):
    """The event loop did not return control within the wall-clock budget (e.g. a spinning coroutine)."""


class World:
    def __init__(self, seed: int = 0, wall_budget: int = 20) -> None:
        self.clock = Clock()
        self.loops: list[VLoop] = []
        self._events: list[tuple[float, int, int, Callable[[], Any]]] = []
        self._seq = itertools.count()
        self.max_steps = 2_000_000
        self.steps = 0
        self.wall_budget = wall_budget
        self.stalled = False
        self.abort = None

    @property
    def now(self) -> float:
        return self.clock.now

    def new_loop(self, name: str) -> VLoop:
        loop = VLoop(self.clock, name)
        self.loops.append(loop)
        return loop

    def drop_loop(self, loop: VLoop) -> None:
        if loop in self.loops:
            self.loops.remove(loop)
        try:
            loop.close()
        except Exception:
            pass

    # ---- environment actions
    def at(self, t: float, fn: Callable[[], Any], phase: int = 1) -> None:
        heapq.heappush(self._events, (t, phase, next(self._seq), fn))

    def after(self, d: float, fn: Callable[[], Any], phase: int = 1) -> None:
        self.at(self.clock.now + d, fn, phase)

    def _fire(self, phase: int) -> bool:
        fired = False
        while self._events and self._events[0][0] <= self.clock.now + 1e-9 and self._events[0][1] <= phase:
            _, _, _, fn = heapq.heappop(self._events)
            fn(); fired = True
        return fired

    # ---- running
    def _guarded_step(self, loop: VLoop) -> None:
        if self.wall_budget:
            # A coroutine that spins without yielding burns CPU: the budget is CPU time of this process (ITIMER_VIRTUAL), so that a
            # machine busy with other work cannot make a healthy step look like a stall; a generous wall-clock alarm stays as the
            # backstop for a step that blocks without burning CPU.
            def on_alarm(signum, frame):
                # the exception lands in whatever coroutine is spinning (and may be swallowed there): remember it
                what = 'of CPU time' if signum == signal.SIGVTALRM else 'of wall-clock time (backstop)'
                self.stalled = f'loop {loop.name} did not yield within {self.wall_budget if signum == signal.SIGVTALRM else wall}s {what}'
                raise Stall(self.stalled)
            wall = max(180, 12 * self.wall_budget)
            old = signal.signal(signal.SIGALRM, on_alarm)
            oldv = signal.signal(signal.SIGVTALRM, on_alarm)
            signal.alarm(wall)
            signal.setitimer(signal.ITIMER_VIRTUAL, self.wall_budget)
            try:
                loop.step()
            finally:
                signal.setitimer(signal.ITIMER_VIRTUAL, 0)
                signal.alarm(0)
                signal.signal(signal.SIGVTALRM, oldv)
                signal.signal(signal.SIGALRM, old)
            if self.stalled:
                raise Stall(self.stalled)
        else:
            loop.step()

    def settle(self) -> int:
        """Step the loops, without advancing the clock, until none has anything ready."""
        n = 0
        while True:
            busy = [l for l in self.loops if l.busy()]
            if not busy:
                return n
            for l in busy:
                self._guarded_step(l)
                n += 1; self.steps += 1
                if self.abort is not None and self.abort():
                    raise Stall(self.abort())
                if self.steps > self.max_steps:
                    raise Stall(f'more than {self.max_steps} loop iterations: livelock at t={self.clock.now}')

    def next_deadline(self) -> float | None:
        cands = [w for w in (l.next_when() for l in self.loops) if w is not None]
        if self._events:
            cands.append(self._events[0][0])
        return min(cands) if cands else None

    def run_until(self, t_end: float, inclusive: bool = True, stop: Callable[[], bool] | None = None) -> None:
        while True:
            self._fire(0)
            self.settle()
            if stop is not None and stop():
                return
            if self._fire(1):
                continue
            nxt = self.next_deadline()
            if nxt is None or nxt > t_end + 1e-9 or (not inclusive and nxt >= t_end - 1e-9):
                if t_end > self.clock.now:
                    self.clock.now = t_end
                if not inclusive or nxt is None or nxt > t_end + 1e-9:
                    return
                continue
            if nxt > self.clock.now:
                self.clock.now = nxt

    def run_for(self, d: float, **kw: Any) -> None:
        self.run_until(self.clock.now + d, **kw)
