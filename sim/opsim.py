"""Simulation = World (clock, loops) + FakeK8s + Recorder + real kopf operators.

`Sim.operator(...)` starts a real `kopf.operator()` in its own virtual loop, logged in through a
`@kopf.on.login` handler that returns `kopf.AiohttpSession` around a FakeSession — kopf itself is
not patched. Handlers are ordinary coroutines registered through the public decorators on a fresh
OperatorRegistry; `Sim.handler()` builds recording wrappers with scripted outcomes.
"""
from __future__ import annotations

import asyncio
import json
import logging
import sys
from typing import Any, Callable

from sim import clock as vclock
from sim import vthreads
from sim.fakek8s import FakeK8s, FakeSession, Plan, ResDef
from sim.vloop import Stall, VLoop, World

GROUP, VERSION, PLURAL = 'example.com', 'v1', 'things'


class Recorder:
    def __init__(self, now: Callable[[], float]) -> None:
        self.now = now
        self.events: list[dict[str, Any]] = []
        self.limit = 60_000
        self.overflow = False
        self.muted: set[str] = set()           # loops (operator incarnations) whose events are dropped (killed)

    def rec(self, ev: str, **f: Any) -> None:
        if f.get('loop') in self.muted and not ev.startswith('srv.'):
            return
        if len(self.events) >= self.limit:
            self.overflow = True
            return
        t = self.now()
        e = {'seq': len(self.events) + 1, 't': int(t) if float(t).is_integer() else round(t, 6), 'ev': ev}
        e.update({k: v for k, v in f.items() if v is not None})
        self.events.append(e)

    def select(self, *evs: str, **match: Any) -> list[dict[str, Any]]:
        return [e for e in self.events if (not evs or e['ev'] in evs) and all(e.get(k) == v for k, v in match.items())]

    def dump(self, path: str) -> None:
        with open(path, 'w') as f:
            for e in self.events:
                f.write(json.dumps(e, default=str) + '\n')


class Operator:
    """One incarnation of an operator process."""

    def __init__(self, sim: 'Sim', name: str, registry: Any, settings: Any, **kw: Any) -> None:
        self.sim = sim; self.name = name; self.registry = registry; self.settings = settings
        self.kw = kw
        self.loop: VLoop | None = None
        self.task: asyncio.Task | None = None
        self.stop_flag: asyncio.Event | None = None
        self.ready_flag: asyncio.Event | None = None
        self.sessions: list[FakeSession] = []
        self.logins = 0
        self.killed = False
        self.memories = None
        self.indexers = None

    def _install_login(self) -> None:
        import kopf
        from kopf._cogs.structs import credentials
        if getattr(self.registry, '_verif_login', False):
            return
        self.registry._verif_login = True
        op_ref = self.registry._verif_ops = getattr(self.registry, '_verif_ops', {})

        @kopf.on.login(registry=self.registry, id='verif_login')
        async def verif_login(**_: Any) -> Any:
            op = op_ref['current']
            return await op._login(credentials)
        self._login_handler = verif_login

    async def _login(self, credentials: Any) -> Any:
        self.logins += 1
        outcome = self.sim.login_script(self, self.logins) if self.sim.login_script else 'ok'
        self.sim.rec('op.login', loop=self.name, n=self.logins, outcome=outcome)
        if outcome == 'perm':
            import kopf
            raise kopf.PermanentError('scripted login failure')
        if outcome == 'temp':
            import kopf
            raise kopf.TemporaryError('scripted login failure', delay=1)
        if outcome == 'none':
            return None
        gen = self.sim.next_gen()
        sess = FakeSession(self.sim.srv, self.name, gen=gen)
        if self.killed:
            sess.dead = True
        self.sessions.append(sess)
        return credentials.AiohttpSession(aiohttp_session=sess, server='http://fake', default_namespace='default')

    def start(self) -> 'Operator':
        import kopf
        from kopf._core.engines import indexing
        from kopf._core.reactor import inventory
        sim = self.sim
        sim.recorder.muted.discard(self.name)        # a new incarnation under the name of a killed one is heard again
        self._install_login()
        self.registry._verif_ops['current'] = self
        self.loop = sim.world.new_loop(self.name)
        self.loop.enter()
        try:
            self.stop_flag = asyncio.Event()
            self.ready_flag = asyncio.Event()
            self.memories = inventory.ResourceMemories()
            self.indexers = indexing.OperatorIndexers()
            kw = dict(registry=self.registry, settings=self.settings, memories=self.memories, indexers=self.indexers,
                      stop_flag=self.stop_flag, ready_flag=self.ready_flag)
            kw.update(self.kw)
            if 'clusterwide' not in kw and 'namespaces' not in kw:
                kw['clusterwide'] = True
            if 'standalone' not in kw and 'peering_name' not in kw:
                kw['standalone'] = True
            self.task = self.loop.create_task(kopf.operator(**kw), name=f'operator {self.name}')
            self.task.add_done_callback(lambda _t: None if self.killed else sim.rec('op.return', loop=self.name, outcome=self.outcome()))
        finally:
            self.loop.leave()
        sim.rec('op.start', loop=self.name)
        return self

    @property
    def done(self) -> bool:
        return self.task is not None and self.task.done()

    def outcome(self) -> str:
        if not self.done: return 'running'
        if self.task.cancelled(): return 'cancelled'
        e = self.task.exception()
        return 'returned' if e is None else f'raised:{type(e).__name__}'

    def stop(self) -> None:
        self.sim.rec('op.stop', loop=self.name)
        self.stop_flag.set()

    def cancel(self) -> None:
        self.sim.rec('op.cancel', loop=self.name)
        self.task.cancel()

    def kill(self) -> None:
        """SIGKILL: nothing of this process reaches the server any more; its handlers stop being recorded."""
        sim = self.sim
        sim.rec('op.kill', loop=self.name)
        self.killed = True
        sim.recorder.muted.add(self.name)
        for s in self.sessions:
            s.dead = True
        loop = self.loop
        self._drop_threads()
        for _ in range(200):
            pend = loop.pending_tasks()
            if not pend:
                break
            for t in pend:
                t.cancel()
            for _ in range(50):
                if not loop.busy():
                    break
                loop.step()
        sim.world.drop_loop(loop)

    def _drop_threads(self) -> None:
        ex = getattr(self.settings.execution, 'executor', None)
        if isinstance(ex, vthreads.VExecutor):
            ex.kill_all()

    def finish(self, grace: float = 120) -> str:
        """Graceful stop and wait for kopf.operator() to return."""
        if not self.done:
            self.stop()
            self.sim.world.run_until(self.sim.world.now + grace, stop=lambda: self.done)
        out = self.outcome()
        if self.loop in self.sim.world.loops:
            # let leftovers (if any) unwind, then drop the loop
            self._drop_threads()
            for _ in range(100):
                if not self.loop.busy(): break
                self.loop.step()
            for t in self.loop.pending_tasks():      # orphans (e.g. the guard of an abandoned daemon)
                t.cancel()
            for _ in range(100):
                if not self.loop.busy(): break
                self.loop.step()
            self.sim.world.drop_loop(self.loop)
        return out


class Sim:
    def __init__(self, seed: int = 0, wall_budget: int = 20) -> None:
        logging.disable(logging.CRITICAL)
        sys.unraisablehook = lambda u: None      # coroutines of dropped loops are finalised by the collector: not news
        import warnings
        warnings.simplefilter('ignore')          # ("coroutine ... was never awaited", "daemon did not exit in time": of dropped loops / by design)
        self.world = World(seed=seed, wall_budget=wall_budget)
        self.recorder = Recorder(lambda: self.world.now)
        self.rec = self.recorder.rec
        self.world.abort = lambda: ('more than %d events recorded: the operator does not come to rest' % self.recorder.limit) if self.recorder.overflow else None
        self.srv = FakeK8s(lambda: self.world.now, self.rec)
        vclock.install(self.world.clock)
        self._gen = 0
        self.login_script: Callable[[Operator, int], str] | None = None
        self.ops: list[Operator] = []
        self.things = self.srv.add_resource(ResDef(GROUP, VERSION, PLURAL, 'Thing', namespaced=True, status_sub=False))
        self._install_hook_sink()

    def _install_hook_sink(self) -> None:
        try:
            from kopf._cogs.helpers import veriftrace
        except ImportError:
            return
        def sink(ev: str, fields: dict[str, Any]) -> None:
            try:
                loop = asyncio.get_running_loop()
                name = getattr(loop, 'name', None)
            except RuntimeError:
                name = vthreads.current_loop_name()      # a hook reached from a synchronous handler's thread
            self.rec(ev, loop=name, **fields)
        veriftrace.sink = sink
        self._observe_toggles(sink)
        self._observe_orchestrator(sink)
        self._observe_observers(sink)
        self._observe_memories(sink)

    @staticmethod
    def _observe_orchestrator(sink: Callable[[str, dict[str, Any]], None]) -> None:
        """Observe (never alter) the orchestrator: every call of adjust_tasks is reported at its entry with the insights it reads (the
        watched resources, the served namespaces) and at its return (`orch.adjust`, `orch.rest`); the insights object is remembered
        so that a harness can read the final insights (Sim.insights_of)."""
        from kopf._core.reactor import orchestration
        if getattr(orchestration, '_verif_observed', False):
            orchestration._verif_sink = sink
            return
        orchestration._verif_observed = True
        orchestration._verif_sink = sink
        orchestration._verif_insights = {}
        orig = orchestration.adjust_tasks

        def snap(insights: Any) -> dict[str, Any]:
            rs = sorted(insights.watched_resources, key=lambda r: (r.plural, r.version, r.group))
            return {'res': [f'{r.plural}.{r.version}.{r.group}' for r in rs], 'cscoped': [f'{r.plural}.{r.version}.{r.group}' for r in rs if not r.namespaced],
                    'nss': sorted('*' if n is None else str(n) for n in insights.namespaces)}

        async def adjust_tasks(*a: Any, **kw: Any) -> Any:
            ins = kw['insights']
            try:
                name = getattr(asyncio.get_running_loop(), 'name', None)
            except RuntimeError:
                name = None
            orchestration._verif_insights[name] = (ins, snap)
            orchestration._verif_sink('orch.adjust', snap(ins))
            try:
                return await orig(*a, **kw)
            finally:
                orchestration._verif_sink('orch.rest', {})
        orchestration.adjust_tasks = adjust_tasks

    @staticmethod
    def _observe_memories(sink: Callable[[str, dict[str, Any]], None]) -> None:
        """Observe (never alter) inventory.ResourceMemories: every recall (uid, from a listing or not, the identity of the memory that was
        returned and of its parts, its noticed_by_listing flag) and every forget (`mem.recall`, `mem.forget`): events for Inventory.tla."""
        from kopf._core.reactor import inventory
        RM = inventory.ResourceMemories
        if getattr(RM, '_verif_observed', False):
            RM._verif_sink = sink
            return
        RM._verif_observed = True
        RM._verif_sink = sink
        RM._verif_alive = []           # the memories seen are kept alive: identities are not reused
        orig_recall, orig_forget = RM.recall, RM.forget

        async def recall(self: Any, raw_body: Any, *, memobase: Any = None, noticed_by_listing: bool = False, ephemeral: bool = False) -> Any:
            m = await orig_recall(self, raw_body, memobase=memobase, noticed_by_listing=noticed_by_listing, ephemeral=ephemeral)
            if not ephemeral:
                RM._verif_alive.append(m)
                RM._verif_sink('mem.recall', {'uid': (raw_body.get('metadata') or {}).get('uid') or '', 'listed': bool(noticed_by_listing), 'mem': id(m),
                                              'flag': bool(m.noticed_by_listing), 'n': len(self._items),
                                              'parts': [id(m.memo), id(m.error_throttler), id(m.indexing_memory), id(m.daemons_memory),
                                                        id(m.daemons_memory.running_daemons), id(m.daemons_memory.forever_stopped)]})
            return m

        async def forget(self: Any, raw_body: Any) -> None:
            RM._verif_sink('mem.forget', {'uid': (raw_body.get('metadata') or {}).get('uid') or ''})
            return await orig_forget(self, raw_body)
        RM.recall, RM.forget = recall, forget

    @staticmethod
    def _observe_observers(sink: Callable[[str, dict[str, Any]], None]) -> None:
        """Observe (never alter) the observers: every call of observation.revise_resources / revise_namespaces is reported with
        what it was given (the scanned resources, the selectors of the registry by purpose, the namespace events and patterns) and
        with the insights before and after it (`obs.res`, `obs.ns`): records for spec/Observation.tla."""
        from kopf._cogs.structs import references
        from kopf._core.reactor import observation
        if getattr(observation, '_verif_observed', False):
            observation._verif_sink = sink
            return
        observation._verif_observed = True
        observation._verif_sink = sink
        orig_res, orig_ns = observation.revise_resources, observation.revise_namespaces

        def res_rec(r: Any) -> dict[str, Any]:
            return {'group': r.group, 'version': r.version, 'plural': r.plural, 'kind': r.kind or '', 'singular': r.singular or '',
                    'shortcuts': sorted(r.shortcuts), 'categories': sorted(r.categories), 'preferred': bool(r.preferred),
                    'namespaced': bool(r.namespaced), 'verbs': sorted(r.verbs)}

        def sel_rec(sel: Any, src: Any) -> dict[str, Any]:
            nt, name = next(((k, getattr(sel, k)) for k in ('kind', 'plural', 'singular', 'shortcut', 'category') if getattr(sel, k) is not None), (None, None))
            fnres: list[list[str]] = []
            if nt is None and sel.fn is not None:
                nt, name = 'fn', 'callable'
                fnres = [[r.group, r.version, r.plural] for r in src if sel.fn(r)]
            elif nt is None:
                nt, name = ('everything', '*') if isinstance(sel.any_name, references.Marker) else ('any', sel.any_name)
            return {'group': 'any' if sel.group is None else sel.group, 'version': 'any' if sel.version is None else sel.version,
                    'nt': nt, 'name': name, 'fnres': fnres}

        def sels(selectors: Any, src: Any) -> list[dict[str, Any]]:
            out = [sel_rec(s_, src) for s_ in selectors]
            return sorted(out, key=lambda d: json.dumps(d, sort_keys=True))

        def snap(insights: Any) -> dict[str, Any]:
            key = lambda d: (d['group'], d['version'], d['plural'])
            return {k: sorted((res_rec(r) for r in getattr(insights, f'{k}_resources')), key=key) for k in ('webhook', 'indexed', 'watched')}

        def revise_resources(*, group: Any, insights: Any, registry: Any, resources: Any) -> None:
            before = snap(insights)
            src = list(resources)
            watched = (registry._indexing.get_all_selectors() | registry._watching.get_all_selectors() |
                       registry._spawning.get_all_selectors() | registry._changing.get_all_selectors())
            patched = registry._spawning.get_all_selectors() | registry._changing.get_all_selectors()
            try:
                return orig_res(group=group, insights=insights, registry=registry, resources=resources)
            finally:
                observation._verif_sink('obs.res', {'group': 'all' if group is None else group, 'src': sorted((res_rec(r) for r in src), key=lambda d: (d['group'], d['version'], d['plural'])),
                                                    'webhooks': sels(registry._webhooks.get_all_selectors(), src), 'indexeds': sels(registry._indexing.get_all_selectors(), src),
                                                    'watched': sels(watched, src), 'patched': sels(patched, src), 'before': before, 'after': snap(insights)})

        def parse(pattern: Any) -> list[dict[str, Any]] | None:
            if not isinstance(pattern, str):
                return None
            out = []
            for g in [x.strip() for x in pattern.split(',')]:
                neg = g.startswith('!'); g = g.lstrip('!')
                if g == '*': kind, text = 'all', ''
                elif g.endswith('*') and not any(ch in g[:-1] for ch in '*?['): kind, text = 'prefix', g[:-1]
                elif g.startswith('*') and not any(ch in g[1:] for ch in '*?['): kind, text = 'suffix', g[1:]
                elif not any(ch in g for ch in '*?['): kind, text = 'exact', g
                else: return None
                out.append({'neg': neg, 'kind': kind, 'text': [ord(c) for c in text]})
            return out

        def revise_namespaces(*, insights: Any, namespaces: Any, raw_events: Any = (), raw_bodies: Any = ()) -> None:
            before = sorted(str(n) for n in insights.namespaces if n is not None)
            evs = list(raw_events) + [{'type': None, 'object': o} for o in raw_bodies]
            try:
                return orig_ns(insights=insights, namespaces=namespaces, raw_events=raw_events, raw_bodies=raw_bodies)
            finally:
                pats = [parse(p) for p in namespaces]
                if all(p is not None for p in pats) and None not in insights.namespaces:
                    conds = lambda o: (o.get('status') or {}).get('conditions') or []
                    observation._verif_sink('obs.ns', {
                        'patterns': pats, 'before': before, 'after': sorted(str(n) for n in insights.namespaces if n is not None),
                        'events': [{'name': e['object']['metadata']['name'], 'codes': [ord(c) for c in e['object']['metadata']['name']],
                                    'type': e['type'] or 'NONE', 'marked': bool(e['object']['metadata'].get('deletionTimestamp')),
                                    'hasconds': bool(conds(e['object'])), 'blocked': any(c.get('status') == 'True' for c in conds(e['object']))} for e in evs]})
        observation.revise_resources = revise_resources
        observation.revise_namespaces = revise_namespaces

    @staticmethod
    def insights_of(loop_name: str) -> dict[str, Any] | None:
        from kopf._core.reactor import orchestration
        got = getattr(orchestration, '_verif_insights', {}).get(loop_name)
        return None if got is None else got[1](got[0])

    @staticmethod
    def _observe_toggles(sink: Callable[[str, dict[str, Any]], None]) -> None:
        """Observe (never alter) the effective state of the `any`-toggle-sets (operator_paused): kopf's classes are wrapped from
        outside, the original coroutine runs first, then the state of the set is reported if it has changed (`tog.paused`)."""
        from kopf._cogs.aiokits import aiotoggles
        TS, TG = aiotoggles.ToggleSet, aiotoggles.Toggle
        if getattr(TS, '_verif_observed', False):
            TS._verif_sink = sink
            return
        TS._verif_observed = True
        TS._verif_sink = sink
        sets: dict[int, Any] = {}          # id(condition) -> the set (kept alive by the operator)

        def report(ts: Any) -> None:
            if ts._fn is not any:
                return
            on = ts.is_on()
            if getattr(ts, '_verif_last', False) != on:
                ts._verif_last = on
                TS._verif_sink('tog.paused', {'on': on, 'names': sorted(str(t.name) for t in ts._toggles if t.is_on())})
        orig_make, orig_drop, orig_drops, orig_turn = TS.make_toggle, TS.drop_toggle, TS.drop_toggles, TG.turn_to

        async def make_toggle(self: Any, *a: Any, **kw: Any) -> Any:
            sets[id(self._condition)] = self
            r = await orig_make(self, *a, **kw); report(self); return r

        async def drop_toggle(self: Any, *a: Any, **kw: Any) -> Any:
            r = await orig_drop(self, *a, **kw); report(self); return r

        async def drop_toggles(self: Any, *a: Any, **kw: Any) -> Any:
            r = await orig_drops(self, *a, **kw); report(self); return r

        async def turn_to(self: Any, *a: Any, **kw: Any) -> Any:
            r = await orig_turn(self, *a, **kw)
            ts = sets.get(id(self._condition))
            if ts is not None:
                report(ts)
            return r
        TS.make_toggle, TS.drop_toggle, TS.drop_toggles, TG.turn_to = make_toggle, drop_toggle, drop_toggles, turn_to

    def next_gen(self) -> int:
        self._gen += 1
        if self.srv.valid_gens is not None:
            self.srv.valid_gens.add(self._gen)
        return self._gen

    @property
    def now(self) -> float:
        return self.world.now

    # ---- building blocks
    def settings(self, **tune: Any) -> Any:
        import kopf
        s = kopf.OperatorSettings()
        s.posting.enabled = False
        s.process.ultimate_exiting_timeout = None
        s.watching.inactivity_timeout = 10_000_000
        s.networking.request_timeout = None
        s.execution.executor = vthreads.VExecutor()       # synchronous handlers: threads in lock-step with the virtual loop
        vthreads.install()
        for path, val in tune.items():
            obj = s
            parts = path.split('__')
            for p in parts[:-1]:
                obj = getattr(obj, p)
            setattr(obj, parts[-1], val)
        return s

    def registry(self) -> Any:
        import kopf
        return kopf.OperatorRegistry()

    def operator(self, name: str, registry: Any, settings: Any = None, **kw: Any) -> Operator:
        op = Operator(self, name, registry, settings if settings is not None else self.settings(), **kw)
        self.ops.append(op)
        return op.start()

    def run(self, until: float, **kw: Any) -> None:
        self.world.run_until(until, **kw)

    def run_for(self, d: float, **kw: Any) -> None:
        self.world.run_until(self.world.now + d, **kw)

    def close(self) -> None:
        for op in self.ops:
            if op.loop is not None and op.loop in self.world.loops:
                try:
                    if not op.done:
                        op.kill()
                    else:
                        self.world.drop_loop(op.loop)
                except Exception:
                    pass
            try:
                op._drop_threads()
            except Exception:
                pass

    # ---- objects
    def create(self, name: str, spec: dict[str, Any] | None = None, labels: dict[str, str] | None = None,
               res: ResDef | None = None, ns: str | None = 'ns', **extra: Any) -> dict[str, Any]:
        body: dict[str, Any] = {'spec': dict(spec or {})}
        if labels:
            body['metadata'] = {'labels': dict(labels)}
        body.update(extra)
        return self.srv.create(res or self.things, ns, name, body)

    def edit(self, name: str, fn: Callable[[dict[str, Any]], None], res: ResDef | None = None, ns: str | None = 'ns',
             actor: str = 'user') -> dict[str, Any]:
        return self.srv.edit(res or self.things, ns, name, fn, actor=actor)

    def set_spec(self, name: str, **kv: Any) -> dict[str, Any]:
        return self.edit(name, lambda o: o.setdefault('spec', {}).update(kv))

    def delete(self, name: str, res: ResDef | None = None, ns: str | None = 'ns') -> None:
        self.srv.delete(res or self.things, ns, name)

    def obj(self, name: str, res: ResDef | None = None, ns: str | None = 'ns') -> dict[str, Any] | None:
        return self.srv.get(res or self.things, ns, name)

    # ---- scripted handlers
    def handler(self, hid: str, script: list[Any] | None = None, *, kind: str = 'change', duration: float = 0,
                default: Any = 'ok', extra: Callable[..., Any] | None = None, sync: bool = False) -> Callable[..., Any]:
        """A recording coroutine handler with a per-invocation outcome script.

        Outcomes: 'ok' | ('ok', result) | ('temp', delay) | 'perm' | 'exc' | ('sleep', d, outcome).
        With sync=True it is a plain function: kopf runs it in a thread of the executor (a virtual thread here).
        """
        import kopf
        outcomes = list(script or [])
        sim = self
        if sync:
            return self._sync_handler(hid, outcomes, kind, duration, default, extra)

        async def fn(**kw: Any) -> Any:
            loop = asyncio.get_running_loop()
            lname = getattr(loop, 'name', None)
            out = outcomes.pop(0) if outcomes else default
            body = kw.get('body')
            md = (body or {}).get('metadata', {}) if body is not None else {}
            info = dict(loop=lname, id=hid, kind=kind, uid=md.get('uid'), name=md.get('name'),
                        reason=str(kw['reason'].value) if kw.get('reason') is not None and hasattr(kw['reason'], 'value') else kw.get('reason'),
                        retry=kw.get('retry'), rv=_int(md.get('resourceVersion')),
                        deleting=md.get('deletionTimestamp') is not None,
                        fins=list(md.get('finalizers', []) or []),
                        spec=dict(body.get('spec', {})) if body is not None else None,
                        diff_empty=(not kw['diff']) if 'diff' in kw and kw['diff'] is not None else None,
                        type=kw.get('type') if kind == 'event' else None,
                        script=out if isinstance(out, str) else list(out))
            sim.rec('h.enter', **info)
            result = None
            outcome = 'ok'
            try:
                if extra is not None:
                    r = extra(**kw)
                    if asyncio.iscoroutine(r):
                        await r
                o = out
                if isinstance(o, tuple) and o[0] == 'sleep':
                    await asyncio.sleep(o[1]); o = o[2] if len(o) > 2 else 'ok'
                elif duration:
                    await asyncio.sleep(duration)
                if o == 'ok':
                    return None
                if isinstance(o, tuple) and o[0] == 'ok':
                    result = o[1]; return result
                if isinstance(o, tuple) and o[0] == 'temp':
                    outcome = 'temp'; raise kopf.TemporaryError('scripted', delay=o[1])
                if o == 'perm':
                    outcome = 'perm'; raise kopf.PermanentError('scripted')
                if o == 'exc':
                    outcome = 'exc'; raise ValueError('scripted arbitrary error')
                raise AssertionError(f'bad script item {o!r}')
            except asyncio.CancelledError:
                outcome = 'cancelled'; raise
            finally:
                sim.rec('h.exit', loop=lname, id=hid, kind=kind, uid=md.get('uid'), outcome=outcome)
        fn.__name__ = fn.__qualname__ = hid.replace('/', '_')
        return fn


def _sync_handler(self: Sim, hid: str, outcomes: list[Any], kind: str, duration: float, default: Any,
                  extra: Callable[..., Any] | None) -> Callable[..., Any]:
    import kopf
    sim = self

    def fn(**kw: Any) -> Any:
        lname = vthreads.current_loop_name()
        out = outcomes.pop(0) if outcomes else default
        body = kw.get('body')
        md = (body or {}).get('metadata', {}) if body is not None else {}
        info = dict(loop=lname, id=hid, kind=kind, uid=md.get('uid'), name=md.get('name'),
                    reason=str(kw['reason'].value) if kw.get('reason') is not None and hasattr(kw['reason'], 'value') else kw.get('reason'),
                    retry=kw.get('retry'), rv=_int(md.get('resourceVersion')),
                    deleting=md.get('deletionTimestamp') is not None,
                    fins=list(md.get('finalizers', []) or []),
                    spec=dict(body.get('spec', {})) if body is not None else None,
                    diff_empty=(not kw['diff']) if 'diff' in kw and kw['diff'] is not None else None,
                    type=kw.get('type') if kind == 'event' else None,
                    script=out if isinstance(out, str) else list(out), sync=True)
        sim.rec('h.enter', **info)
        result = None
        outcome = 'ok'
        try:
            if extra is not None:
                extra(**kw)
            o = out
            if isinstance(o, tuple) and o[0] == 'sleep':
                vthreads.sleep(o[1]); o = o[2] if len(o) > 2 else 'ok'
            elif duration:
                vthreads.sleep(duration)
            if o == 'ok':
                return None
            if isinstance(o, tuple) and o[0] == 'ok':
                result = o[1]; return result
            if isinstance(o, tuple) and o[0] == 'temp':
                outcome = 'temp'; raise kopf.TemporaryError('scripted', delay=o[1])
            if o == 'perm':
                outcome = 'perm'; raise kopf.PermanentError('scripted')
            if o == 'exc':
                outcome = 'exc'; raise ValueError('scripted arbitrary error')
            raise AssertionError(f'bad script item {o!r}')
        except vthreads.Killed:
            outcome = 'killed'; raise
        finally:
            sim.rec('h.exit', loop=lname, id=hid, kind=kind, uid=md.get('uid'), outcome=outcome)
    fn.__name__ = fn.__qualname__ = hid.replace('/', '_')
    return fn


Sim._sync_handler = _sync_handler      # type: ignore[attr-defined]


def _int(x: Any) -> int | None:
    try:
        return int(x)
    except (TypeError, ValueError):
        return None


__all__ = ['Sim', 'Operator', 'Recorder', 'Plan', 'Stall', 'GROUP', 'VERSION', 'PLURAL']
