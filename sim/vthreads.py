"""Threads in virtual time: synchronous (threaded) handlers and daemons, deterministically.

kopf runs `def` handlers through `loop.run_in_executor(settings.execution.executor, ...)` and tells synchronous daemons to
stop through a `threading.Event` (`stopped.wait(n)`). Real threads and real waits would make the schedule a matter of luck;
here they are real threads that run in LOCK-STEP with the virtual loop:

* exactly one thread runs at any moment: the loop's thread hands a baton to a worker thread and blocks until the worker
  parks (in a virtual wait) or finishes. From the loop's point of view a stretch of thread code is instantaneous;
* a worker parks in `VEvent.wait(timeout)` (the stop flag of a daemon) or in `sleep(d)`; a parked worker is resumed by a
  callback of the loop: the timer of its timeout (virtual time) or a `call_soon` queued by `VEvent.set()`;
* the start of a submitted function is a `call_soon` of the loop, too: as with a real pool, the submitting coroutine goes
  on first, the thread starts "a moment later" (the same virtual instant).

`VExecutor` goes into `settings.execution.executor`; `install()` makes kopf's stop flags (`aioenums.FlagSetter`) use
`VEvent`. Nothing of kopf is changed: `invocation.invoke()` shields and awaits the very same wrapped futures.
"""
from __future__ import annotations

import asyncio
import concurrent.futures
import threading
import types
from typing import Any, Callable

_BY_IDENT: dict[int, '_VT'] = {}


class Killed(BaseException):
    """Raised inside a parked worker thread when its operator process is killed or the simulation ends."""


class _VT:
    def __init__(self, pool: 'VExecutor', loop: Any) -> None:
        self.pool = pool; self.loop = loop
        self.go = threading.Semaphore(0)
        self.gen = 0                # generation of the current park: stale resumptions are ignored
        self.parked = False
        self.done = False
        self.killed = False
        self.timer: Any = None
        self.thread: threading.Thread | None = None


def current() -> _VT | None:
    return _BY_IDENT.get(threading.get_ident())


def current_loop_name() -> str | None:
    vt = current()
    return getattr(vt.loop, 'name', None) if vt is not None else None


class VExecutor(concurrent.futures.Executor):
    def __init__(self) -> None:
        self.back = threading.Semaphore(0)
        self.threads: list[_VT] = []
        self.started = 0
        self._max_workers = 1000     # kopf's settings.execution.max_workers setter pokes at this attribute

    # ---- the loop's side
    def submit(self, fn: Callable[..., Any], /, *args: Any, **kwargs: Any) -> concurrent.futures.Future:
        loop = asyncio.get_running_loop()
        f: concurrent.futures.Future = concurrent.futures.Future()
        vt = _VT(self, loop)

        def body() -> None:
            _BY_IDENT[threading.get_ident()] = vt
            vt.go.acquire()
            try:
                if vt.killed or not f.set_running_or_notify_cancel():
                    return
                try:
                    r = fn(*args, **kwargs)
                except Killed:
                    f.set_exception(concurrent.futures.CancelledError())     # lets the awaiting coroutine unwind before its loop is dropped
                except BaseException as e:
                    f.set_exception(e)
                else:
                    f.set_result(r)
            finally:
                vt.done = True
                _BY_IDENT.pop(threading.get_ident(), None)
                self.back.release()

        vt.thread = threading.Thread(target=body, daemon=True, name=f'vthread-{len(self.threads)}')
        self.threads.append(vt)
        vt.thread.start()
        vt.parked = True
        loop.call_soon(self._resume, vt, vt.gen)
        return f

    def _resume(self, vt: _VT, gen: int) -> None:
        """Runs in the loop's thread: hand the baton over and wait till the worker parks again or ends."""
        if vt.done or not vt.parked or vt.gen != gen:
            return
        if vt.timer is not None:
            vt.timer.cancel(); vt.timer = None
        vt.parked = False
        self.started += 1
        vt.go.release()
        self.back.acquire()

    def kill_all(self) -> None:
        """The process is gone: its threads go with it (they are released with `Killed` raised inside)."""
        for vt in self.threads:
            if not vt.done:
                vt.killed = True
                if vt.timer is not None:
                    vt.timer.cancel(); vt.timer = None
                vt.parked = False
                vt.go.release()
                self.back.acquire()
        self.threads.clear()

    def shutdown(self, wait: bool = True, *, cancel_futures: bool = False) -> None:
        self.kill_all()

    def alive(self) -> int:
        return sum(1 for vt in self.threads if not vt.done)

    # ---- the worker's side
    @staticmethod
    def _park(vt: _VT, timeout: float | None) -> None:
        vt.gen += 1
        if timeout is not None:
            vt.timer = vt.loop.call_later(max(0.0, timeout), vt.pool._resume, vt, vt.gen)   # the loop's thread is blocked: no race
        vt.parked = True
        vt.pool.back.release()
        vt.go.acquire()
        if vt.killed:
            raise Killed()


def sleep(d: float) -> None:
    """`time.sleep()` for handler code that runs in a virtual thread."""
    vt = current()
    if vt is None:
        raise RuntimeError('vthreads.sleep() outside of a virtual thread')
    VExecutor._park(vt, d)


class VEvent(threading.Event):
    """`threading.Event` whose `wait()` parks a virtual thread instead of blocking in real time."""

    def __init__(self) -> None:
        super().__init__()
        self._vwaiters: list[_VT] = []

    def set(self) -> None:
        super().set()
        for vt in list(self._vwaiters):
            vt.loop.call_soon(vt.pool._resume, vt, vt.gen)      # the caller holds the baton (loop or worker): no race

    def wait(self, timeout: float | None = None) -> bool:
        vt = current()
        if vt is None:
            return super().wait(timeout)
        if self.is_set():
            return True
        self._vwaiters.append(vt)
        try:
            VExecutor._park(vt, timeout)
        finally:
            self._vwaiters.remove(vt)
        return self.is_set()


def install() -> None:
    """Make kopf's flag setters (the daemons' stoppers) create virtual events. Idempotent."""
    from kopf._cogs.aiokits import aioenums
    if getattr(aioenums.threading, '_verif_virtual', False):
        return
    shim = types.ModuleType('threading')
    shim.__dict__.update({k: v for k, v in vars(threading).items() if not k.startswith('__')})
    shim.Event = VEvent                 # type: ignore[attr-defined]
    shim._verif_virtual = True          # type: ignore[attr-defined]
    aioenums.threading = shim           # type: ignore[attr-defined]
