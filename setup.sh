#!/bin/sh
# Offline setup: nothing to download or compile. Verifies that the tools the checks need are present
# and that every TLA+ module of the library parses (SANY).
set -e
cd "$(dirname "$0")"
test -x /venv/bin/python
test -f /opt/veriftools/tla/tla2tools.jar
/venv/bin/python -c "import kopf, aiohttp, jsonpatch, hypothesis"
mkdir -p evidence
/venv/bin/python -m vf.sanyall
echo "setup ok"
