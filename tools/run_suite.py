#!/venv/bin/python
"""Run kopf's test-suite in a worktree and compare with the pinned baseline.
usage: run_suite.py <worktree> [pytest args…]   (prints REGRESSIONS: n and the ids)"""
import json, os, subprocess, sys, tempfile, xml.etree.ElementTree as ET
wt = os.path.abspath(sys.argv[1]); extra = sys.argv[2:]
base = json.load(open('/root/.vp/BASELINE.json'))
stable = set(base['stable_pass'])
fd, junit = tempfile.mkstemp(suffix='.xml'); os.close(fd)
env = dict(os.environ, PYTHONPATH=wt); env.pop('KOPF_VERIF_TRACE', None)
cmd = ['/venv/bin/python', '-m', 'pytest', '-ra', '-q', '-p', 'no:cacheprovider', '--timeout=900',
       '--continue-on-collection-errors', f'--junitxml={junit}', *extra]
p = subprocess.run(cmd, cwd=wt, env=env, stdout=subprocess.PIPE, stderr=subprocess.STDOUT, text=True)
print(p.stdout[-1500:])
passed = set(); seen = set()
for tc in ET.parse(junit).getroot().iter('testcase'):
    tid = f"{tc.get('classname')}::{tc.get('name')}"; seen.add(tid)
    if not any(ch.tag in ('failure', 'error', 'skipped') for ch in tc):
        passed.add(tid)
os.unlink(junit)
scope = stable if not extra else {t for t in stable if t in seen}
reg = sorted(scope - passed)
print(f'baseline stable-pass in scope: {len(scope)}; passed now: {len(scope & passed)}')
print(f'REGRESSIONS: {len(reg)}')
for t in reg[:40]: print('  ', t)
sys.exit(1 if reg else 0)
