#!/bin/sh
# usage: tools/seedrun.sh <patch> <pid> [<pid>…]   -- run quick checks against a scratch copy with the patch applied
patch="$(readlink -f "$1")"; shift
d="$(mktemp -d /tmp/vf-mut-XXXXXX)"; trap 'rm -rf "$d"' EXIT
mkdir -p "$d/repo"; rsync -a --exclude __pycache__ /repo/kopf "$d/repo/"
(cd "$d/repo" && patch -p1 -s --fuzz=3 < "$patch") || { echo "PATCH-FAILED $patch"; exit 3; }
cd /verif
for pid in "$@"; do
  ./check "$pid" --repo "$d/repo" --tier quick > "$d/out.$pid" 2>&1; rc=$?
  echo "$(basename $(dirname $patch))/$(basename $(dirname $(dirname $(dirname $patch)))) $pid -> exit $rc : $(grep -c '^VIOLATION' "$d/out.$pid") violations; $(grep -m1 'what:' "$d/out.$pid" | cut -c1-220)"
  [ $rc -eq 2 ] && tail -5 "$d/out.$pid"
done
