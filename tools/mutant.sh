#!/bin/sh
# usage: tools/mutant.sh <patch-file> <property-id> [check args…]
# Applies a patch to a scratch copy of /repo's kopf package (outside /repo and /verif), runs the
# check against it with --repo, removes the copy. Exit code is the check's.
set -e
patch="$(readlink -f "$1")"; pid="$2"; shift 2
d="$(mktemp -d /tmp/vf-mut-XXXXXX)"
trap 'rm -rf "$d"' EXIT
mkdir -p "$d/repo"
rsync -a --exclude __pycache__ /repo/kopf "$d/repo/"
(cd "$d/repo" && patch -p1 -s < "$patch")
cd /verif
set +e
./check "$pid" --repo "$d/repo" "$@"
rc=$?
echo "mutant $(basename "$patch") on $pid -> exit $rc"
exit $rc
