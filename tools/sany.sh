#!/bin/sh
cd /verif/spec && java -DTLA-Library=/verif/spec -cp /opt/veriftools/tla/tla2tools.jar:/opt/veriftools/tla/CommunityModules-deps.jar tla2sany.SANY "$1" 2>&1 | grep -B1 -A7 -i "^\*\*\* Errors\|Was expecting\|Encountered\|Lexical" | head -${2:-30}
