#!/bin/sh
# usage: tools/confirm_seed2.sh <Cxx> <variant>   -- like confirm_seed.sh, for round-2 seeds made against the current HEAD of /repo
pid="$1"; v="$2"
base="${SEEDBASE:-/tmp/seed2}"
src="$base/$pid/out/$v"
wt="/tmp/seedconfirm/$pid-$v"
rm -rf "$wt"; mkdir -p /tmp/seedconfirm
git -C /repo worktree add -q --detach "$wt" HEAD || exit 2
cp /repo/kopf/_cogs/helpers/versions.py "$wt/kopf/_cogs/helpers/versions.py"
demo0="$(ls "$src"/demo_*.py | head -1)"
demo="/tmp/seedconfirm/$(basename "$demo0" .py)_$pid.py"      # demos may assert the path of the agent's own worktree
sed "s#$base/$pid/wt#$wt#g" "$demo0" > "$demo"
run_demo() { (cd "$wt" && PYTHONPATH="$wt" timeout 900 /venv/bin/python "$demo" >"$1" 2>&1; echo $?); }
(cd "$wt" && git apply "$src/patch.diff") || { echo "patch does not apply"; git -C /repo worktree remove --force "$wt"; exit 2; }
rc_with=$(run_demo "$src/confirm_demo_with.log")
/verif/tools/run_suite.py "$wt" > "$src/confirm_suite.log" 2>&1
reg=$(grep -o 'REGRESSIONS: [0-9]*' "$src/confirm_suite.log" | tail -1)
(cd "$wt" && git apply -R "$src/patch.diff")
rc_without=$(run_demo "$src/confirm_demo_without.log")
printf '{"property": "%s", "variant": "%s", "demo": "%s", "demo_rc_with_patch": %s, "demo_rc_without_patch": %s, "suite": "%s", "base": "HEAD of /repo (hooks and fixes included)"}\n' \
  "$pid" "$v" "$(basename "$demo0")" "$rc_with" "$rc_without" "$reg" > "$src/confirm.json"
cat "$src/confirm.json"
git -C /repo worktree remove --force "$wt"; rm -f "$demo"
