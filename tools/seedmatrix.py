#!/venv/bin/python
"""Run every seeded change (seeded/<Cxx-a|b>/patch.diff) against the quick check of its own property and, if that misses it,
against the other checks named in ALT; writes seeded/<id>/meta.json and prints the table for DESIGN.md."""
import json, os, subprocess, sys, tempfile, shutil
ROOT = os.path.dirname(os.path.dirname(os.path.abspath(__file__)))
ALT = {'C04-a': ['C05'], 'C06-a': ['C09'], 'C06-b': ['C08'], 'C09-b': ['C13'], 'C03-a': ['C08'], 'C03-b': ['C01'], 'C15-b': ['C14'], 'C09-a': []}
ALT.update({'C03-e': ['C06']})

def run(patch, pid):
    d = tempfile.mkdtemp(prefix='vf-mut-', dir='/tmp')
    try:
        os.makedirs(d + '/repo'); subprocess.run(['rsync', '-a', '--exclude', '__pycache__', '/repo/kopf', d + '/repo/'], check=True)
        p = subprocess.run(['patch', '-p1', '-s', '--fuzz=3', '-i', patch], cwd=d + '/repo', capture_output=True, text=True)
        if p.returncode != 0:
            return {'check': pid, 'applied': False, 'exit': None, 'violations': 0, 'first': p.stdout[-200:]}
        r = subprocess.run(['./check', pid, '--repo', d + '/repo', '--tier', 'quick'], cwd=ROOT, capture_output=True, text=True)
        what = [l.strip() for l in r.stdout.splitlines() if l.strip().startswith('what:')]
        return {'check': pid, 'applied': True, 'exit': r.returncode, 'violations': r.stdout.count('\nVIOLATION'), 'first': (what[0][:200] if what else '')}
    finally:
        shutil.rmtree(d, ignore_errors=True)

only = sys.argv[1:]
rows = []
for sid in sorted(os.listdir(ROOT + '/seeded')):
    if only and sid not in only: continue
    sd = f'{ROOT}/seeded/{sid}'
    if not os.path.exists(sd + '/patch.diff'): continue
    pid = sid.split('-')[0]
    am = json.load(open(sd + '/agent_meta.json'))
    conf = json.load(open(sd + '/confirm.json')) if os.path.exists(sd + '/confirm.json') else {}
    results = [run(sd + '/patch.diff', pid)]
    if not (results[0]['exit'] == 1):
        for alt in ALT.get(sid, []):
            results.append(run(sd + '/patch.diff', alt))
    caught = [r['check'] for r in results if r['exit'] == 1]
    meta = {'property': pid, 'seed': sid, 'summary': am.get('summary'), 'needs_to_manifest': am.get('needs_to_manifest'),
            'files_changed': am.get('files_changed'), 'demo': conf.get('demo') or am.get('demo_cmd'),
            'confirmed': {'demo_rc_with_patch': conf.get('demo_rc_with_patch'), 'demo_rc_without_patch': conf.get('demo_rc_without_patch'),
                          'suite': conf.get('suite'),
                          'how': ('tools/confirm_seed2.sh: fresh worktree of the HEAD of /repo (hooks and fixes included), demo with and without the patch, full suite with the patch'
                                  if conf.get('base') else
                                  'tools/confirm_seed.sh: fresh worktree of the pinned commit, demo with and without the patch, full suite with the patch')},
            'ran': [f'./check {r["check"]} --repo <scratch copy of /repo/kopf with patch.diff applied> --tier quick -> exit {r["exit"]}, '
                    f'{r["violations"]} violation(s){"; " + r["first"] if r["first"] else ""}' for r in results],
            'caught_by': caught}
    json.dump(meta, open(sd + '/meta.json', 'w'), indent=1)
    rows.append((sid, caught, results))
    print(sid, 'caught by', caught or 'NOTHING', '|', results[-1]['first'][:100] if caught else '', flush=True)
old = {r['seed']: r for r in json.load(open(ROOT + '/seeded/MATRIX.json'))} if os.path.exists(ROOT + '/seeded/MATRIX.json') else {}
old.update({s: {'seed': s, 'caught_by': c} for s, c, _ in rows})
json.dump([old[k] for k in sorted(old)], open(ROOT + '/seeded/MATRIX.json', 'w'), indent=1)
