#!/bin/sh
# usage: tools/confirm_seed.sh <Cxx> <a|b>
# Independently confirms a seeded change produced by a sub-agent: in a fresh scratch worktree of the pinned
# commit the demo must fail with the patch and pass without it, and kopf's full suite must show no regression
# against the pinned baseline. Writes /tmp/seed/<Cxx>/out/<v>/confirm.json and removes the worktree.
pid="$1"; v="$2"
src="/tmp/seed/$pid/out/$v"
wt="/tmp/seedconfirm/$pid-$v"
rm -rf "$wt"; mkdir -p /tmp/seedconfirm
git -C /repo worktree add -q --detach "$wt" b92edf0 || exit 2
cp /repo/kopf/_cogs/helpers/versions.py "$wt/kopf/_cogs/helpers/versions.py"
demo="$(ls "$src"/demo_*.py | head -1)"
run_demo() { (cd "$wt" && PYTHONPATH="$wt" timeout 600 /venv/bin/python "$demo" >"$1" 2>&1; echo $?); }
(cd "$wt" && git apply "$src/patch.diff") || { echo "patch does not apply"; git -C /repo worktree remove --force "$wt"; exit 2; }
rc_with=$(run_demo "$src/confirm_demo_with.log")
/verif/tools/run_suite.py "$wt" > "$src/confirm_suite.log" 2>&1
reg=$(grep -o 'REGRESSIONS: [0-9]*' "$src/confirm_suite.log" | tail -1)
(cd "$wt" && git apply -R "$src/patch.diff")
rc_without=$(run_demo "$src/confirm_demo_without.log")
printf '{"property": "%s", "variant": "%s", "demo": "%s", "demo_rc_with_patch": %s, "demo_rc_without_patch": %s, "suite": "%s"}\n' \
  "$pid" "$v" "$(basename "$demo")" "$rc_with" "$rc_without" "$reg" > "$src/confirm.json"
cat "$src/confirm.json"
git -C /repo worktree remove --force "$wt"
