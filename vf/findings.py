"""known_findings.json: genuine defects of nolar/kopf that are recorded rather than repaired.

The file is committed and never written at run time. An `open` entry names a *family*: a
narrow predicate defined in the TLA+ module of the property (an operator `Family_<id>` or a
label produced by the module's `Classify` operator). A violating case that the specification
attributes to an open family is printed as KNOWN-FINDING; any other violating case is a
VIOLATION. A `fixed` entry suppresses nothing.
"""
from __future__ import annotations

import json
import os
from typing import Any

from vf import ROOT

PATH = os.path.join(ROOT, 'known_findings.json')
_cache: dict[str, Any] | None = None


def load() -> dict[str, Any]:
    global _cache
    if _cache is None:
        with open(PATH) as f:
            _cache = json.load(f)
    return _cache


def lookup(pid: str, family: str) -> dict[str, Any] | None:
    for ent in load()['findings']:
        if ent['status'] == 'open' and ent['family'] == family and pid in ent['properties']:
            return ent
    return None


def open_families(pid: str) -> list[str]:
    return [e['family'] for e in load()['findings'] if e['status'] == 'open' and pid in e['properties']]
