"""Multi-operator harness for C13: 1-3 real operators share a ClusterKopfPeering object in the fake API, in virtual time.

The recorder log is converted into the events of spec/Trace_Peering.tla and judged by TLC.
"""
from __future__ import annotations

import datetime
import json
import os
import random
import re
import shutil
import tempfile
from typing import Any

from vf import tlc
from vf.evidence import MachineryFailure

OPS = ['a', 'b', 'c']
EXT = ['x', 'y']
IDS = OPS + EXT
PEER = 'clusterkopfpeerings'
NOREC = {'prio': 0, 'ttl': -1, 'fl': 0}


class _Jitter:
    """Stand-in for the `random` module inside kopf's peering engine: the keep-alive jitter is part of the scenario."""

    def __init__(self, by_loop: dict[str, int]) -> None:
        self.by_loop = by_loop

    def randint(self, a: int, b: int) -> int:
        import asyncio
        return self.by_loop.get(getattr(asyncio.get_running_loop(), 'name', ''), a)

    def choices(self, *a: Any, **k: Any) -> Any:
        return random.choices(*a, **k)


def period_of(life: int, jit: int) -> int:
    return max(1, min(life, max(1, life - jit)))


def run_scenario(sc: dict[str, Any]) -> dict[str, Any]:
    import kopf
    from kopf._core.engines import peering as kpeering
    from sim.clock import EPOCH
    from sim.fakek8s import ResDef
    from sim.opsim import GROUP, PLURAL, VERSION, Sim, Stall
    sim = Sim(wall_budget=30)
    sim.world.max_steps = 600_000
    saved_random = kpeering.random
    kpeering.random = _Jitter({o: sc['jit'][o] for o in sc['ops']})
    try:
        sim.srv.rv = sc.get('rv0', 0)          # (histories that begin just below 100 / 1000: the decimal width of the version grows in mid-stream)
        pres = sim.srv.add_resource(ResDef('kopf.dev', 'v1', PEER, 'ClusterKopfPeering', namespaced=False))
        sim.srv.keep_bodies.add(PEER)
        sim.srv.create(pres, None, 'default', {})
        sim.srv.projector = lambda res, o: (dict(o.get('status') or {}) if res.plural == PEER else None)
        ops: dict[str, Any] = {}
        lag = sc.get('lag', {}); plag = sc.get('plag', {})
        if lag or plag:     # these operators are far away: their PATCHes travel lag seconds, their listings are answered 2 x lag seconds late
            from sim.fakek8s import Plan

            def policy(req: Any) -> Any:
                L = lag.get(req.session.owner, 0); PL = plag.get(req.session.owner, 0)
                if not (L or PL) or req.route.get('plural') != PEER: return None
                if req.route.get('kind') == 'list' and L: return Plan(post=2 * L)
                if req.route.get('kind') == 'patch': return Plan(pre=L, post=PL)      # plag: applied by the server, the response is late
                return None
            sim.srv.policy = policy

        def make(o: str) -> None:
            if o in ops and not ops[o].done and not ops[o].killed:
                return
            reg = sim.registry()
            kopf.on.create(GROUP, VERSION, PLURAL, registry=reg, id='a')(sim.handler('a', duration=sc.get('hdur', 0)))
            kopf.on.update(GROUP, VERSION, PLURAL, registry=reg, id='a')(sim.handler('a', duration=sc.get('hdur', 0)))
            if sc.get('daemon'):
                async def d(stopped, name, **_):
                    import asyncio
                    sim.rec('d.start', loop=o, name=name)
                    try:
                        if sc.get('dmode') == 'cancel':
                            await asyncio.Event().wait()         # leaves only when cancelled
                        else:
                            await stopped.wait()
                    finally:
                        sim.rec('d.exit', loop=o, name=name)
                if sc.get('dmode') == 'syncbusy':
                    # a synchronous (threaded) daemon that sits in a blocking call for `dbusy` seconds after it was told to stop:
                    # a thread cannot be cancelled, the framework must wait for it (and must not start a second one meanwhile)
                    from sim import vthreads

                    def d(stopped, name, **_):             # noqa: F811
                        sim.rec('d.start', loop=o, name=name)
                        try:
                            stopped.wait()
                            vthreads.sleep(sc.get('dbusy', 10))
                        finally:
                            sim.rec('d.exit', loop=o, name=name)
                kopf.daemon(GROUP, VERSION, PLURAL, registry=reg, id='d', cancellation_backoff=1, cancellation_timeout=1)(d)
            st = sim.settings(peering__lifetime=sc['life'][o], watching__reconnect_backoff=1)
            ops[o] = sim.operator(o, reg, st, peering_name='default', priority=sc['prio'][o], identity=o, clusterwide=True)

        def iso(t: float) -> str:
            return (EPOCH + datetime.timedelta(seconds=t)).isoformat()

        def ext(i: str, kind: str, prio: int, life: int) -> None:
            now = sim.now
            rec: dict[str, Any] | None
            if kind == 'live': rec = {'priority': prio, 'lifetime': life, 'lastseen': iso(now)}
            elif kind == 'dead': rec = {'priority': prio, 'lifetime': life, 'lastseen': iso(now - life - 5)}
            elif kind == 'nolife': rec = {'priority': prio, 'lastseen': iso(now - 55)}       # lifetime defaults to 60: 5 s left
            elif kind == 'noseen': rec = {'priority': prio, 'lifetime': life}
            elif kind == 'extra': rec = {'priority': prio, 'lifetime': life, 'lastseen': iso(now), 'namespace': 'ns', 'future-field': {'x': 1}}
            else: rec = None

            def fn(o_: dict[str, Any]) -> None:
                s = o_.setdefault('status', {})
                if rec is None: s.pop(i, None)
                else: s[i] = rec
                if not s: o_.pop('status', None)
            body = sim.srv.edit(pres, None, 'default', fn, actor='ext')
            sim.rec('env.ext', status=dict(body.get('status') or {}), rv=int(body['metadata']['resourceVersion']))
        x = {'n': 0}

        def do(opn: str, *a: Any) -> None:
            if opn == 'start':
                make(a[0])
            elif opn == 'stop' and a[0] in ops and not ops[a[0]].done and not ops[a[0]].killed and not ops[a[0]].stop_flag.is_set():
                ops[a[0]].stop()
            elif opn == 'kill' and a[0] in ops and not ops[a[0]].done and not ops[a[0]].killed:
                ops[a[0]].kill()
            elif opn == 'ext':
                ext(*a)
            elif opn == 'edit':
                x['n'] += 1
                if sim.obj(a[0]) is None: sim.create(a[0], {'x': x['n']})
                else: sim.set_spec(a[0], x=x['n'])
            elif opn == 'cut':       # the server ends the streams of the peering object: the operators reconnect from the version they remember
                for w in [w_ for w_ in sim.srv.watches if w_.res.plural == PEER]: w.end('eof')
        for k in range(sc.get('nobj', 0)):
            sim.create(f'p{k}', {'x': 0})
        if sc.get('on_pause'):       # an adversarial schedule: changes that arrive k loop cycles after the operator decided to pause
            from kopf._cogs.helpers import veriftrace
            inner = veriftrace.sink
            trig = {'done': False}

            def sink(ev: str, fields: dict[str, Any]) -> None:
                inner(ev, fields)
                opn = sc['on_pause']['op']
                if ev == 'peer.eval' and fields.get('identity') == opn and fields.get('paused') and not trig['done']:
                    trig['done'] = True

                    def hop(k: int) -> None:
                        if k <= 0:
                            for nm in sc['on_pause']['names']: do('edit', nm)
                        else:
                            ops[opn].loop.call_soon(hop, k - 1)
                    hop(sc['on_pause']['k'])
            veriftrace.sink = sink
        for (t, opn, *a) in sc['env']:
            sim.world.at(t, (lambda opn=opn, a=a: do(opn, *a)), 1)
        stall = False
        try:
            sim.run(sc['end'])
            watching = {o: any(w.res.plural == PLURAL and w.session.owner == o for w in sim.srv.watches) for o in OPS}
            # how many objects there are for the daemons of an active operator to live on (-1: no daemons that stay, or threads that cannot be told)
            objs = (sum(1 for (rk, _ns, _nm) in sim.srv.objs if rk == sim.things.key) if sc.get('daemon') and sc.get('dmode') != 'syncbusy' else -1)
            sim.rec('env.quiet', watching=watching, objs=objs)
            for o, op in ops.items():
                if not op.done and not op.killed and not op.stop_flag.is_set():
                    op.stop()
            sim.run(sc['end'] + 30)
        except Stall:
            stall = True
        events = convert(sim.recorder.events, sc)
        steps = []
        if not stall and ops:       # the watchers of the handled kind (the ones a pause closes) as step traces of Streaming.tla
            from vf import streaming
            steps = streaming.segments(sim.recorder.events, streaming.conf_from_settings(next(iter(ops.values())).settings), sc['id'],
                                       plurals=({PLURAL, PEER} if not (lag or plag) else {PLURAL}), pausable={PLURAL, 'widgets'})      # (answers that take time are not in the step model)
        return {'id': sc['id'], 'conf': conf_of(sc), 'events': events, 'stall': stall, 'scenario': sc, 'steps': steps}
    finally:
        kpeering.random = saved_random
        sim.close()


def conf_of(sc: dict[str, Any]) -> dict[str, Any]:
    return {'prio': {o: sc['prio'].get(o, 0) for o in OPS}, 'life': {o: sc['life'].get(o, 1) for o in OPS},
            'period': {o: period_of(sc['life'].get(o, 1), sc['jit'].get(o, 5)) for o in OPS},
            'lag': {o: int(sc.get('lag', {}).get(o, 0)) for o in OPS}, 'plag': {o: int(sc.get('plag', {}).get(o, 0)) for o in OPS}}


def _abstract(raw: dict[str, Any], t: float) -> dict[str, Any]:
    """Raw status of the peering object -> records of the specification at instant t (ttl = deadline - t, clamped at 0)."""
    from sim.clock import to_virtual
    out = {}
    for i in IDS:
        r = raw.get(i)
        if r is None:
            out[i] = dict(NOREC); continue
        life = int(r.get('lifetime', 60))
        if r.get('lastseen') is None:
            out[i] = {'prio': int(r.get('priority', 0)), 'ttl': 0, 'fl': life}
        else:
            seen = to_virtual(r['lastseen'])
            out[i] = {'prio': int(r.get('priority', 0)), 'ttl': max(0, int(seen + life - t)), 'fl': 0}
    return out


def convert(raw: list[dict[str, Any]], sc: dict[str, Any]) -> list[dict[str, Any]]:
    from sim.opsim import PLURAL
    out: list[dict[str, Any]] = []
    status: dict[str, Any] = {}
    commit_t: dict[int, float] = {}
    vers: dict[int, int] = {}          # real resourceVersion of the peering object -> ordinal of the change

    def ver_of(rv: Any) -> int:
        rv = int(rv)
        if rv not in vers:
            vers[rv] = len(vers)
        return vers[rv]
    # which PATCHes of the peering object are clean() calls: all values null and not (only) the actor's own id at exit
    for k, e in enumerate(raw):
        ev = e['ev']; t = e['t']
        if ev in ('srv.create', 'srv.write', 'srv.state') and e.get('res') == PLURAL and e.get('rv') is not None:
            commit_t.setdefault(int(e['rv']), t)
        if ev == 'srv.create' and e.get('res') == PEER:
            ver_of(e['rv'])
        if ev == 'op.start': out.append({'ev': 'start', 't': t, 'o': e['loop']})
        elif ev == 'op.stop': out.append({'ev': 'stop', 't': t, 'o': e['loop']})
        elif ev == 'op.kill': out.append({'ev': 'kill', 't': t, 'o': e['loop']})
        elif ev == 'op.return': out.append({'ev': 'down', 't': t, 'o': e['loop']})
        elif ev == 'env.ext':
            status = e['status']
            if int(e['rv']) in vers:
                continue        # nothing at all was written
            out.append({'ev': 'write', 't': t, 'actor': 'ext', 'after': _abstract(status, t), 'ver': ver_of(e['rv'])})
        elif ev == 'srv.req' and e.get('plural') == PEER and e.get('kind') == 'patch' and e.get('code') == 200:
            status = e.get('proj') or {}
            body = (e.get('pbody') or {}).get('status') or {}
            actor = e['loop']
            is_clean = bool(body) and all(v is None for v in body.values()) and not _is_withdraw(raw, k, actor)
            if is_clean:
                out.append({'ev': '_clean', 't': t, 'o': actor, 'actor': actor, 'after': _abstract(status, t), 'ver': ver_of(e['rv_after'])})
            else:
                out.append({'ev': 'write', 't': t, 'actor': actor, 'after': _abstract(status, t), 'ver': ver_of(e['rv_after'])})
        elif ev == 'peer.eval':
            o = e['loop']
            # fold the clean() request of this evaluation (the last `_clean` of o, if it is still unfolded) into it
            pos = len(out); after = _abstract(status, t)
            for j in range(len(out) - 1, -1, -1):
                if out[j]['ev'] == '_clean' and out[j]['o'] == o:
                    pos = j; after = out[j]['after']; out.pop(j); break
                if out[j]['ev'] != '_clean' and (out[j].get('o') == o or out[j].get('actor') == o):
                    break
            out.insert(pos, {'ev': 'eval', 't': t, 'o': o, 'ver': ver_of(e['rv']), 'dead': sorted(e.get('dead', [])), 'prio': sorted(e.get('prio', [])),
                             'same': sorted(e.get('same', [])), 'paused': bool(e.get('paused')), 'after': after})
        elif ev == 'srv.req' and e.get('plural') == PLURAL and e.get('kind') in ('list', 'watch') and e.get('code') == 200:
            out.append({'ev': e['kind'], 't': t, 'o': e['loop']})
        elif ev == 'h.enter' and e.get('id') == 'a':
            out.append({'ev': 'inv', 't': t, 'o': e['loop'], 'ct': commit_t.get(e.get('rv') or -1, 0), 'name': e.get('name')})
        elif ev == 'd.start': out.append({'ev': 'dstart', 't': t, 'o': e['loop'], 'name': e.get('name') or ''})
        elif ev == 'd.exit': out.append({'ev': 'dexit', 't': t, 'o': e['loop'], 'name': e.get('name') or ''})
        elif ev == 'env.quiet': out.append({'ev': 'quiet', 't': t, 'watching': e['watching'], 'objs': e.get('objs', -1)})
    # a null-only PATCH that no evaluation accounts for is shown to the specification as the write it is
    for e in out:
        if e['ev'] == '_clean':
            e['ev'] = 'write'; e.pop('o', None)
    return out


def _is_withdraw(raw: list[dict[str, Any]], k: int, actor: str) -> bool:
    """A PATCH that only nulls the actor's own record while the actor is exiting is the withdrawal, not a clean()."""
    body = (raw[k].get('pbody') or {}).get('status') or {}
    if set(body) != {actor}:
        return False
    for e in reversed(raw[:k]):
        if e.get('loop') == actor and e['ev'] == 'op.stop': return True
        if e.get('loop') == actor and e['ev'] == 'op.start': return False
    return False


_RE = re.compile(r'<<\s*"VERDICT",\s*(\d+),\s*"([^"]*)",\s*(-?\d+),\s*(-?\d+),\s*(\d+),\s*"([^"]*)"\s*>>')


def judge(traces: list[dict[str, Any]], rep: Any = None, grace: int = 3) -> dict[str, dict[str, Any]]:
    scratch = tempfile.mkdtemp(prefix='vf-peer-')
    try:
        path = os.path.join(scratch, 'traces.json')
        with open(path, 'w') as f:
            json.dump([{'id': t['id'], 'conf': t['conf'], 'events': t['events'],
                        'dsync': (t.get('scenario') or {}).get('dmode') == 'syncbusy'} for t in traces], f)
        cfg = ('SPECIFICATION TSpec\nCONSTANTS\n  Ops = {"a", "b", "c"}\n  Ext_ = {"x", "y"}\n  NoConf = NoConf\n  QMax = 100000\n  TrackVer = TRUE\n'
               f'  Grace = {grace}\nCONSTRAINT Book\nPOSTCONDITION Verdicts\nCHECK_DEADLOCK FALSE\n')
        r = tlc.run('Trace_Peering', cfg_text=cfg, workers=1, env={'TRACE_FILE': path}, timeout=3000, deque=True)
    finally:
        shutil.rmtree(scratch, ignore_errors=True)
    if not r.ok:
        raise MachineryFailure(f'Trace_Peering failed: {r.violated} {r.errors}\n{r.out[-3000:]}')
    if rep is not None:
        rep.add_tlc('Trace_Peering', r)
    got = {}
    for m in _RE.finditer(r.out):
        i = int(m.group(1)); clean, reach, n, bad = int(m.group(3)), int(m.group(4)), int(m.group(5)), m.group(6)
        t = traces[i - 1]
        if reach < n:
            verdict = f'unexplained at event {reach + 1}/{n}: {json.dumps(t["events"][reach])[:300]}'
        elif bad != 'none':
            verdict = bad
        else:
            verdict = 'ok'
        got[t['id']] = {'verdict': verdict, 'reach': reach, 'n': n}
    if len(got) != len(traces):
        raise MachineryFailure(f'Trace_Peering: {len(got)} verdicts for {len(traces)} traces\n{r.out[-1500:]}')
    return got


def gen_scenarios(seed: int, n: int) -> list[dict[str, Any]]:
    rnd = random.Random(f'peer-{seed}')
    out = []
    for k in range(n):
        nops = rnd.choice([1, 2, 2, 3, 3])
        ops = OPS[:nops]
        tie = rnd.random() < 0.2 and nops > 1
        prios = rnd.sample([1, 2, 3], nops)
        if tie: prios[1] = prios[0]
        life = {o: rnd.choice([6, 8, 12]) for o in ops}
        jit = {o: rnd.randint(5, 10) for o in ops}
        env: list[tuple] = []
        t = 0
        for o in rnd.sample(ops, nops):
            env.append((t, 'start', o)); t += rnd.choice([0, 1, 3, 7, 15])
        for _ in range(rnd.randint(1, 7)):
            t += rnd.choice([0, 1, 2, 5, 9, 14])
            kind = rnd.choices(['stop', 'kill', 'start', 'ext', 'edit'], [2, 2, 3, 2, 4])[0]
            if kind == 'ext':
                env.append((t, 'ext', rnd.choice(EXT), rnd.choice(['live', 'dead', 'nolife', 'noseen', 'extra', 'remove', 'remove']),
                            rnd.choice([0, 1, 2, 3]), rnd.choice([4, 9])))
            elif kind == 'edit':
                env.append((t, 'edit', rnd.choice(['o1', 'o2', 'p0', 'p1', 'p2'])))
            else:
                env.append((t, kind, rnd.choice(ops)))
        noseen = any(e[1] == 'ext' and e[3] == 'noseen' for e in env)
        end = t + (70 if any(e[1] == 'ext' and e[3] == 'nolife' for e in env) else 0) + max(life.values()) * 2 + 12
        lag = {rnd.choice(ops): 1} if rnd.random() < 0.15 else {}
        r2 = random.Random(f'peer-cut-{seed}-{k}')      # (a stream of its own) the peering streams are cut; the version grows by a digit in mid-stream
        extra: dict[str, Any] = {}
        if r2.random() < 0.3:
            extra['rv0'] = r2.choice([0, 90, 95, 990])
            for _ in range(r2.randint(1, 3)):
                env.append((r2.randint(5, max(6, t + 10)), 'cut'))
            env.sort(key=lambda e: e[0])
        out.append({**extra, 'id': f'peer-{seed}-{k}', 'lag': lag, 'ops': ops, 'prio': dict(zip(ops, prios)), 'life': life, 'jit': jit, 'env': env, 'end': end,
                    'hdur': rnd.choice([0, 0, 1, 3]), 'daemon': rnd.random() < 0.5, 'noseen': noseen,
                    'dmode': rnd.choice(['obey', 'cancel']), 'nobj': rnd.choice([0, 0, 3, 6])})
    return out


def crafted() -> list[dict[str, Any]]:
    """Histories that aim at the known families and at the corners of the statement."""
    out = []
    # F27: a restart under the same identity after the old record expired; the listing (own record dead) is answered late
    out.append({'id': 'crafted-f27', 'ops': ['a'], 'prio': {'a': 1}, 'life': {'a': 8}, 'jit': {'a': 5}, 'lag': {'a': 1},
                'env': [(0, 'start', 'a'), (5, 'kill', 'a'), (30, 'start', 'a')], 'end': 50, 'hdur': 0, 'daemon': False})
    # F26: a paused operator exits within queueing.exit_timeout of the blocking peer's deadline
    out.append({'id': 'crafted-f26', 'ops': ['a'], 'prio': {'a': 2}, 'life': {'a': 12}, 'jit': {'a': 8},
                'env': [(0, 'start', 'a'), (24, 'ext', 'x', 'live', 3, 4), (26, 'stop', 'a')], 'end': 60, 'hdur': 0, 'daemon': False})
    # hand-over: low is active with daemons, high comes, is killed, low resumes after the record expires
    out.append({'id': 'crafted-handover', 'ops': ['a', 'b'], 'prio': {'a': 1, 'b': 2}, 'life': {'a': 12, 'b': 8}, 'jit': {'a': 7, 'b': 5},
                'env': [(0, 'start', 'a'), (2, 'edit', 'o1'), (10, 'start', 'b'), (14, 'edit', 'o1'), (15, 'edit', 'o2'), (30, 'kill', 'b'), (33, 'edit', 'o1'),
                        (60, 'start', 'b'), (70, 'stop', 'b'), (75, 'edit', 'o2')], 'end': 110, 'hdur': 1, 'daemon': True})
    # stop while the first keep-alive PATCH is applied but not yet answered (response latency 2), at every offset
    for dt in (0, 1, 2, 3):
        out.append({'id': f'crafted-early-stop-{dt}', 'ops': ['a'], 'prio': {'a': 2}, 'life': {'a': 12}, 'jit': {'a': 8}, 'plag': {'a': 2},
                    'env': [(3, 'start', 'a'), (3 + dt, 'stop', 'a')], 'end': 30, 'hdur': 0, 'daemon': False})
    # pausing with many objects whose daemons leave only on cancellation, and changes arriving at the instant of the pause
    for k, burst in enumerate(([], ['p0'], ['p5', 'p0', 'p3'], ['p5', 'p4', 'p3', 'p2', 'p1', 'p0'])):
        out.append({'id': f'crafted-pause-daemons-{k}', 'ops': ['a', 'b'], 'prio': {'a': 1, 'b': 2}, 'life': {'a': 12, 'b': 12}, 'jit': {'a': 7, 'b': 7},
                    'env': [(0, 'start', 'a'), (10, 'start', 'b')] + [(10, 'edit', n) for n in burst] + [(40, 'stop', 'b')], 'end': 70,
                    'hdur': 0, 'daemon': True, 'dmode': 'cancel', 'nobj': 6})
    # synchronous daemons in a blocking call while the operator is paused for several passes of the daemon killer and resumes
    # before the threads have left: the re-listing must not start second instances next to them
    for k, (busy, pause) in enumerate(((12, 6), (5, 8), (20, 3), (9, 9))):
        out.append({'id': f'crafted-pause-syncbusy-{k}', 'ops': ['a'], 'prio': {'a': 1}, 'life': {'a': 30}, 'jit': {'a': 7},
                    'env': [(0, 'start', 'a'), (10, 'ext', 'x', 'live', 5, pause), (10 + pause + 14, 'edit', 'p0')], 'end': 70,
                    'hdur': 0, 'daemon': True, 'dmode': 'syncbusy', 'dbusy': busy, 'nobj': 3})
    # the streams of the peering object are cut after the cluster's version has grown by a digit: the operators reconnect from the latest
    # version they have seen (not from an older one: the records of that time would be judged by today's clock)
    for k, (rv0, cuts) in enumerate(((94, (30, 50)), (993, (25, 26, 60)), (96, (20, 41, 62)))):
        out.append({'id': f'crafted-rvwidth-{k}', 'ops': ['a', 'b'], 'prio': {'a': 1, 'b': 2}, 'life': {'a': 8, 'b': 8}, 'jit': {'a': 5, 'b': 5}, 'rv0': rv0,
                    'env': [(0, 'start', 'a'), (3, 'start', 'b'), (12, 'edit', 'o1')] + [(t, 'cut') for t in cuts] + [(70, 'edit', 'o1')], 'end': 90,
                    'hdur': 0, 'daemon': False})
    # ... and changes that arrive k loop cycles after the pause was decided (events that sneak into the workers on pausing)
    for k in (0, 1, 2, 3, 4, 6, 8, 12):
        out.append({'id': f'crafted-pause-sneak-{k}', 'ops': ['a', 'b'], 'prio': {'a': 1, 'b': 2}, 'life': {'a': 12, 'b': 12}, 'jit': {'a': 7, 'b': 7},
                    'env': [(0, 'start', 'a'), (10, 'start', 'b'), (40, 'stop', 'b')], 'end': 70, 'on_pause': {'op': 'a', 'k': k, 'names': ['p5', 'p0']},
                    'hdur': 0, 'daemon': True, 'dmode': 'cancel', 'nobj': 6})
    return out


# ---------------------------------------------------------------------------------------------------------------------
# Several peerings at once (one per served namespace): the operator-wide pause is the OR over the served ones (PauseSet.tla)

NSPEER = 'kopfpeerings'


def run_dims(sc: dict[str, Any]) -> dict[str, Any]:
    import kopf
    from sim.clock import EPOCH
    from sim.fakek8s import ResDef
    from sim.opsim import GROUP, PLURAL, VERSION, Sim, Stall
    sim = Sim(wall_budget=30)
    sim.world.max_steps = 600_000
    try:
        pres = sim.srv.add_resource(ResDef('kopf.dev', 'v1', NSPEER, 'KopfPeering', namespaced=True))
        nsres = sim.srv.find('namespaces')
        events: list[dict[str, Any]] = []
        present: set[str] = set()

        def nsadd(ns: str) -> None:
            if ns in present: return
            sim.srv.create(nsres, None, ns, {}); sim.srv.create(pres, ns, 'default', {}); present.add(ns)
            sim.rec('env.serve', d=ns)

        def nsdel(ns: str) -> None:
            if ns not in present: return
            if sim.srv.get(pres, ns, 'default') is not None: sim.srv.delete(pres, ns, 'default')
            sim.srv.delete(nsres, None, ns); present.discard(ns)
            sim.rec('env.unserve', d=ns)
        for ns in sc['init']:
            nsadd(ns)
        # a second served kind that comes and goes while the operator runs: the pause is about peerings, not about kinds
        widgets = ResDef(GROUP, VERSION, 'widgets', 'Widget', namespaced=True)
        kinds: set[str] = set()

        def kadd() -> None:
            if 'widgets' in kinds: return
            sim.srv.add_resource(widgets, announce=True); kinds.add('widgets'); sim.rec('env.kind', d='widgets', there=True)

        def kdel() -> None:
            if 'widgets' not in kinds: return
            sim.srv.remove_resource(widgets); kinds.discard('widgets'); sim.rec('env.kind', d='widgets', there=False)
        if sc.get('widgets'):
            kadd()
        reg = sim.registry()
        kopf.on.event(GROUP, VERSION, PLURAL, registry=reg, id='see')(sim.handler('see', kind='event'))
        kopf.on.event(GROUP, VERSION, 'widgets', registry=reg, id='seew')(sim.handler('seew', kind='event'))
        op = sim.operator('a', reg, sim.settings(peering__lifetime=12, watching__reconnect_backoff=1),
                          peering_name='default', priority=1, identity='a', clusterwide=False, namespaces=['ns*'])

        def ext(ns: str, kind: str) -> None:
            if ns not in present: return
            iso = (EPOCH + __import__('datetime').timedelta(seconds=sim.now)).isoformat()

            def fn(o_: dict[str, Any]) -> None:
                s = o_.setdefault('status', {})
                if kind == 'block': s['x'] = {'priority': 5, 'lifetime': 1000, 'lastseen': iso}
                else: s.pop('x', None)
            sim.srv.edit(pres, ns, 'default', fn, actor='ext')

        def rest() -> None:
            sim.rec('env.rest', watching=any(w.res.plural == PLURAL and w.session.owner == 'a' for w in sim.srv.watches))

        def do(opn: str, *a: Any) -> None:
            {'nsadd': nsadd, 'nsdel': nsdel, 'ext': ext, 'rest': rest, 'kadd': kadd, 'kdel': kdel}[opn](*a)
        for (t, opn, *a) in sc['env']:
            sim.world.at(t, (lambda opn=opn, a=a: do(opn, *a)), 1)
        stall = False
        try:
            sim.run(sc['end']); rest()
            from vf import streaming
            steps = streaming.segments(sim.recorder.events, streaming.conf_from_settings(op.settings), sc['id'], end_t=sc['end'], pausable={PLURAL, 'widgets'})
            op.finish()
        except Stall:
            stall = True; steps = []
        for e in sim.recorder.events:
            if e['ev'] == 'env.serve': events.append({'ev': 'serve', 'd': e['d']})
            elif e['ev'] == 'env.unserve': events.append({'ev': 'unserve', 'd': e['d']})
            elif e['ev'] == 'peer.eval' and e.get('loop') == 'a': events.append({'ev': 'eval', 'd': e.get('ns') or '*', 'paused': bool(e.get('paused'))})
            elif e['ev'] == 'env.rest': events.append({'ev': 'rest', 'watching': e['watching']})
            elif e['ev'] == 'env.kind': events.append({'ev': 'kind', 'd': e['d'], 'there': e['there']})
        return {'id': sc['id'], 'events': events, 'stall': stall, 'scenario': sc, 'steps': steps}
    finally:
        sim.close()


def gen_dims(seed: int, n: int) -> list[dict[str, Any]]:
    rnd = random.Random(f'dims-{seed}')
    out = [{'id': 'dims-crafted-0', 'init': ['ns1', 'ns2'], 'env': [(10, 'ext', 'ns2', 'block'), (25, 'rest'), (30, 'nsdel', 'ns2'), (50, 'rest')], 'end': 70},
           {'id': 'dims-crafted-1', 'init': ['ns1', 'ns2'], 'env': [(10, 'ext', 'ns2', 'block'), (20, 'ext', 'ns1', 'block'), (30, 'nsdel', 'ns2'), (50, 'rest'),
                                                                    (55, 'ext', 'ns1', 'free'), (70, 'rest')], 'end': 90},
           {'id': 'dims-crafted-kind-0', 'init': ['ns1', 'ns2'], 'widgets': True,
            'env': [(10, 'ext', 'ns2', 'block'), (25, 'rest'), (30, 'kdel'), (50, 'rest'), (55, 'ext', 'ns2', 'free'), (70, 'rest'), (75, 'ext', 'ns1', 'block'), (90, 'rest')], 'end': 100},
           {'id': 'dims-crafted-kind-1', 'init': ['ns1'], 'widgets': False,
            'env': [(10, 'ext', 'ns1', 'block'), (20, 'kadd'), (35, 'rest'), (40, 'kdel'), (55, 'rest'), (60, 'ext', 'ns1', 'free'), (75, 'rest')], 'end': 90}]
    for k in range(n):
        env: list[tuple] = []; t = 5
        for _ in range(rnd.randint(2, 7)):
            t += rnd.choice([1, 3, 8, 15])
            opn = rnd.choice(['ext', 'ext', 'ext', 'nsdel', 'nsadd', 'kind'])
            ns = rnd.choice(['ns1', 'ns2', 'ns3'])
            if opn == 'kind': env.append((t, rnd.choice(['kadd', 'kdel'])))
            else: env.append((t, 'ext', ns, rnd.choice(['block', 'block', 'free']))) if opn == 'ext' else env.append((t, opn, ns))
            if rnd.random() < 0.5:
                t += 15; env.append((t, 'rest'))
        out.append({'id': f'dims-{seed}-{k}', 'init': rnd.sample(['ns1', 'ns2', 'ns3'], rnd.randint(1, 3)), 'env': env, 'end': t + 20, 'widgets': rnd.random() < 0.5})
    return out


_RE_M = re.compile(r'<<\s*"MONITOR",\s*(\d+),\s*"([^"]*)",\s*"([^"]*)"\s*>>')


def judge_dims(traces: list[dict[str, Any]], rep: Any = None) -> dict[str, str]:
    scratch = tempfile.mkdtemp(prefix='vf-dims-')
    try:
        path = os.path.join(scratch, 'traces.json')
        with open(path, 'w') as f:
            json.dump([{'id': t['id'], 'events': t['events']} for t in traces], f)
        r = tlc.run('PauseSet', cfg_text='SPECIFICATION Spec\nCONSTRAINT Book\nPOSTCONDITION Verdicts\nCHECK_DEADLOCK FALSE\n', workers=1,
                    env={'TRACE_FILE': path}, timeout=1200)
    finally:
        shutil.rmtree(scratch, ignore_errors=True)
    if not r.ok:
        raise MachineryFailure(f'PauseSet failed: {r.violated} {r.errors}\n{r.out[-3000:]}')
    if rep is not None:
        rep.add_tlc('PauseSet', r)
    got = {int(m.group(1)): m.group(3) for m in _RE_M.finditer(r.out)}
    if len(got) != len(traces) or 'incomplete' in got.values():
        raise MachineryFailure(f'PauseSet: {len(got)} verdicts for {len(traces)} traces\n{r.out[-1500:]}')
    return {t['id']: got[i] for i, t in enumerate(traces, start=1)}


# ---------------------------------------------------------------------------------------------------------------------
# Behaviours chosen by TLC (-simulate on MC_Peering) replayed into the real operators: the environment's schedule
# (who starts / stops / is killed between which ticks) comes from the specification, the run is validated like any other.

def tlc_scenarios(seed: int, num: int, depth: int = 90) -> list[dict[str, Any]]:
    from vf import tlaval
    scratch = tempfile.mkdtemp(prefix='vf-psim-')
    try:
        src = open(os.path.join(tlc.SPEC, 'Sim_Peering.tla')).read().splitlines()
        tick_line = next(i + 1 for i, l in enumerate(src) if '(Tick /\\ UNCHANGED' in l and l.strip().startswith('\\/'))
        r = tlc.run('Sim_Peering', 'Sim_Peering.cfg', workers=1, simulate=f'file={scratch}/tr,num={num}', depth=depth, seed=seed, timeout=600)
        out = []
        for fn in sorted(f for f in os.listdir(scratch) if f.startswith('tr_')):
            text = open(os.path.join(scratch, fn)).read()
            blocks = re.split(r'\n(?=\\\* <)', text)
            t = 0; prev = None; env: list[tuple] = []
            for b in blocks:
                m = re.match(r'\\\* <(\w+) line (\d+)', b)
                if not m:
                    continue
                sm = re.search(r'/\\ st = (\[[^\]]*\])', b)
                if not sm:
                    continue
                st = tlaval.parse(sm.group(1))
                if m.group(1) == 'SimNext' and int(m.group(2)) == tick_line:
                    t += 1
                if prev is not None:
                    for o in OPS:
                        a, c = prev.get(o), st.get(o)
                        if a == 'down' and c == 'up': env.append((t, 'start', o))
                        elif a == 'up' and c == 'exiting': env.append((t, 'stop', o))
                        elif a in ('up', 'exiting') and c == 'down' and not (a == 'exiting' and _withdrawn(b, o)): env.append((t, 'kill', o))
                prev = st
            if env:
                out.append({'id': f'tlc-{seed}-{fn}', 'ops': list(OPS), 'prio': {'a': 1, 'b': 2, 'c': 3}, 'life': {o: 8 for o in OPS}, 'jit': {o: 5 for o in OPS},
                            'env': env, 'end': t + 30, 'hdur': 0, 'daemon': False, 'from_tlc': True})
        return out
    finally:
        shutil.rmtree(scratch, ignore_errors=True)


def _withdrawn(block: str, o: str) -> bool:
    m = re.search(r'/\\ wd = (\[[^\]]*\])', block)
    if not m:
        return False
    from vf import tlaval
    return bool(tlaval.parse(m.group(1)).get(o))
