"""Records for spec/Discovery.tla: the real clients.scanning.scan_resources on generated API discovery documents (the core API and groups
with several versions, a preferred one, subresources, namesakes across groups and versions, versions that are gone, limited re-scans),
served by the fake session of the world simulator; what it returns is judged by TLC against the reference function of the documents."""
from __future__ import annotations

import asyncio
import random
from typing import Any

from vf import records

VERBS = ['get', 'list', 'watch', 'patch', 'create', 'delete', 'update', 'deletecollection']


def gen_doc(rnd: random.Random) -> dict[str, Any]:
    def items() -> list[dict[str, Any]]:
        out = []
        for base, kind in rnd.sample([('things', 'Thing'), ('widgets', 'Widget'), ('pods', 'Pod'), ('thingsets', 'ThingSet'), ('events', 'Event')], rnd.randint(0, 4)):
            out.append(dict(base=base, sub='', kind=kind, kindLower=kind.lower(), singular=rnd.choice([kind.lower(), kind.lower(), '']),
                            shortNames=rnd.sample(['th', 'wd', 'po', 'x'], rnd.randint(0, 2)), categories=rnd.sample(['all', 'catx'], rnd.randint(0, 2)),
                            verbs=rnd.sample(VERBS, rnd.randint(0, 6)), namespaced=rnd.random() < 0.7))
            for sub in rnd.sample(['status', 'scale', 'proxy/deep', 'status2'], rnd.randint(0, 3)):
                out.append(dict(base=base, sub=sub, kind=rnd.choice([kind, 'Scale']), kindLower='', singular='', shortNames=[], categories=[],
                                verbs=rnd.sample(VERBS, rnd.randint(1, 3)), namespaced=True))
        rnd.shuffle(out)
        return out
    core = [dict(version='v1', gone=rnd.random() < 0.05, resources=items())]
    groups = []
    for g in rnd.sample(['example.com', 'other.io', 'apps', 'events.k8s.io', 'things'], rnd.randint(0, 4)):
        vs = rnd.sample(['v1', 'v1beta1', 'v2', 'v1alpha1'], rnd.randint(1, 3))
        groups.append(dict(name=g, preferred=rnd.choice(vs), versions=[dict(version=v, gone=rnd.random() < 0.15, resources=items()) for v in vs]))
    names = [g['name'] for g in groups]
    how = rnd.random()
    only = dict(all=True, groups=[]) if how < 0.5 else dict(all=False, groups=rnd.sample(names + ['', 'absent.io'], rnd.randint(1, min(3, len(names) + 2))))
    return dict(core=core, groups=groups, only=only)


def _wire(it: dict[str, Any]) -> dict[str, Any]:
    d: dict[str, Any] = {'name': it['base'] + ('/' + it['sub'] if it['sub'] else ''), 'kind': it['kind'], 'singularName': it['singular'], 'namespaced': it['namespaced']}
    if it['shortNames']: d['shortNames'] = list(it['shortNames'])
    if it['categories']: d['categories'] = list(it['categories'])
    if it['verbs']: d['verbs'] = list(it['verbs'])
    return d


def scan(doc: dict[str, Any]) -> dict[str, Any]:
    """The real scan_resources against the documents (kopf's api.get replaced by a lookup that raises the real APINotFoundError for 404)."""
    from kopf._cogs.clients import errors, scanning
    pages: dict[str, Any] = {'/api': {'versions': [c['version'] for c in doc['core']]},
                             '/apis': {'groups': [{'name': g['name'], 'preferredVersion': {'version': g['preferred'], 'groupVersion': f'{g["name"]}/{g["preferred"]}'},
                                                   'versions': [{'version': v['version'], 'groupVersion': f'{g["name"]}/{v["version"]}'} for v in g['versions']]}
                                                  for g in doc['groups']]}}
    for c in doc['core']:
        pages[f'/api/{c["version"]}'] = None if c['gone'] else {'resources': [_wire(it) for it in c['resources']]}
    for g in doc['groups']:
        for v in g['versions']:
            pages[f'/apis/{g["name"]}/{v["version"]}'] = None if v['gone'] else {'resources': [_wire(it) for it in v['resources']]}
    asked: list[str] = []

    async def get(url: str, **_: Any) -> Any:
        asked.append(url)
        await asyncio.sleep(0)
        page = pages.get(url)
        if page is None:
            raise errors.APINotFoundError({'code': 404, 'message': 'not found'}, status=404, headers={})
        return page
    orig = scanning.api.get
    scanning.api.get = get
    raised = ''
    got: list[Any] = []
    try:
        only = None if doc['only']['all'] else list(doc['only']['groups'])
        got = list(asyncio.run(scanning.scan_resources(settings=None, logger=None, groups=only)))      # type: ignore[arg-type]
    except Exception as e:
        raised = type(e).__name__
    finally:
        scanning.api.get = orig
    return {'doc': doc, 'raised': raised, 'asked': sorted(asked),
            'got': [dict(group=r.group, version=r.version, plural=r.plural, kind=r.kind, singular=r.singular, shortcuts=sorted(r.shortcuts),
                         categories=sorted(r.categories), verbs=sorted(r.verbs), subresources=sorted(r.subresources), namespaced=r.namespaced,
                         preferred=r.preferred) for r in got]}


def build(seed: int, n: int) -> list[dict[str, Any]]:
    rnd = random.Random(f'discovery-{seed}')
    return [scan(gen_doc(rnd)) for _ in range(n)]


def stage(ctx: Any, rep: Any, label: str) -> None:
    recs = build(ctx.seed, 400 if ctx.quick else 8000)
    bad = records.judge('Rec_Discovery', [{k: v for k, v in r.items() if k != 'asked'} for r in recs], rep=rep, shard=2000)
    rep.evaluations += len(recs); rep.traces += len(recs)
    for r in recs:
        if r['got']:
            rep.nontrivial(r['got'])
    for i, lab in sorted(bad.items()):
        rep.violation(f'{label}: discovery: {lab}: only={recs[i]["doc"]["only"]} got={[(g["group"], g["version"], g["plural"], g["preferred"], g["subresources"]) for g in recs[i]["got"]]}',
                      payload=recs[i])
    rep.extra['discovery'] = {'records': len(recs), 'resources_returned': sum(len(r['got']) for r in recs)}
