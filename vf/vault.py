"""Step conformance of re-authentication (C12, Vault.tla).

The real credentials.Vault, auth.authenticated, api.request and activities.authenticator run in virtual time against a
small fake server that checks credentials; N requesting tasks, scripted revocations, answer latencies, retryable faults,
login outcomes (fresh credentials, the same ones again, none) and close() latencies.  kopf is not touched: the vault's
asyncio.Condition is replaced (on the instance) by a recording subclass, Vault.select / _flush_caches / populate are
wrapped in a subclass, and auth.APIContext / auth.aiohttp are shimmed so that both kinds of credentials can be used
(AiohttpSession: the user's session; ConnectionInfo: a session of its own per context).  The recorded events are
validated by TLC against Trace_Vault.tla."""
from __future__ import annotations

import asyncio
import json
import logging
import os
import random
import re
import shutil
import tempfile
import types
from typing import Any

from vf import tlc
from vf.evidence import MachineryFailure

MAXITEM = 40          # Items of the trace configuration; FRESH = MAXITEM + 1
FRESH = MAXITEM + 1
BACKOFF = 1


class Recorder:
    def __init__(self, world: Any, nkeys: int) -> None:
        self.world = world; self.nkeys = nkeys
        self.events: list[dict[str, Any]] = []
        self.vault: Any = None
        self.item_ids: dict[int, int] = {}      # id(VaultItem) -> 1, 2, …
        self.items: list[Any] = []              # keep them alive (identity!)
        self.off = False

    def item_id(self, item: Any) -> int:
        k = id(item)
        if k not in self.item_ids:
            self.item_ids[k] = len(self.item_ids) + 1
            self.items.append(item)
        return self.item_ids[k]

    def snapshot(self) -> dict[str, Any]:
        v = self.vault
        cur = []
        for k in range(1, self.nkeys + 1):
            it = v._current.get(f'k{k}')
            cur.append(self.item_id(it) if it is not None else 0)
        return {'vcur': cur, 'vready': bool(v._ready)}

    def emit(self, ev: str, task: str | None = None, **kw: Any) -> None:
        if self.off:
            return
        if task is None:
            t = asyncio.current_task()
            task = t.get_name() if t is not None else '-'
        self.events.append({'ev': ev, 'task': task, 't': round(self.world.now, 3), **kw, **self.snapshot()})


def make_traced(rec: Recorder):
    from kopf._cogs.structs import credentials

    class TLock(asyncio.Lock):
        in_wait: set[str] = set()

        async def acquire(self) -> bool:
            me = asyncio.current_task().get_name()
            if me in self.in_wait:               # Condition.wait(): notified, now re-acquiring
                self.in_wait.discard(me)
                rec.emit('cond.wake')
            if not self._locked and (self._waiters is None or all(w.cancelled() for w in self._waiters)):
                rec.emit('lock.now')
                return await super().acquire()
            rec.emit('lock.queue')
            r = await super().acquire()
            rec.emit('lock.got')
            return r

        def release(self) -> None:
            me = asyncio.current_task().get_name()
            super().release()
            if me in self.in_wait:
                rec.emit('cond.wait')
            else:
                rec.emit('lock.rel')

    class TCond(asyncio.Condition):
        async def wait(self) -> bool:
            self._lock.in_wait.add(asyncio.current_task().get_name())     # type: ignore[attr-defined]
            return await super().wait()

        def notify_all(self) -> None:
            rec.emit('notify')
            super().notify_all()

    class TVault(credentials.Vault):
        def __init__(self) -> None:
            super().__init__()
            self._guard = TCond(lock=TLock())

        def select(self):
            try:
                key, item = super().select()
            except credentials.LoginError:
                rec.emit('sel.fail')
                raise
            rec.emit('sel', key=int(key[1:]), item=rec.item_id(item))
            return key, item

        async def _flush_caches(self, item) -> None:
            rec.emit('flush.b', item=rec.item_id(item))
            await super()._flush_caches(item)
            rec.emit('flush.e')

        async def populate(self, src) -> None:
            res = []
            for k in range(1, rec.nkeys + 1):
                info = src.get(f'k{k}')
                res.append(0 if info is None else rec.value_of(info))
            rec.srv.valid |= {v for v in res if v in rec.pending}       # the new credentials count from the moment the login is complete
            rec.pending -= set(res)
            rec.emit('login', res=res)
            await super().populate(src)

    return TVault


class Server:
    def __init__(self, world: Any, rec: Recorder, sc: dict[str, Any]) -> None:
        self.world = world; self.rec = rec; self.sc = sc
        self.valid: set[int] = set()
        self.nval = 0
        self.nreq = 0
        self.lat = list(sc.get('latencies') or [0])
        self.faults = set(sc.get('faults') or [])        # ordinal numbers of the requests answered 503
        self.failed: set[str] = set()

    def new_value(self) -> int:
        return self.rec.next_value()


class Sess:
    """The session of one context (ConnectionInfo) or of the user (AiohttpSession)."""
    def __init__(self, srv: Server, val: int) -> None:
        self.srv = srv; self.val = val
        self.headers: dict[str, str] = {}
        self.closed = False

    async def close(self) -> None:
        self.closed = True
        d = self.srv.sc.get('close', 0)
        await asyncio.sleep(d)

    async def request(self, method: str, url: str, json: Any = None, headers: Any = None, timeout: Any = None, **_: Any) -> Any:
        from sim.fakek8s import Resp, status_payload
        srv = self.srv; rec = srv.rec
        me = asyncio.current_task().get_name()
        if me in srv.failed:
            srv.failed.discard(me)
            rec.emit('retry')
        if self.closed:
            rec.emit('send.closed')
            raise RuntimeError('Session is closed')
        rec.emit('send', val=self.val)
        srv.nreq += 1
        n = srv.nreq
        await asyncio.sleep(srv.lat[(n - 1) % len(srv.lat)])
        if n in srv.faults:
            srv.failed.add(me)
            rec.emit('resp', code=503)
            return Resp(503, status_payload(503, 'simulated 503'))
        if self.val in srv.valid:
            rec.emit('resp', code=200)
            return Resp(200, {'ok': True})
        rec.emit('resp', code=401)
        return Resp(401, status_payload(401, 'Unauthorized'))


def run_case(sc: dict[str, Any]) -> dict[str, Any]:
    """One scenario -> the trace of its events."""
    import aiohttp
    import kopf
    from kopf._cogs.clients import api, auth, errors
    from kopf._cogs.structs import credentials, ephemera
    from kopf._core.engines import activities, indexing
    from sim import clock as vclock
    from sim.vloop import World
    logging.disable(logging.CRITICAL)
    world = World(wall_budget=0)
    vclock.install(world.clock)
    loop = world.new_loop('client')
    nkeys = sc['nkeys']
    rec = Recorder(world, nkeys)
    srv = Server(world, rec, sc)
    mode = sc['mode']
    values: dict[int, int] = {}          # id(info) -> value
    infos: list[Any] = []
    rec.fresh = {}                       # type: ignore[attr-defined]
    rec.pending = set()                  # type: ignore[attr-defined]
    rec.srv = srv                        # type: ignore[attr-defined]
    counter = {'v': 0}

    def next_value() -> int:
        counter['v'] += 1
        return counter['v']
    rec.next_value = next_value          # type: ignore[attr-defined]
    rec.value_of = lambda info: values[id(info)]      # type: ignore[attr-defined]

    expiries: dict[int, float] = {}

    def expire_now(val: int) -> None:
        if expiries.pop(val, None) is not None:
            rec.emit('expire', task='-', val=val)

    # `bump` = (task, n, t): time passes between two iterations of the loop -- right after the n-th time the task queues up for the
    # vault's lock the clock stands at t (on a real clock time passes between any two steps; the virtual one moves only when told to)
    bump = sc.get('bump')
    if bump:
        seen = {'n': 0}
        orig_emit = rec.emit

        def emit(ev: str, task: Any = None, **kw: Any) -> None:
            orig_emit(ev, task, **kw)
            if ev == 'lock.queue' and rec.events[-1]['task'] == bump[0]:
                seen['n'] += 1
                if seen['n'] == bump[1] and world.clock.now < bump[2]:
                    world.clock.now = bump[2]
                    for v in sorted(v for v, t_ in expiries.items() if t_ <= bump[2]):
                        expire_now(v)
        rec.emit = emit          # type: ignore[method-assign]

    def make_info(val: int, key: int, life: Any = None) -> Any:
        import datetime as _dt
        exp = None
        if life is not None:       # the credentials expire `life` seconds from now (the vault compares with the wall clock: the shim's)
            exp = vclock.EPOCH + _dt.timedelta(seconds=world.now + life)
            expiries[val] = world.now + life
            world.at(world.now + life, lambda: expire_now(val), 0)
        if mode == 'sess':
            info = credentials.AiohttpSession(aiohttp_session=Sess(srv, val), server='http://fake', priority=sc['prio'][key - 1], expiration=exp)
        else:
            info = credentials.ConnectionInfo(server='http://fake', token=f'v{val}', priority=sc['prio'][key - 1], expiration=exp)
        values[id(info)] = val; infos.append(info)
        return info

    # the shims: ConnectionInfo makes a session of its own per context; every new context is recorded
    shim = types.SimpleNamespace(ClientResponse=aiohttp.ClientResponse, TCPConnector=lambda **kw: None, BasicAuth=aiohttp.BasicAuth,
                                 ClientSession=lambda **kw: Sess(srv, int(kw['headers']['Authorization'].split('v')[-1])))
    real_ctx = auth.APIContext

    class TCtx(real_ctx):                # type: ignore[misc, valid-type]
        def __init__(self, info: Any) -> None:
            super().__init__(info)
            rec.emit('ctx.new', val=values[id(info)])
    old = (auth.aiohttp, auth.APIContext)
    auth.aiohttp = shim if mode == 'conn' else aiohttp
    auth.APIContext = TCtx
    if mode == 'conn':
        credentials.ConnectionInfo.as_ssl_context = lambda self: None      # type: ignore[method-assign]  (nothing to verify offline)
    try:
        TVault = make_traced(rec)
        loop.enter()
        try:
            vault = TVault()
        finally:
            loop.leave()
        rec.vault = vault
        registry = kopf.OperatorRegistry()
        script = [list(x) for x in sc['logins']]           # per login: per key 'fresh' | 'same' | 'none'
        nlogin = {'n': 0}
        last_val: dict[int, int] = {}
        last_info: dict[int, Any] = {}

        def handler_for(key: int):
            async def login(**_: Any) -> Any:
                if key == 1:
                    nlogin['n'] += 1
                n = nlogin['n']
                what = script[(n - 1) % len(script)][key - 1]
                d = sc.get('login_latency', 0)
                if d:
                    await asyncio.sleep(d)
                if what == 'none' or (what == 'same' and key not in last_info):
                    return None
                if what == 'same':
                    return last_info[key]          # the very same credentials (an equal object) again
                val = next_value()
                rec.pending.add(val)               # type: ignore[attr-defined]
                lives = sc.get('lifetimes') or [[None] * nkeys]
                info = make_info(val, key, lives[(n - 1) % len(lives)][key - 1])
                rec.fresh[id(info)] = True         # type: ignore[attr-defined]
                last_val[key] = val; last_info[key] = info
                return info
            return login
        for k in range(1, nkeys + 1):
            kopf.on.login(registry=registry, id=f'k{k}')(handler_for(k))
        settings = kopf.OperatorSettings()
        settings.networking.error_backoffs = [BACKOFF]
        settings.networking.request_timeout = None
        log = logging.getLogger('vf.vault')
        outcomes: dict[str, list[str]] = {}

        async def requester(name: str) -> None:
            auth.vault_var.set(vault)
            srv.failed.discard(name)
            rec.emit('start')
            try:
                await api.request('GET', '/version', settings=settings, logger=log)
                out = 'ok'
            except credentials.LoginError:
                out = 'login'
            except errors.APIServerError:
                out = 'raised'
            except Exception as e:
                out = f'crash:{type(e).__name__}:{e}'
            outcomes.setdefault(name, []).append(out)
            rec.emit('end', outcome=out)

        async def authenticator() -> None:
            rec.emit('start')
            await activities.authenticator(registry=registry, settings=settings, indices=indexing.OperatorIndexers().indices,
                                           vault=vault, memo=ephemera.Memo())
        tasks: list[Any] = []
        world.at(sc.get('auth_at', 0), lambda: tasks.append(loop.spawn(authenticator(), name='auth')), 0)
        nreq = 0
        for name, starts in sorted(sc['requesters'].items()):
            for i, t in enumerate(starts):
                nreq += 1

                def go(name=name) -> None:
                    # a requester makes its next request only once the previous one has ended
                    if any(tk.get_name() == name and not tk.done() for tk in tasks):
                        world.after(0.5, go, 1)
                        return
                    tasks.append(loop.spawn(requester(name), name=name))
                world.at(t, go, 1)

        def revoke(what: str) -> None:
            vs = sorted(srv.valid)
            if not vs:
                return
            pick = vs if what == 'all' else [vs[-1]] if what == 'newest' else [vs[0]]
            for v in pick:
                srv.valid.discard(v)
                rec.emit('revoke', task='-', val=v)
        for t, what in sc.get('revokes', []):
            world.at(t, lambda what=what: revoke(what), 1)
        end = sc.get('end', 60)
        world.run_until(end, stop=lambda: False)
        rec.off = True
        pending = [tk.get_name() for tk in tasks if not tk.done() and tk.get_name() != 'auth']
        dead_auth = [repr(tk.exception()) for tk in tasks if tk.get_name() == 'auth' and tk.done() and not tk.cancelled() and tk.exception()]
        for tk in tasks:
            if not tk.done():
                loop.enter()
                try:
                    tk.cancel()
                finally:
                    loop.leave()
        try:
            world.settle()
        except Exception:
            pass
        return {'id': sc['id'], 'events': rec.events, 'mode': mode, 'nkeys': nkeys, 'prio': list(sc['prio']),
                'pending': pending, 'outcomes': outcomes, 'auth_died': dead_auth, 'scenario': sc}
    finally:
        auth.aiohttp, auth.APIContext = old
        world.drop_loop(loop)


def crafted() -> list[dict[str, Any]]:
    """The schedules of F37, as TLC found them: credentials expire while requests take turns at the vault's lock."""
    out = []
    for mode in ('conn', 'sess'):
        # exp-race: r2 drops the first key's credentials as expired (close() takes 2 s, the lock is held), r3 queues up, the second key's
        # credentials expire meanwhile; r2 goes on with ITS reading of the clock and selects them, r3 drops them before r2 has made their context
        out.append({'id': f'exp-race-{mode}', 'mode': mode, 'nkeys': 2, 'prio': [2, 1], 'requesters': {'r1': [1], 'r2': [5], 'r3': [5.5]}, 'latencies': [0],
                    'revokes': [], 'logins': [['fresh', 'fresh']], 'lifetimes': [[5, 6], [None, None]], 'login_latency': 0, 'close': 2, 'faults': [], 'end': 40})
        # exp-crash: the first key is revoked, its invalidation holds the lock for 1 s (close()), r2 queues up; then r1 and r2 take turns at
        # the lock, and the second key's credentials expire between r2's two blocks (time passes between two iterations of the loop)
        for close, life in ((1, 8), (2, 9)):
            out.append({'id': f'exp-crash-{mode}-{close}', 'mode': mode, 'nkeys': 2, 'prio': [2, 1], 'requesters': {'r1': [1], 'r2': [6.5]}, 'latencies': [5, 0],
                        'revokes': [(2, 'oldest')], 'logins': [['fresh', 'fresh']], 'lifetimes': [[None, life], [None, None]], 'login_latency': 0,
                        'close': close, 'faults': [], 'end': 40, 'bump': ('r2', 3, life)})
    return out


def scenarios(seed: int, n: int) -> list[dict[str, Any]]:
    out: list[dict[str, Any]] = []
    rnd = random.Random(f'vault-{seed}')
    for i in range(n):
        nkeys = rnd.choice([1, 1, 2, 2, 2])
        prio = [1] * nkeys if nkeys == 1 else rnd.choice([[1, 1], [2, 1], [1, 2]])
        nreqs = rnd.choice([1, 2, 3, 3, 4, 5])
        requesters = {f'r{k + 1}': sorted(rnd.choice([1, 1, 1, 2, 3, 5]) + rnd.choice([0, 0, 0.5, 4, 6]) * j for j in range(rnd.choice([1, 2, 3])))
                      for k in range(nreqs)}
        lat = [rnd.choice([0, 0, 0.5, 1, 2, 3]) for _ in range(rnd.randint(1, 6))]
        revokes = sorted((rnd.choice([1, 1.5, 2, 2.5, 3, 4, 6, 7, 9]), rnd.choice(['all', 'all', 'newest', 'oldest'])) for _ in range(rnd.randint(0, 4)))
        mix = rnd.choice(['fresh', 'fresh', 'mixed', 'mixed', 'poor'])
        logins = []
        for _ in range(rnd.randint(1, 5)):
            if mix == 'fresh':
                logins.append(['fresh'] * nkeys)
            elif mix == 'mixed':
                logins.append([rnd.choice(['fresh', 'fresh', 'same', 'none']) for _ in range(nkeys)])
            else:
                logins.append([rnd.choice(['fresh', 'same', 'none', 'none']) for _ in range(nkeys)])
        logins[0] = ['fresh'] + logins[0][1:]          # the operator starts with something
        out.append({'id': f'vault-{seed}-{i}', 'mode': rnd.choice(['sess', 'conn']), 'nkeys': nkeys, 'prio': prio, 'requesters': requesters,
                    'latencies': lat, 'revokes': revokes, 'logins': logins, 'login_latency': rnd.choice([0, 0, 0.5, 1, 2]),
                    'close': rnd.choice([0, 0, 0.5, 1, 2]), 'faults': sorted(rnd.sample(range(1, 12), rnd.choice([0, 0, 1, 2]))),
                    'auth_at': rnd.choice([0, 0, 0, 1, 2]), 'end': 80})
        r2 = random.Random(f'vault-exp-{seed}-{i}')         # credentials that expire (a stream of its own)
        if r2.random() < 0.4:
            out[-1]['lifetimes'] = [[r2.choice([None, None, 2, 3, 4, 6, 9]) for _ in range(nkeys)] for _ in range(r2.randint(1, 3))]
            if r2.random() < 0.3:      # time passes while a task queues for the lock
                out[-1]['bump'] = (r2.choice(sorted(requesters)), r2.randint(1, 4), r2.choice([2, 3, 4, 5, 6, 7, 9]))
    return out


_RE = re.compile(r'<<\s*"VERDICT",\s*(\d+),\s*"([^"]*)",\s*(-?\d+),\s*(\d+),\s*"([^"]*)",\s*"([^"]*)"\s*>>')


def judge(traces: list[dict[str, Any]], rep: Any = None) -> dict[str, dict[str, Any]]:
    """Validate the traces against Trace_Vault (one TLC run per (mode, keys, priorities))."""
    res: dict[str, dict[str, Any]] = {}
    groups: dict[tuple, list[dict[str, Any]]] = {}
    for t in traces:
        groups.setdefault((t['mode'], t['nkeys'], tuple(t['prio'])), []).append(t)
    for (mode, nkeys, prio), ts in sorted(groups.items()):
        scratch = tempfile.mkdtemp(prefix='vf-vault-')
        try:
            path = os.path.join(scratch, 'traces.json')
            with open(path, 'w') as f:
                json.dump([{'id': t['id'], 'events': t['events']} for t in ts], f)
            reqs = sorted({e['task'] for t in ts for e in t['events'] if e['task'] not in ('-', 'auth')})
            cfg = ('SPECIFICATION TSpec\nCONSTANTS\n  Req = {%s}\n  NKeys = %d\n  Prio <- P%s\n  MaxItem = %d\n  MaxCtx = 200\n  MaxRevoke = 1000\n'
                   '  MaxFault = 1000\n  NBackoff = 1\n  MaxExpire = 1000\n  MaxRounds = 1000\n  Mode = "%s"\n  LoginOutcomes <- AllOutcomes\n  SameIsIdentical = TRUE\n  Variant = "code"\nCONSTRAINT Book\nPOSTCONDITION Verdicts\nCHECK_DEADLOCK FALSE\n'
                   % (', '.join('"%s"' % r for r in reqs), nkeys, ''.join(str(p) for p in prio), MAXITEM, mode))
            r = tlc.run('Trace_Vault', cfg_text=cfg, workers=1, deque=True, env={'TRACE_FILE': path}, timeout=1800)
        finally:
            shutil.rmtree(scratch, ignore_errors=True)
        if not r.ok:
            raise MachineryFailure(f'Trace_Vault failed: {r.violated} {r.errors}\n{r.out[-3000:]}')
        if rep is not None:
            rep.add_tlc(f'Trace_Vault[{mode},{nkeys},{list(prio)}]', r)
        got = {int(m.group(1)): m for m in _RE.finditer(r.out)}
        if len(got) != len(ts):
            raise MachineryFailure(f'Trace_Vault printed {len(got)} verdicts for {len(ts)} traces\n{r.out[-2000:]}')
        for i, t in enumerate(ts, start=1):
            done, n, broken = int(got[i].group(3)), int(got[i].group(4)), got[i].group(5)
            ev = t['events']
            if broken:
                v = f'invariant {broken} of Vault.tla is violated in the recorded behaviour'
            elif done < n:
                v = f'rejected at event {done + 1} of {n}: {ev[done]} (after {ev[max(0, done - 3):done]})'
            else:
                v = 'accepted'
            res[t['id']] = {'verdict': v, 'done': done, 'n': n, 'noted': got[i].group(6)}
    return res
