"""Generates /verif/MANIFEST.json from the table below (run: /venv/bin/python -m vf.manifest)."""
from __future__ import annotations

import json
import os

from vf import ROOT

GUARD = 'KOPF_VERIF_TRACE'

# property id -> (technique, level text, level note, design ref)
CHECKS: dict[str, dict[str, str]] = {
    'C12': dict(
        technique='implementation-shaped TLA+ model of re-authentication (Vault.tla: credentials.Vault, @authenticated, the retry on the same context, '
                  'the authenticator, asyncio Lock / Condition as they behave) model-checked with TLC over all interleavings incl. termination under fairness, and '
                  'bound to the code by trace validation of the real machinery observed from outside (Trace_Vault); TLA+ reference of the API retry loop and of '
                  'throttling (Infra.tla) with laws checked by TLC over all fault words; the real api.request / throttled processing run in virtual time, records judged by TLC',
        text='[+ in a third of the throttle scenarios the bystander is the failing object\'s namesake of another kind] [+ Kits.tla: the error pause is aiotime.sleep] [+ expiration of credentials in Vault.tla: F37 found by TLC (NoCrash / NoLeak), replayed on the real code, repaired; the old code is the witness variant f37] [+ Vault.tla / MC_Vault: NoReuse, SingleReauth, ReauthOnlyOnRevocation, NoCrash, NoLeak, LockDiscipline for 2-3 requesters x 1-2 keys x revocations x faults x login outcomes (fresh / same / none) x both kinds of credentials, negative variant `bykey`; Trace_Vault: 400 (quick) / 6000 (thorough) seeded schedules of the real Vault / authenticated / api.request / authenticator, every lock acquisition, wait, notification, selection, flush, request and answer mapped to one action of the model, the vault compared after every event] [+ a session whose close() takes time while another request retries from its backoff; reuse of invalidated credentials judged at the instant a request leaves the client] [+ timers whose own PATCH exhausts the retries: known finding F17] RetryPlan gives the exact instants of all attempts for a fault word (connection errors, timeouts, 5xx, 403, 429 with Retry-After, '
             'other 4xx) under a backoff list and enforce_retry_after; TLC checks its laws for 37 448 cases and then judges the real '
             'api.request on ~900 (quick) / all (thorough) words: attempt instants must be equal. Throttling: per-object delays grow per '
             'consecutive error, reset by success, other objects are processed at their arrival instants, the operator stays alive and '
             'recovers. Vault: one re-authentication for N concurrent 401s, invalidated credentials not reused.',
        note='faults are raised by the fake session (socket-level timeouts are aiohttp\'s); Retry-After in integer seconds; known defects F14 '
             '(failed re-login kills the authenticator) and F17 (timer/daemon dies on exhausted retries) are documented, not exercised here',
        ref='DESIGN.md 4/C12'),
    'C19': dict(
        technique='implementation-shaped TLA+ model of one watcher task (Streaming.tla) model-checked with a server (MC_Streaming) and bound to the code by trace validation of every watcher task (Trace_Streaming); TLA+ model of the list-then-watch continuity logic (Watching.tla) checked exhaustively with TLC; recorded executions of '
                  'the real operator against the stateful fake API checked by TLC against a TLA+ property automaton (WatchMonitor.tla); TLA+ reference of the observers (Observation.tla) judging every call of revise_resources / revise_namespaces',
        text='[+ Discovery.tla: what scan_resources makes of the API discovery documents (resources, subresources, preferred versions, versions that are gone, limited re-scans) as a reference function judging the real function on generated documents] [+ Observation.tla: what the resource and namespace observers make of the cluster (update per re-scanned group, ambiguity, suitability, really-gone namespaces, the documented glob semantics) as reference functions; every call inside the operators of the runs and on generated clusters x selectors x re-scans judged by TLC] [+ Trace_Orchestration: every adjustment of the real orchestrator (entry and return of adjust_tasks with the insights it reads) and every start / end of a watcher task against Orchestration.tla (rewritten over resources x namespaces: Spawnable / Kept); behaviours of the watcher model drawn by TLC (Sim_Streaming) replayed into the real operator] [+ Streaming.tla: the implementation-shaped, timed model of one watcher task (list/watch calls with api.request retries, Retry-After, reconnect_backoff, 410, client and inactivity timeouts, pause notice, cancellation), closed with a server in MC_Streaming (continuity laws, 2.2M states quick / 62M thorough, negative `jump` configuration); Trace_Streaming validates EVERY watcher task of every run second by second (version resumed from, instant of every request, hand-over of every event, closing on pause); a cluster-scoped kind under a namespace-restricted operator (known family F34)] [+ Orchestration.tla: observers vs orchestrator under the `revised` condition, Coverage for any number of revisions over 4 pairs, negative model loses a wake-up; CRDs modified at run time] Watching.tla: a server change log, a client that lists, watches from a remembered version and survives EOF, connection errors, '
             'timeouts, 410 after compaction, bookmarks and an unknown ERROR; NoSkip / SinceNeverAhead / AllReach hold in every reachable '
             'state for 4 changes x 3 faults (two configurations), and a negative configuration (resume version ahead of the stream) must '
             'fail. The real operator then runs random object histories with stream faults at random positions, and namespace/CRD churn under '
             'a namespace pattern; TLC evaluates on each execution: every watch request resumes from exactly the last listed/streamed '
             'version, never watches without listing, at rest the consumer saw the final state of every object, and exactly one watch per '
             'served (resource, namespace) pair. The known families F15 (unknown ERROR kills the watcher silently), F25 and F32 (a list/watch '
             'request that gives up with a 5xx/403 kills it likewise) are monitor verdicts. Watches are also cut by server / client / inactivity '
             'timeouts, and list/watch requests answered 429 / 503 / transport errors several times in a row.',
        note='resource versions are integers of the fake server (histories start just below 10 / 100 / 1000 so that the decimal width of the version grows within a stream); pausing by peering is covered by C13 (its watcher tasks go through Trace_Streaming, too); whole virtual seconds, zero request latency in the step traces',
        ref='DESIGN.md 4/C19'),
    'C13': dict(
        technique='explicit TLA+ model of peering (Peering.tla: keep-alive, evaluation of queued snapshots, clean, deadline sleep, graceful '
                  'exit, kill, foreign writes) checked exhaustively with TLC incl. liveness; executions of 1-3 real operators sharing a peering '
                  'object in virtual time validated by TLC against the specification (Trace_Peering.tla, with time urgency)',
        text='[+ at rest an active operator runs a daemon on every object again] [+ PauseSet runs with a second served kind whose CRD comes and goes while a peering holds the operator paused] [+ the streams of the peering object are cut after the version has grown by a digit; the peering watcher tasks through Trace_Streaming] [+ the watcher tasks of the handled kind in all runs validated step by step against Streaming.tla: closed in the instant the pause reaches the task, nothing requested while paused, back-off and a fresh listing afterwards] [+ schedules drawn by TLC (-simulate on Sim_Peering) replayed into the real operators] TLC: RenewsInTime and WithdrawsOnExit in every state, ExactlyTop / EventuallyStable and CleansDead under fairness, for every '
             'order of starts, exits, kills and foreign writes of 2-3 operators with stale snapshots queued; negative and witness '
             'configurations (period = lifetime; families F26, F27). Real operators: every PATCH of the peering object must be the write '
             'the specification predicts at that instant (content and time), every evaluation must split the peers into dead / higher / '
             'same exactly as the specification does on the snapshot of that version and toggle the pause accordingly; at rest exactly the '
             'top operator is active and its streams are open, the others\' are closed; while paused no list/watch request, no handling '
             'of changes committed after the pause began, daemons stopped within the grace period, a fresh listing before watching again.',
        note='integer virtual seconds; the keep-alive jitter is fixed per scenario (the `random` module inside the peering engine is '
             'replaced by the harness); one cluster-wide peering object; request latency only in the scenarios that say so; known findings '
             'F26 and F27 are attributed by ghost variables of Peering.tla only',
        ref='DESIGN.md 4/C13'),
    'C20': dict(
        technique='explicit TLA+ model of the operator\'s task orchestration (Lifecycle.tla: startup/cleanup task, gated root tasks, their '
                  'children, run_tasks) checked exhaustively with TLC incl. a leads-to; runs of the real kopf.operator() in virtual time '
                  'validated by TLC against the specification (Trace_Lifecycle.tla, silent steps for the mechanism)',
        text='[+ the family F5 under C20 (a daemon whose object vanished lives through the cleanup); a stop within a few loop iterations around the end of the startup activity] [+ an object marked for deletion shortly before the stop: its daemon is in the graceful stage of its termination when the operator is stopped] TLC: no API request before the startup handlers succeeded, ready only after startup, a failed startup makes no request and runs '
             'no cleanup, cleanup only after daemons, streams, the peering record and every root task are gone, nothing lingers at return, '
             'failures are re-raised, and every stop / failure leads to the return - for all startup/cleanup scripts and every position of '
             'a stop flag, a cancellation and an essential-task failure. Real runs (scripted handlers with durations, daemons, peering, '
             'triggers at every moment incl. during startup, unknown ERROR events on the observers\' streams and on the handled resource, '
             'failing re-authentication) must be behaviours of that model, return the outcome it derives, within the grace bound.',
        note='grace bound = queueing.exit_timeout + the 5 s for hung tasks + daemon cancellation stages + the scripted handler durations; '
             'sync handlers/daemons in threads are not simulated; F14 and F15 are the known lingering cases',
        ref='DESIGN.md 4/C20'),
    'C08': dict(
        technique='TLA+ reference of patch delivery (Patching.tla over JV.tla: the plan of up to four requests, server-side merge / JSON-patch '
                  'semantics, conflict carry-forward); every request of the real patching.patch_obj against the stateful fake API is '
                  'replayed by TLC against the reference',
        text='[+ daemons and timers of one object, each invocation with a patch of its own while the others work: Patching!ClassifyDLoop (content in exactly one request, effect exactly once at rest)] For patch contents (body / status / both) x transformation lists (finalizer add / remove, state-checking list append, status '
             'edit) x resources with / without the status subresource x initial objects x one foreign write (spec, another finalizer, '
             'status, disappearance, delete-and-recreate) at every position relative to the requests and before the call, over up to '
             'four cycles: the endpoint and content type of every request, the merge payloads, the version test of every JSON-patch '
             '(= the freshest version known), the decoded ops (applied to that very version they must give the transformations of it), '
             'the server object after every request, 404 / 422 handling, what is carried forward, and the final object (finalizer there / '
             'gone, the appended item exactly once) are decided by TLC per run. F3 is a TLA+ predicate.',
        note='one foreign write per run; transformation functions follow the documented contract (check the state before changing it); '
             'the carry-forward inside the operator (memory.remaining_patch) is exercised by the closed-loop traces of C02/C06',
        ref='DESIGN.md 4/C08'),
    'C17': dict(
        technique='TLA+ reference state machine of indexing (Indexing.tla); the recorded steps of the real operator are replayed by TLC, which '
                  'predicts the handlers that run and the full contents of every index after each step; gate scenarios judged by the same module',
        text='[+ Kits.tla: the readiness gate is a ToggleSet -- the real aiotoggles classes under seeded schedules validated by Trace_Kits] [+ objects are incarnations (uid): an object re-created under its name while the worker of the old one is still busy] [+ Gate.tla: readiness gate x worker limit, handlers only after the initial index, startup terminates; witness of F16] Random histories (adds, edits, label toggles, deletes over 3 objects with colliding keys, 2 indices, results: mapping / scalar / '
             'None / temporary / permanent / arbitrary error) run on the real operator; an on.event handler dumps the indices through the '
             'kwarg views after every event; TLC replays each trace through Indexing.tla and requires equality of the handler sets and of all '
             'index contents. The readiness gate is exercised with delayed listings of two indexed kinds and objects arriving meanwhile.',
        note='design-level exhaustive exploration is by trace replay only for this module (the reference is deterministic); F16 is the known '
             'startup deadlock with worker_limit',
        ref='DESIGN.md 4/C17'),
    'C09': dict(
        technique='TLA+ models of the daemon lifecycle (Daemons.tla; the implementation-shaped Spawning.tla) checked exhaustively with TLC; recorded '
                  'executions of the real operator with scripted daemons validated by TLC step by step against Spawning.tla (Trace_Spawning.tla) '
                  'and against a TLA+ property automaton (DaemonMonitor.tla); configurations and histories drawn by TLC (-simulate on Sim_Spawning) '
                  'replayed into the real operator',
        text='[+ explicit zero backoffs] [+ known family F9 in the mixed histories (Handling!Family_F9)] TLC explores every interleaving of label toggles, deletion and daemon reactions for one object/one daemon (3 reaction kinds); '
             'the clauses that hold are invariants, the known families F5 and F18 are shown by witness configurations. Random histories '
             '(toggles, edits, graceful deletion, forced finalizer removal, operator exit; 1-2 daemons + a timer; obey / needs-cancel / '
             'swallows-cancel / exits-on-its-own; backoff x timeout) run on the real operator in virtual time; TLC evaluates the C09 clauses '
             'on every recorded execution and attributes violations to the families. The watchdog turns an event-loop stall into a violation '
             '(F1, fixed in b6c0de9). Spawning.tla has one action per code section of process_spawning_cause / stop_daemons (stages by the age '
             'of the stop flag, instant-exit windows) / _runner / the exiting daemon_killer / apply (patch | sleep | touch); TLC checks its '
             'invariants, the bounded completion of a deletion for 96 timed configurations, negative and witness configurations, and explains '
             'every recorded execution as one of its behaviours (a spawn, flag, cancellation, finalizer write, sleep or touch too early or too '
             'late is a rejection). The pausing branch (a foreign peering record pauses the operator: a round of stop_daemon() per second, streams closed '
             'a moment after the toggle, re-listing on resume) is part of the model and of the executions. Synchronous daemons and timers run as virtual threads.',
        note='threads advance in lock-step with the virtual loop (no preemption inside a thread); Spawning.tla has spawning handlers only (the mix '
             'with change handlers on one object is judged by the automaton); flag observation requires the scripted daemon to wait on `stopped`',
        ref='DESIGN.md 4/C09'),
    'C10': dict(
        technique='explicit TLA+ transcription of the timer loop (Timers.tla) checked exhaustively with TLC; start/end instants of the real '
                  'timer function in virtual time validated by TLC against the specification (Trace_Timers.tla)',
        text='[+ a sibling timer of the same object, spawned together, stopped by its own filter: the timer under test stays on its schedule] [+ the object leaves and re-enters the timer filters: Unmatch / Rematch / Respawn in Timers.tla (a new instance only once the old one has fully ended, never after an own exit), model-checked with two toggles and bound by label toggles in the scenarios] [+ zero delays and zero backoffs: the retry starts at once; AfterTemp states the exact instant] [+ no change-detecting handler at all: family F6 as a named deviation of the trace specification] FirstRun, NoOverlap, IdleLaw, AfterOk, AfterOkSharp, AfterTemp, AfterExc and PermanentEndsIt hold in every state of the model '
             '(7 configurations x durations x outcome scripts x change instants, ~3 million states). The real operator runs one timer per '
             'scenario under a virtual clock; since the specification is deterministic given the environment\'s choices, a trace is accepted '
             'only if every start instant is exactly the one the laws give. The check showed F2 (fixed: 9a87981) and F1 (fixed: b6c0de9).',
        note='integer virtual seconds; zero PATCH latency; a change-detecting no-op handler is registered so that the diff-base exists '
             '(without one every event resets idling: F6, documented)',
        ref='DESIGN.md 4/C10'),
    'C15': dict(
        technique='TLA+ reference of handler selection (Filters.tla, an executable reading of docs/filters.rst) checked by TLC over the '
                  'declaration x state space; real decorators/registries run on the same space, records judged by TLC; closed-loop stealth traces',
        text='[+ the criteria in the closed loop: several update handlers of different criteria on one object, edits at rest and in mid-cycle] [+ crowd runs: a sixth of the scenarios again with a namesake kind (same plural, another group), a namesake object and a second object of the main kind on a schedule of their own; the log is reduced to the main object and validated by the unchanged single-object specifications: every object behaves as if it were alone] [+ the resource-selector criterion also on kinds re-described at runtime (same group/version/plural, other categories / shortcuts / preferred version)] [+ the resource selector: Filters!SelMatches (group, version vs preferred, kind/plural/singular/shortcut/category/any-name/EVERYTHING/callable, Kubernetes events excluded) vs the real Selector.check and the registry] Every declaration of the criteria alphabet (9 handler kinds x label criteria incl. two keys x field/value criteria x old/new x '
             'when) is registered through the real kopf.on.* decorators; every object/old/new state becomes a real cause; the real registry\'s '
             'selection is compared with Filters!Matches for each pair by TLC (bounded-exhaustive, 50-200k pairs). De-duplication by (fn, id) '
             'and the stealth guarantee (closed loop, Trace_Handling: Stealth) are part of the check. Families F10, F11 are TLA+ predicates.',
        note='@kopf.on.field with non-update causes is outside the judged space (docs ambiguous); selectors and annotation criteria share '
             'the code path of label criteria and are sampled, not enumerated',
        ref='DESIGN.md 4/C15'),
    'C16': dict(
        technique='TLA+ specification of annotation-name validity and key shape over code-point sequences (Keys.tla) checked by TLC; real '
                  'key forming and storages run on bounded-exhaustive/boundary/hypothesis ids, records judged by TLC',
        text='[+ the last-handled state through every diff-base storage: empty and falsy essences, an older state already on the object] ValidKey (Kubernetes name syntax), the V2/V1 key shape (safe characters, 63-character cut, hash suffix), stability across '
             'interpreter processes with different hash seeds, distinctness of long ids with a common prefix, and store/fetch/purge round '
             'trips with isolation of neighbours, other prefixes and user data, through 5 storage configurations; every record is judged by '
             'Keys!ClassifyC16 in TLC. Family F7 is a TLA+ predicate.',
        note='the hash suffix is opaque to the specification (shape only); distinctness is observed on sampled pairs, not proved',
        ref='DESIGN.md 4/C16'),
    'C18': dict(
        technique='TLA+ reference of the admission response (Admission.tla over JV.tla: RFC 7386 merge, RFC 6902 application incl. move/copy); '
                  'the real serve_admission_request run on systematic combinations, records judged by TLC; TLA+ reference of the announced webhook configuration and of an API server\'s dispatch (Webhooks.tla, the law model-checked in MC_Webhooks) judging the real build_webhooks; implementation-shaped TLA+ model of the managed-configuration wake-up chain (Managed.tla) model-checked over all interleavings and bound by trace validation of the real operator (Trace_Managed)',
        text='[+ Managed.tla: the wake-up chain of the managed configurations (container, condition_chain, the two managers, the orchestrator, the observers; asyncio Lock / Condition as they behave) model-checked for every interleaving: no update lost, no deadlock, liveness; two witnesses; bound by Trace_Managed to the lock / condition events, revisions and builds of every managed closed-loop run; MC_Webhooks: the announcement law for 1.17 M declaration x cluster x review combinations] [+ Webhooks.tla: the announcing side -- the entry build_webhooks must produce, an API server\'s dispatch of a grid of reviews through it, and the law "sent to the webhook iff the declared criteria hold"; bound to records of the real build_webhooks and to the configuration objects a real operator with managed webhooks leaves in the cluster (kinds that come and go, client configs on a schedule, only persistent handlers after the exit)] [+ a kind served in two versions, handlers that name a version or none: Admission!SelectedH has the version clause] [+ the filters of the handlers (labels, field/value, when) in the selection, judged on the reviewed object with a differing other object] allowed iff no selected handler raised; message/code from the most specific error; warnings in order; exactly the selected '
             'handlers ran (webhook id, operation, subresource, mutating-on-DELETE opt-in); the returned JSON patch applied to the reviewed '
             'object equals the transformations applied to the RFC 7386 merge of the instructions, up to empty mappings - decided by TLC for '
             'every record of the real code. Families F12, F13, F24 are TLA+ predicates.',
        note='pointers are tokenised by an independent RFC 6901 decoder; filters on labels/annotations/fields are covered by C15',
        ref='DESIGN.md 4/C18'),
    'C04': dict(
        technique='TLA+ reference semantics of essence and diff (Essence.tla over JV.tla); TLC checks the diff laws on the reference for all '
                  'pairs of small bodies; records of the real essence/diff functions are judged by TLC (ClassifyC04)',
        text='[+ the narrowed old / new as the functions are given them when several field handlers run in one cycle] [+ crowd runs: a sixth of the scenarios again with a namesake kind (same plural, another group), a namesake object and a second object of the main kind on a schedule of their own; the log is reduced to the main object and validated by the unchanged single-object specifications: every object behaves as if it were alone] [+ ReplicaSet-owned-by-Deployment bodies in the echo runs; an echo after a restart with a fresh storage object] [+ echo records: the last-handled state fetched back after the framework\'s own write equals the essence of the object, empty essences included] [+ ordinary annotations of look-alike domains (keys that merely begin with a managed prefix)] DiffSound / DiffComplete / ReduceExact hold on the reference for 810 900 (quick) or 9.8 million (thorough) pairs of bodies. '
             'The real diffbase.build + progress.clear, storages\' store/purge/touch, finalizer edits, diffs.diff and diffs.reduce are run on '
             'bounded-exhaustive bodies x 4 storage configurations (x extra fields) and on hypothesis-generated documents; TLC decides for '
             'every record: own / foreign-Kopf writes invisible, other edits visible, essence equal to the reference Essence, diffs equal to '
             'the reference, sound and complete. Known families F4, F19, F23 are recognised by TLA+ predicates only.',
        note='annotation keys are split lexically (prefix/name) for the specification; closed-loop self-triggering is covered by C03 (no '
             'writes at quiescence); JSON numbers are small integers',
        ref='DESIGN.md 4/C04'),
    'C02': dict(
        technique='explicit TLA+ model of the closed loop of one object (Handling.tla) checked exhaustively with TLC; traces of the real '
                  'kopf.operator() in the world simulator validated by TLC against the specification (Trace_Handling.tla)',
        text='[+ crowd runs: a sixth of the scenarios again with a namesake kind (same plural, another group), a namesake object and a second object of the main kind on a schedule of their own; the log is reduced to the main object and validated by the unchanged single-object specifications: every object behaves as if it were alone] [+ histories and handler outcomes drawn by TLC (-simulate on Sim_Handling) replayed into the real operator] [+ OnceMonitor.tla: the statement as a property automaton over runs with a parent handler, two scripted sub-handlers, a sibling, mid-cycle edits (resume superseded by update) and graceful restarts] recorded progress governs invocation: InvokeGoverned (record in the processed view: not finished, retry = recorded attempts, delay elapsed), CloseExactlyWhenDone, AtMostOnce with all doors closed; the negative configuration shows a kill re-opens the door' ' -- checked by TLC on Handling.tla for every interleaving of the bounded configurations, and on every state of '
             'the behaviour that explains each recorded trace of the real operator (seeded random scenarios of profile progress + errors; every '
             'PATCH is compared with the specification\'s server object field by field, virtual time is bound by urgency). Daemons and timers '
             'hold the finalizer too: the daemon executions of C09 are validated against Spawning.tla (Trace_Spawning: every finalizer write must '
             'be the one the specification makes, invariant FinalizerHeld in every state) and by the release clause of DaemonMonitor.tla; '
             'daemons BESIDE change handlers on one object are part of Handling.tla itself (conf.dh; MC_Handling_mixed_q, witness mixed_w; histories of profile mixed).',
        note='one object, one operator at a time; handlers are coroutines or (every fifth history) plain functions run in virtual threads, with scripted outcomes; handler timeouts and '
             'on.event results are not in the model (sub-handlers are: conf.subs); known findings are excused only through the family predicates of Handling.tla',
        ref='DESIGN.md 4/C02'),
    'C03': dict(
        technique='explicit TLA+ model of the closed loop of one object (Handling.tla) checked exhaustively with TLC; traces of the real '
                  'kopf.operator() in the world simulator validated by TLC against the specification (Trace_Handling.tla)',
        text='[+ ConvergeMonitor.tla: sub-handlers of sub-handlers -- at rest no record of any level remains, the last-handled state is the final one, every handler of every level has succeeded on it] [+ crowd runs: a sixth of the scenarios again with a namesake kind (same plural, another group), a namesake object and a second object of the main kind on a schedule of their own; the log is reduced to the main object and validated by the unchanged single-object specifications: every object behaves as if it were alone] [+ histories with sub-handlers run to quiescence] [+ multi-step deletions and retries at once in the histories] [+ TLC-drawn histories (Sim_Handling); histories of the consistency and finalizer profiles; user transformations carried forward] TerminalConverged on configurations without doors / with kills, stops, restarts, re-listings; Termination under weak fairness; witness configurations for the known families F8, F20, F21, F22; histories run to quiescence: final state Converged (or excused by a known family) and no PATCH in the tail window' ' -- checked by TLC on Handling.tla for every interleaving of the bounded configurations, and on every state of '
             'the behaviour that explains each recorded trace of the real operator (seeded random scenarios of profile converge; every '
             'PATCH is compared with the specification\'s server object field by field, virtual time is bound by urgency). Daemons and timers '
             'hold the finalizer too: the daemon executions of C09 are validated against Spawning.tla (Trace_Spawning: every finalizer write must '
             'be the one the specification makes, invariant FinalizerHeld in every state) and by the release clause of DaemonMonitor.tla; '
             'daemons BESIDE change handlers on one object are part of Handling.tla itself (conf.dh; MC_Handling_mixed_q, witness mixed_w; histories of profile mixed).',
        note='one object, one operator at a time; handlers are coroutines or (every fifth history) plain functions run in virtual threads, with scripted outcomes; handler timeouts and '
             'on.event results are not in the model (sub-handlers are: conf.subs); known findings are excused only through the family predicates of Handling.tla',
        ref='DESIGN.md 4/C03'),
    'C06': dict(
        technique='explicit TLA+ model of the closed loop of one object (Handling.tla) checked exhaustively with TLC; traces of the real '
                  'kopf.operator() in the world simulator validated by TLC against the specification (Trace_Handling.tla)',
        text='[+ TickMonitor.tla: the object is held while a timer\'s function runs, which is never cancelled; F38 (known finding) named by Handling!Family_F38, shown in the model by MC_Handling_neg_f38] [+ crowd runs: a sixth of the scenarios again with a namesake kind (same plural, another group), a namesake object and a second object of the main kind on a schedule of their own; the log is reduced to the main object and validated by the unchanged single-object specifications: every object behaves as if it were alone] [+ multi-step deletions (a second deletion handler, retries at once); the known family F9 (deletion handlers started anew while the object is held for a stopping daemon) named by Handling!Family_F9 on the validated prefix of a livelocked run] NeverEarly (the finalizer is withdrawn from a deleting object only after every mandatory matching deletion handler has finished), ForeignUntouched, FollowsMatching, with foreign finalizer edits, toggles, deletions and 422 conflicts' ' -- checked by TLC on Handling.tla for every interleaving of the bounded configurations, and on every state of '
             'the behaviour that explains each recorded trace of the real operator (seeded random scenarios of profile finalizer; every '
             'PATCH is compared with the specification\'s server object field by field, virtual time is bound by urgency). Daemons and timers '
             'hold the finalizer too: the daemon executions of C09 are validated against Spawning.tla (Trace_Spawning: every finalizer write must '
             'be the one the specification makes, invariant FinalizerHeld in every state) and by the release clause of DaemonMonitor.tla; '
             'daemons BESIDE change handlers on one object are part of Handling.tla itself (conf.dh; MC_Handling_mixed_q, witness mixed_w; histories of profile mixed).',
        note='one object, one operator at a time; handlers are coroutines or (every fifth history) plain functions run in virtual threads, with scripted outcomes; handler timeouts and '
             'on.event results are not in the model (sub-handlers are: conf.subs); known findings are excused only through the family predicates of Handling.tla',
        ref='DESIGN.md 4/C06'),
    'C07': dict(
        technique='explicit TLA+ model of the closed loop of one object (Handling.tla) checked exhaustively with TLC; traces of the real '
                  'kopf.operator() in the world simulator validated by TLC against the specification (Trace_Handling.tla)',
        text="[+ FreshMonitor.tla: the statement as a property automaton over runs with a raw-event handler whose result is patched on every event and a watch stream late by L seconds; raw handlers must see every line at once] FreshOrTimedOut (a change handler runs on a view at least as new as the worker's own last patch, or after the consistency timeout since it); worker locals expected_version/consistency_time are bound from the q.proc.begin hook; echo delays are produced by holding watch lines" ' -- checked by TLC on Handling.tla for every interleaving of the bounded configurations, and on every state of '
             'the behaviour that explains each recorded trace of the real operator (seeded random scenarios of profile consistency; every '
             'PATCH is compared with the specification\'s server object field by field, virtual time is bound by urgency). Daemons and timers '
             'hold the finalizer too: the daemon executions of C09 are validated against Spawning.tla (Trace_Spawning: every finalizer write must '
             'be the one the specification makes, invariant FinalizerHeld in every state) and by the release clause of DaemonMonitor.tla; '
             'daemons BESIDE change handlers on one object are part of Handling.tla itself (conf.dh; MC_Handling_mixed_q, witness mixed_w; histories of profile mixed).',
        note='one object, one operator at a time; handlers are coroutines or (every fifth history) plain functions run in virtual threads, with scripted outcomes; handler timeouts and '
             'on.event results are not in the model (sub-handlers are: conf.subs); known findings are excused only through the family predicates of Handling.tla',
        ref='DESIGN.md 4/C07'),
    'C11': dict(
        technique='explicit TLA+ model of the closed loop of one object (Handling.tla) checked exhaustively with TLC; traces of the real '
                  'kopf.operator() in the world simulator validated by TLC against the specification (Trace_Handling.tla)',
        text='[+ crowd runs: a sixth of the scenarios again with a namesake kind (same plural, another group), a namesake object and a second object of the main kind on a schedule of their own; the log is reduced to the main object and validated by the unchanged single-object specifications: every object behaves as if it were alone] [+ crowd runs: a sixth of the scenarios again with a namesake kind (same plural, another group), a namesake object and a second object of the main kind on a schedule of their own; the log is reduced to the main object and validated by the unchanged single-object specifications: every object behaves as if it were alone] [+ Kits.tla: what aiotime.sleep returns, 1040 records of the real coroutine incl. instants and delays that are no round numbers] [+ Activities.tla: whole activities (the reference of one invocation iterated over the rounds) vs the real run_activity with scripted handlers that end in different rounds: attempt instants, per-handler verdicts, the verdict of the activity] [+ re-listings whose snapshot predates the own patch and is delivered after it (patch latency, list answer latency, compaction)] [+ Execution.tla: reference of one invocation - timeout / retries before the attempt, look-ahead for temporary and arbitrary errors, error modes, backoff - laws checked by TLC over 143 360 input combinations; the real execute_handler_once on configurations x states (incl. runtimes beyond 24 h) x behaviours for an activity and a change handler judged by TLC] retry numbering, delays (a handler is never invoked before its recorded delay), permanence, ignored mode and the retries limit for change handlers incl. across kills/restarts (RetriesBounded, InvokeGoverned); records after every PATCH are compared field by field' ' -- checked by TLC on Handling.tla for every interleaving of the bounded configurations, and on every state of '
             'the behaviour that explains each recorded trace of the real operator (seeded random scenarios of profile errors; every '
             'PATCH is compared with the specification\'s server object field by field, virtual time is bound by urgency). Daemons and timers '
             'hold the finalizer too: the daemon executions of C09 are validated against Spawning.tla (Trace_Spawning: every finalizer write must '
             'be the one the specification makes, invariant FinalizerHeld in every state) and by the release clause of DaemonMonitor.tla; '
             'daemons BESIDE change handlers on one object are part of Handling.tla itself (conf.dh; MC_Handling_mixed_q, witness mixed_w; histories of profile mixed).',
        note='one object, one operator at a time; handlers are coroutines or (every fifth history) plain functions run in virtual threads, with scripted outcomes; handler timeouts and '
             'on.event results are not in the model (sub-handlers are: conf.subs); known findings are excused only through the family predicates of Handling.tla',
        ref='DESIGN.md 4/C11'),
    'C14': dict(
        technique='explicit TLA+ model of the closed loop of one object (Handling.tla) checked exhaustively with TLC; traces of the real '
                  'kopf.operator() in the world simulator validated by TLC against the specification (Trace_Handling.tla)',
        text='[+ crowd runs: a sixth of the scenarios again with a namesake kind (same plural, another group), a namesake object and a second object of the main kind on a schedule of their own; the log is reduced to the main object and validated by the unchanged single-object specifications: every object behaves as if it were alone] [+ restarts over an object that is being deleted, with and without deleted=True] ResumeOnce per process (modulo the stale-view door), resume handlers mixed into update/delete causes, re-listings (410) and restarts' ' -- checked by TLC on Handling.tla for every interleaving of the bounded configurations, and on every state of '
             'the behaviour that explains each recorded trace of the real operator (seeded random scenarios of profile resume; every '
             'PATCH is compared with the specification\'s server object field by field, virtual time is bound by urgency). Daemons and timers '
             'hold the finalizer too: the daemon executions of C09 are validated against Spawning.tla (Trace_Spawning: every finalizer write must '
             'be the one the specification makes, invariant FinalizerHeld in every state) and by the release clause of DaemonMonitor.tla; '
             'daemons BESIDE change handlers on one object are part of Handling.tla itself (conf.dh; MC_Handling_mixed_q, witness mixed_w; histories of profile mixed).',
        note='one object, one operator at a time; handlers are coroutines or (every fifth history) plain functions run in virtual threads, with scripted outcomes; handler timeouts and '
             'on.event results are not in the model (sub-handlers are: conf.subs); known findings are excused only through the family predicates of Handling.tla',
        ref='DESIGN.md 4/C14'),
    'C01': dict(
        technique='explicit TLA+ model of the multiplexer (Queueing.tla) checked exhaustively with TLC incl. liveness; traces of the '
                  'real watcher/worker/scheduler (q.* hooks) recorded under a virtual clock and validated by TLC against the spec '
                  '(Trace_Queueing.tla, with time urgency)',
        text='[+ Scheduling.tla: the pool of the per-object workers (aiotasks.Scheduler) as a model and bound by Trace_Scheduling: FIFO hand-over, the limit, nothing startable left waiting while time passes, close() owns everything] [+ deliveries, not versions, are the events: re-listings while workers are busy or idle but alive] [+ a cluster-scoped kind served by an operator restricted to several namespaces: one stream, every event once] TLC visits every interleaving of arrivals, scheduler starts, idle-timeout expiries (enabled whether or not the backlog '
             'was just filled), processing ends and watcher cancellation for 2-3 objects x 2-3 events under worker limits '
             '{unlimited, 1, 2}; the negative configuration shows the invariants detect the lost event. The real operator is then run '
             'in the world simulator on crafted and seeded-random timed scenarios that force exactly those schedules (an arrival at '
             'the very instant of the idle deadline, before its timer runs), and every recorded trace must be explained by the '
             'specification with all invariants true and with no urgent operator step pending when virtual time advances.',
        note='event identity is (uid, resourceVersion) renamed to per-object ordinals by the server log; scenarios do not re-list; '
             'after watcher cancellation events still queued may be dropped once exit_timeout passes (allowed by the statement)',
        ref='DESIGN.md 4/C01'),
    'C05': dict(
        technique='TLA+ reference classifier (Causes.tla) model-checked exhaustively with TLC; every input combination '
                  'materialised as a real body and run through the real _detect_causes/process_changing_cause, records judged by TLC',
        text='[+ crowd runs: a sixth of the scenarios again with a namesake kind (same plural, another group), a namesake object and a second object of the main kind on a schedule of their own; the log is reduced to the main object and validated by the unchanged single-object specifications: every object behaves as if it were alone] [+ a namesake kind with a field handler is seen first: extra fields are per kind] TLC checks the precedence and exclusivity laws on the reference classifier for all 128 input combinations; the same '
             'operator judges 1152 records produced by the real code (all combinations x 3 storage configurations x foreign '
             'finalizers) and, at system level, every handler invocation of the closed-loop Handling traces. Exhaustive over the '
             'classifier inputs, which is the right level for a finite decision list.',
        note='essence/diff computation is taken from kopf here (C04 judges it); handler kinds judged: create, update, delete '
             '(mandatory/optional), resume (deleted=False/True); on.field is outside the judged space',
        ref='DESIGN.md 4/C05'),
}

NOT_YET = 'check not built yet in this round (planned in DESIGN.md section 4); not claimed until it runs green and catches its mutants'
ALL = [f'C{n:02d}' for n in range(1, 21)]


def build() -> dict:
    checks = []
    for pid, c in sorted(CHECKS.items()):
        checks.append({
            'property_id': pid,
            'quick_cmd': f'./check {pid} --tier quick',
            'thorough_cmd': f'./check {pid} --tier thorough',
            'evidence_file': f'/verif/evidence/{pid}.json',
            'replay_cmd_template': f'./check {pid} --replay {{path}}',
            'engine': 'tlc+worldsim',
            'level_claimed': {'category': 'model_checking', 'text': c['text'], 'design_ref': c['ref']},
            'level_note': c['note'],
            'technique': c['technique'],
        })
    return {
        'version': 1,
        'setup_cmd': './setup.sh',
        'hooks': {
            'guard': GUARD,
            'enable': f'environment variable {GUARD}=1 (set by ./check); kopf is imported from the working tree of /repo',
            'baseline_off_cmd': 'cd /repo && env -u KOPF_VERIF_TRACE /venv/bin/python -m pytest -ra -q -p no:cacheprovider --timeout=900 --continue-on-collection-errors',
            'source_commits': HOOK_COMMITS,
            'add_only': True,
        },
        'engines': [
            {'name': 'tlc+worldsim', 'path': '/verif/check',
             'serves_properties': sorted(CHECKS),
             'kind_free_text': 'TLA+ specification library (spec/) checked with TLC; real kopf executed in a deterministic world '
                               'simulator (sim/: virtual time, stateful fake API); traces and records judged by TLC against the '
                               'specification; TLC-generated behaviours replayed into the implementation'},
        ],
        'checks': checks,
        'notes': 'One runner: ./check <id> --tier quick|thorough [--seed N]. Exit 0/1/2 (2 = machinery failure only). '
                 'known_findings.json lists genuine defects recorded rather than repaired (matched by TLA+ family predicates).',
        'not_applicable': [{'property_id': p, 'reason': NOT_APPLICABLE.get(p, NOT_YET)} for p in ALL if p not in CHECKS],
    }


import subprocess as _sp
HOOK_COMMITS: list[str] = _sp.run(['git', '-C', '/repo', 'log', '--reverse', '--format=%h', '--grep=^verif hooks'],
                                  stdout=_sp.PIPE, text=True).stdout.split()
NOT_APPLICABLE: dict[str, str] = {}

if __name__ == '__main__':
    m = build()
    with open(os.path.join(ROOT, 'MANIFEST.json'), 'w') as f:
        json.dump(m, f, indent=1)
        f.flush()
    import subprocess
    subprocess.run(['python3-vt', '-c', 'import json, jsonschema; jsonschema.validate(json.load(open("/verif/MANIFEST.json")), '
                    'json.load(open("/root/.vp/MANIFEST.schema.json")))'], check=True)
    print('MANIFEST.json written:', len(m['checks']), 'checks,', len(m['not_applicable']), 'not claimed')
