"""Step conformance of the watch streams (C19, Streaming.tla): every watcher task of a recorded execution is cut out of the
recorder's log as one trace and validated by Trace_Streaming in TLC.

The converter renames and orders; it does not infer state: a watcher's life runs from its `q.start` hook to the `q.depleting`
hook of the same scheduler, its requests are the `srv.req` / `srv.fault` records of its (operator, resource, namespace), its
lines and connection ends are the `srv.watch.*` records of the watch ids those requests opened, its hand-overs to the
multiplexer are the `q.put` / `q.new` hooks of that operator and resource, and pauses are the `peer.eval` hooks of the operator.
"""
from __future__ import annotations

import json
import os
import re
import shutil
import tempfile
from typing import Any

from vf import tlc
from vf.evidence import MachineryFailure


def conf_of(settings: dict[str, Any]) -> dict[str, Any]:
    return {'backoff': int(settings.get('backoff', 1)), 'eb': [int(x) for x in settings.get('eb', (1, 1))],
            'ra': int(settings.get('ra', 2)), 'cli': int(settings.get('cli') or 0), 'ina': int(settings.get('ina') or 0), 'limit': 0}


def conf_from_settings(settings: Any) -> dict[str, Any] | None:
    """The configuration of Streaming.tla as the operator's settings have it (None: not in whole seconds, not bindable)."""
    eb = settings.networking.error_backoffs
    eb = list(eb) if hasattr(eb, '__iter__') else [eb]
    ina = settings.watching.inactivity_timeout
    vals = [settings.watching.reconnect_backoff, *eb, settings.watching.client_timeout or 0, ina or 0]
    if any(float(v) != int(v) for v in vals):
        return None
    return {'backoff': int(settings.watching.reconnect_backoff), 'eb': [int(x) for x in eb], 'ra': 2,
            'cli': int(settings.watching.client_timeout or 0), 'ina': int(ina) if ina and ina < 1_000_000 else 0,
            'limit': int(settings.queueing.worker_limit or 0)}


def _fault_name(e: dict[str, Any]) -> str:
    if e.get('fault') == 'status':
        if e.get('code') == 429:
            return '429ra' if e.get('ra') else '429'
        return str(e.get('code'))
    return str(e.get('fault'))


def segments(raw: list[dict[str, Any]], conf: dict[str, Any], rid: str, plurals: set[str] | None = None,
             uid_ns: dict[str, str] | None = None, end_t: int | None = None, pausable: set[str] | None = None) -> list[dict[str, Any]]:
    """Cut the recorder's log into one trace per watcher task."""
    cur: dict[tuple, dict[str, Any]] = {}          # (loop, plural, ns) -> the running segment
    by_sched: dict[tuple, dict[str, Any]] = {}
    by_watch: dict[int, dict[str, Any]] = {}
    held: dict[int, list[dict[str, Any]]] = {}     # catch-up lines are recorded before the request that opened their watch
    paused: dict[str, set[str]] = {}               # loop -> blockers that are on
    out: list[dict[str, Any]] = []
    nonint = False

    def key(e: dict[str, Any], plural: str) -> tuple:
        return (e.get('loop'), plural, e.get('ns') or '*')
    for e in raw:
        ev = e['ev']; t = e['t']
        if not isinstance(t, int):
            nonint = True
        if ev == 'q.start':
            plural = e.get('res')
            if plurals is not None and plural not in plurals:
                continue
            k = key(e, plural)
            seg = {'id': f'{rid}/{k[0]}/{plural}|{k[2]}#{sum(1 for s in out if s["key"] == k) + 1}', 'key': k, 'conf': conf, 't0': t,
                   'paused0': sorted(paused.get(e.get('loop'), set())) if pausable is None or plural in pausable else [], 'events': [{'ev': 'spawn', 't': t}], 'open': True}
            cur[k] = seg; by_sched[(e.get('loop'), e.get('sched'))] = seg; out.append(seg)
        elif ev == 'op.kill':           # the process is gone: nothing more is heard of its watchers
            for k in [k for k in cur if k[0] == e.get('loop')]:
                cur.pop(k)['open'] = False
            for k in [k for k in by_sched if k[0] == e.get('loop')]:
                by_sched.pop(k)
            for w in [w for w, sg in by_watch.items() if sg['key'][0] == e.get('loop')]:
                by_watch.pop(w)
        elif ev == 'q.depleting':
            seg = by_sched.pop((e.get('loop'), e.get('sched')), None)
            if seg is not None and seg['open']:
                seg['events'].append({'ev': 'exit', 't': t}); seg['open'] = False
                if cur.get(seg['key']) is seg:
                    del cur[seg['key']]
        elif ev == 'srv.req' and e.get('kind') in ('list', 'watch') and e.get('plural') is not None:
            seg = cur.get(key(e, e['plural']))
            if seg is None:
                continue
            if e.get('code') == 200 and e['kind'] == 'list':
                seg['events'].append({'ev': 'list', 't': t, 'rv': int(e['listrv']), 'rvs': [int(x) for x in e.get('rvs', [])]})
            elif e.get('code') == 200:
                seg['events'].append({'ev': 'open', 't': t, 'since': int(e.get('since') or 0), 'w': e['watch']})
                by_watch[e['watch']] = seg
                for h in held.pop(e['watch'], []):
                    h['t'] = t; seg['events'].append(h)
            else:
                seg['events'].append({'ev': 'fail', 't': t, 'route': 'list' if e['kind'] == 'list' else 'open', 'f': str(e.get('code'))})
        elif ev == 'srv.fault' and e.get('route') in ('list', 'watch') and e.get('plural') is not None:
            seg = cur.get(key(e, e['plural']))
            if seg is not None:
                seg['events'].append({'ev': 'fail', 't': t, 'route': 'list' if e['route'] == 'list' else 'open', 'f': _fault_name(e)})
        elif ev == 'srv.watch.line':
            ty = e.get('type')
            if ty == 'ERROR':
                ty = 'ERROR410' if e.get('code') == 410 else 'ERROR'
            line = {'ev': 'line', 't': t, 'w': e['watch'], 'type': ty, 'rv': int(e.get('rv') or 0)}
            seg = by_watch.get(e['watch'])
            if seg is not None:
                seg['events'].append(line)
            else:
                held.setdefault(e['watch'], []).append(line)
        elif ev == 'srv.watch.end':
            seg = by_watch.get(e['watch'])
            end = {'ev': 'end', 't': t, 'w': e['watch'], 'how': e.get('how')}
            if seg is not None:
                seg['events'].append(end)
            else:
                held.setdefault(e['watch'], []).append(end)
        elif ev in ('q.put', 'q.new'):
            cands = [s for k, s in cur.items() if k[0] == e.get('loop') and k[1] == e.get('res')]
            if len(cands) > 1 and uid_ns is not None:
                cands = [s for s in cands if s['key'][2] == uid_ns.get(e.get('uid'), '*')]
            if len(cands) == 1:
                cands[0]['events'].append({'ev': 'put', 't': t, 'rv': int(e.get('rv') or 0)})
            elif len(cands) > 1:
                for s in cands:
                    s['noputs'] = True
        elif ev == 'tog.paused':        # the effective state of operator_paused has changed (observed from outside, sim/opsim.py)
            s = paused.setdefault(e.get('loop'), set())
            if bool(e['on']) != ('p' in s):
                (s.add if e['on'] else s.discard)('p')
                for k, seg in cur.items():
                    if k[0] == e.get('loop') and (pausable is None or k[1] in pausable):
                        seg['events'].append({'ev': 'pause', 't': t, 'b': 'p', 'on': bool(e['on'])})
    for seg in out:
        if seg['open'] and end_t is not None:
            seg['events'].append({'ev': 'quiet', 't': end_t})
        seg['bindable'] = not nonint and not seg.get('noputs')
    return out


_RE = re.compile(r'<<\s*"VERDICT",\s*(\d+),\s*"([^"]*)",\s*(-?\d+),\s*(\d+)\s*>>')


def judge(traces: list[dict[str, Any]], rep: Any, on410: str = 'relist') -> dict[str, dict[str, Any]]:
    if not traces:
        return {}
    scratch = tempfile.mkdtemp(prefix='vf-st-')
    try:
        path = os.path.join(scratch, 'traces.json')
        with open(path, 'w') as f:
            json.dump([{'id': t['id'], 'conf': t['conf'], 't0': t['t0'], 'paused0': t['paused0'], 'events': t['events']} for t in traces], f)
        cfg = ('SPECIFICATION TSpec\nCONSTANTS\n  ConfSet = {}\n  Horizon = 1000000\n  On410 = "%s"\n'
               'CONSTRAINT Book\nPOSTCONDITION Verdicts\nCHECK_DEADLOCK FALSE\n' % on410)
        r = tlc.run('Trace_Streaming', cfg_text=cfg, workers=1, deque=True, env={'TRACE_FILE': path}, timeout=1800)
    finally:
        shutil.rmtree(scratch, ignore_errors=True)
    if not r.ok:
        raise MachineryFailure(f'Trace_Streaming failed: {r.violated} {r.errors}\n{r.out[-3000:]}')
    if rep is not None:
        rep.add_tlc('Trace_Streaming', r)
    got = {int(m.group(1)): m for m in _RE.finditer(r.out)}
    if len(got) != len(traces):
        raise MachineryFailure(f'Trace_Streaming printed {len(got)} verdicts for {len(traces)} traces\n{r.out[-2000:]}')
    res = {}
    for i, t in enumerate(traces, start=1):
        m = got[i]
        done, n = int(m.group(3)), int(m.group(4))
        if done >= n:
            v = 'accepted'
        else:
            v = f'rejected at event {done + 1} of {n}: {t["events"][done]} (after {t["events"][max(0, done - 3):done]})'
        res[t['id']] = {'verdict': v, 'done': done, 'n': n}
    return res
