"""Records for spec/Webhooks.tla: the real admission.build_webhooks on declared handlers x clusters (what is announced), and the id that
the real webhook server's route parses out of the announced URL; judged by TLC against the reference entry, against an API server's
dispatch rule over a grid of reviews, and against the declared criteria (the serving side's reading: Admission.tla)."""
from __future__ import annotations

import asyncio
import itertools
import random
import urllib.parse
from typing import Any

from vf import records


def _cluster(rnd: random.Random) -> list[dict[str, Any]]:
    rs = [dict(group='example.com', version='v1', plural='things', kind='Thing', singular='thing', shortcuts=['th'], categories=['catx'], preferred=True),
          dict(group='example.com', version='v1beta1', plural='things', kind='Thing', singular='thing', shortcuts=['th'], categories=['catx'], preferred=False),
          dict(group='other.io', version='v1', plural='things', kind='Thing', singular='thing', shortcuts=[], categories=[], preferred=True),
          dict(group='example.com', version='v1', plural='widgets', kind='Widget', singular='widget', shortcuts=['wd'], categories=['catx'], preferred=True),
          dict(group='', version='v1', plural='pods', kind='Pod', singular='pod', shortcuts=['po'], categories=['all'], preferred=True)]
    return [r for r in rs if rnd.random() < 0.85] or rs[:1]


SELS = [dict(group='example.com', version='v1', nt='plural', name='things'), dict(group='example.com', version='any', nt='plural', name='things'),
        dict(group='any', version='any', nt='plural', name='things'), dict(group='example.com', version='v1beta1', nt='plural', name='things'),
        dict(group='any', version='any', nt='category', name='catx'), dict(group='any', version='any', nt='kind', name='Widget'),
        dict(group='any', version='any', nt='any', name='pods'), dict(group='any', version='any', nt='everything', name=''),
        dict(group='other.io', version='any', nt='any', name='things'), dict(group='any', version='any', nt='shortcut', name='th')]
LABELS = [[], [('a', 'eq', 'x')], [('a', 'present', '')], [('a', 'absent', '')], [('a', 'callable', '')], [('a', 'eq', 'x'), ('b', 'absent', '')],
          [('b', 'present', ''), ('a', 'callable', '')], [('a', 'eq', 'y'), ('b', 'eq', 'x')], [('a', 'eq', 1)]]
IDS = ['h1', 'check_it', 'a/b', 'fn/sub.handler', 'Weird id!', 'ünï', 'a.b-c', 'x' * 70, 'a?b=c#d', 'p%20q', 'h 1']


def _selector_args(sel: dict[str, Any]) -> tuple[tuple, dict[str, Any]]:
    import kopf
    kw: dict[str, Any] = {}
    if sel['group'] != 'any': kw['group'] = sel['group']
    if sel['version'] != 'any': kw['version'] = sel['version']
    if sel['nt'] == 'any':
        pos = [x for x in (kw.pop('group', None), kw.pop('version', None)) if x is not None] + [sel['name']]
        return tuple(pos), {}
    if sel['nt'] == 'everything':
        return (kopf.EVERYTHING,), kw
    return (), dict(kw, **{sel['nt']: sel['name']})


def build(seed: int, n: int) -> list[dict[str, Any]]:
    import kopf
    from kopf._cogs.structs import references
    from kopf._core.engines import admission
    rnd = random.Random(f'webhooks-{seed}')
    recs: list[dict[str, Any]] = []

    def lab_of(kind: str, v: Any) -> Any:
        return {'eq': v, 'present': kopf.PRESENT, 'absent': kopf.ABSENT, 'callable': (lambda value, **_: True)}[kind]
    grid_labels = [{}, {'a': 'x'}, {'a': 'y'}, {'b': 'x'}, {'a': 'x', 'b': 'x'}, {'a': '1'}]
    for k in range(n):
        cluster = _cluster(rnd)
        resources = [references.Resource(group=r['group'], version=r['version'], plural=r['plural'], kind=r['kind'], singular=r['singular'],
                                         shortcuts=frozenset(r['shortcuts']), categories=frozenset(r['categories']), preferred=r['preferred'], namespaced=True,
                                         verbs=frozenset({'list', 'watch', 'patch'})) for r in cluster]
        reg = kopf.OperatorRegistry()
        decls = []
        ids = rnd.sample(IDS, rnd.randint(1, 4))
        typ = rnd.choice(['validating', 'mutating'])
        for hid in ids:
            sel = rnd.choice(SELS)
            ops = rnd.choice([None, None, ['CREATE'], ['UPDATE', 'DELETE'], ['CREATE', 'UPDATE'], ['DELETE'], ['CONNECT']])
            sub = rnd.choice([None, None, 'status', '*', 'scale'])
            labs = rnd.choice(LABELS)
            opts = dict(persistent=rnd.random() < 0.4, side_effects=rnd.random() < 0.4, ignore_failures=rnd.random() < 0.4)
            a, kw = _selector_args(sel)

            def fn(**_: Any) -> None:
                return None
            deco = kopf.on.validate if typ == 'validating' else kopf.on.mutate
            try:
                deco(*a, registry=reg, id=hid, operations=ops, subresource=sub, labels={k_: lab_of(kind, v) for k_, kind, v in labs} or None, **opts, **kw)(fn)
            except TypeError:
                continue
            decls.append(dict(id=hid, sel=sel, ops=list(ops or []), sub=sub or '', persistent=opts['persistent'], side_effects=opts['side_effects'],
                              ignore_failures=opts['ignore_failures'],
                              labels=[{'key': k_, 'kind': kind, 'value': str(v)} for k_, kind, v in labs]))
        handlers = [h for h in reg._webhooks.get_all_handlers()]
        base = rnd.choice(['https://host:8443', 'https://host:8443/', 'https://host/prefix', 'https://host/prefix/'])
        suffix = rnd.choice(['auto.kopf.dev', 'my-op', ''])
        use_service = rnd.random() < 0.25
        cc: dict[str, Any] = {'service': {'namespace': 'ns', 'name': 'svc', 'path': urllib.parse.urlsplit(base).path.rstrip('/')}} if use_service else {'url': base}
        for ponly in (False, True):
            out = admission.build_webhooks(handlers, resources=resources, name_suffix=suffix, client_config=cc, persistent_only=ponly)
            by_path: dict[str, dict[str, Any]] = {}
            root = urllib.parse.urlsplit(base).path.rstrip('/')
            for e in out:
                path = e['clientConfig']['service']['path'] if use_service else urllib.parse.urlsplit(e['clientConfig']['url']).path
                # what the server's route `{root}/{id:.*}` makes of the path the API server calls (aiohttp decodes the matched part)
                served = urllib.parse.unquote(path[len(root) + 1:]) if path.startswith(root + '/') else None
                by_path[served if served is not None else path] = e
            names = [e['name'] for e in out]
            for d in decls:
                e = by_path.get(d['id'])
                # reviews: every resource of the cluster (and one that is not there) x operations x subresources x labels
                reviews = [{'group': r['group'], 'version': r['version'], 'plural': r['plural'], 'op': op, 'sub': sub, 'labels': labels}
                           for r in cluster + [dict(group='nowhere.io', version='v1', plural='things')]
                           for op, sub, labels in itertools.product(['CREATE', 'UPDATE', 'DELETE', 'CONNECT'], ['', 'status', 'scale'], grid_labels)]
                rec: dict[str, Any] = {'h': d, 'res': cluster, 'suffix': suffix, 'persistent_only': ponly, 'announced': e is not None,
                                       'served_id': d['id'] if e is not None else '', 'reviews': reviews, 'others': [], 'entry': {}}
                if e is not None:
                    sel = e.get('objectSelector')
                    rec['entry'] = {'name': e['name'], 'rules': e['rules'], 'sideEffects': e['sideEffects'], 'failurePolicy': e['failurePolicy'],
                                    'selector': {'none': sel is None, 'exprs': (sel or {}).get('matchExpressions', [])}}
                    rec['others'] = [nm for nm in names if nm == e['name']][1:]
                recs.append(rec)
            # an entry that leads to no declared handler
            for key, e in by_path.items():
                if key not in {d['id'] for d in decls}:
                    recs.append({'h': decls[0] if decls else {}, 'res': cluster, 'suffix': suffix, 'persistent_only': ponly, 'announced': True,
                                 'served_id': str(key), 'reviews': [], 'others': [], 'entry': {'name': e['name'], 'rules': [], 'sideEffects': '', 'failurePolicy': '',
                                                                                                'selector': {'none': True, 'exprs': []}}})
    return recs


def stage(ctx: Any, rep: Any, label: str) -> None:
    # the design first: for every declaration x cluster x review of a small alphabet the expected entry sends a review to the webhook exactly
    # when the declared criteria hold (MC_Webhooks: Law, LawAsDocumented, NeverTooMuch); the witness NoW1 must fail (subresource "*")
    from vf import tlc
    from vf.evidence import MachineryFailure
    r = tlc.run('MC_Webhooks', 'MC_Webhooks.cfg', workers=16, timeout=1800)
    rep.add_tlc('MC_Webhooks', r)
    if not r.ok:
        rep.violation(f'{label}: Webhooks.tla: the expected entry does not dispatch as declared: {r.violated}', files={'tlc.out': r.out[-50000:]})
    w = tlc.run('MC_Webhooks', 'MC_Webhooks_w1.cfg', workers=4, timeout=600)
    rep.add_tlc('MC_Webhooks_w1 (witness)', w)
    if [v for _k, v in w.violated] != ['NoW1']:
        raise MachineryFailure(f'the witness configuration MC_Webhooks_w1 should violate NoW1, got {w.violated}')
    recs = build(ctx.seed, 60 if ctx.quick else 1500)
    bad = records.judge('Rec_Webhooks', recs, rep=rep, shard=400)
    rep.evaluations += len(recs); rep.traces += len(recs)
    w1 = 0
    for r in recs:
        if r['announced'] and r['h']:
            rep.nontrivial([r['h'], r['entry'].get('rules')])
    for i, lab in sorted(bad.items()):
        if lab == 'W1':
            w1 += 1
            continue
        rep.violation(f'{label}: webhooks: {lab}: handler={recs[i]["h"]} entry={recs[i]["entry"]}', payload={k: v for k, v in recs[i].items() if k != 'reviews'})
    if w1:
        rep.note(f'webhooks: in {w1} record(s) a handler declared with subresource="*" is announced with the rule "<plural>/*", which an API server reads as '
                 f'"every subresource, not the main resource" -- the docs say "both the main body and any subresource are checked" and the serving side would '
                 f'take the main body (docs/admission.rst); not a clause of a listed property (the review is never sent, nothing wrong is answered), noted only (Webhooks!ClassifyWebhook: W1)')
    rep.extra['webhooks'] = {'records': len(recs), 'reviews_per_record': len(recs[0]['reviews']) if recs else 0, 'noted_W1': w1}


# ---------------------------------------------------------------------------------------------------------------------
# The closed loop: the real operator with settings.admission.managed, a webhook "server" that yields client configs on a schedule, and
# kinds that come and go; at every checkpoint (at rest) and after the graceful exit the configuration objects IN THE CLUSTER are read back
# and judged by the same reference: the entry of every handler is the one Webhooks.tla expects for the kinds that are there NOW and for the
# client config yielded LAST; after the exit only the persistent handlers are left.
MANAGED = 'auto.kopf.dev'


def managed_case(sc: dict[str, Any]) -> dict[str, Any]:
    import asyncio
    import kopf
    from sim.fakek8s import ResDef
    from sim.opsim import GROUP, PLURAL, VERSION, Sim, Stall
    sim = Sim(wall_budget=20)
    sim.world.max_steps = 400_000
    try:
        conf = {'validating': sim.srv.add_resource(ResDef('admissionregistration.k8s.io', 'v1', 'validatingwebhookconfigurations', 'ValidatingWebhookConfiguration', namespaced=False)),
                'mutating': sim.srv.add_resource(ResDef('admissionregistration.k8s.io', 'v1', 'mutatingwebhookconfigurations', 'MutatingWebhookConfiguration', namespaced=False))}
        widgets = ResDef(GROUP, VERSION, 'widgets', 'Widget', namespaced=True, categories=('catx',), shortnames=('wd',))
        present = {'things'}
        if sc.get('widgets0'):
            sim.srv.add_resource(widgets, announce=True); present.add('widgets')
        if sc.get('precreated'):
            sim.srv.create(conf['validating'], None, MANAGED, {'webhooks': [{'name': 'leftover.from.before'}]})
        reg = sim.registry()

        def fn(**_: Any) -> None:
            return None
        decls = {'validating': [dict(id='vthings', sel=dict(group=GROUP, version=VERSION, nt='plural', name=PLURAL), ops=['CREATE', 'UPDATE'], sub='', persistent=True,
                                     side_effects=False, ignore_failures=False, labels=[]),
                                dict(id='v/widgets', sel=dict(group='any', version='any', nt='any', name='widgets'), ops=[], sub='', persistent=False,
                                     side_effects=True, ignore_failures=False, labels=[{'key': 'a', 'kind': 'eq', 'value': 'x'}]),
                                dict(id='vcat', sel=dict(group='any', version='any', nt='category', name='catx'), ops=['DELETE'], sub='status', persistent=False,
                                     side_effects=False, ignore_failures=True, labels=[{'key': 'b', 'kind': 'absent', 'value': ''}])],
                 'mutating': [dict(id='mall', sel=dict(group=GROUP, version='any', nt='everything', name=''), ops=[], sub='', persistent=sc.get('mpersistent', False),
                                   side_effects=False, ignore_failures=False, labels=[])]}
        kopf.on.validate(GROUP, VERSION, PLURAL, registry=reg, id='vthings', operations=['CREATE', 'UPDATE'], persistent=True)(fn)
        kopf.on.validate('widgets', registry=reg, id='v/widgets', labels={'a': 'x'}, side_effects=True)(fn)
        kopf.on.validate(category='catx', registry=reg, id='vcat', operations=['DELETE'], subresource='status', labels={'b': kopf.ABSENT}, ignore_failures=True)(fn)
        kopf.on.mutate(GROUP, kopf.EVERYTHING, registry=reg, id='mall', persistent=sc.get('mpersistent', False))(fn)
        kopf.on.event(GROUP, VERSION, PLURAL, registry=reg, id='see')(sim.handler('see', kind='event'))
        yielded: list[str] = []

        async def server(webhookfn: Any):
            t_prev = 0.0
            for k, t in enumerate(sc['configs']):
                await asyncio.sleep(max(0.0, t - t_prev)); t_prev = t
                url = f'https://host{k}.example.com:8443' + sc.get('root', '')
                yielded.append(url)
                yield {'url': url}
            await asyncio.Event().wait()
        s = sim.settings()
        s.admission.managed = MANAGED
        s.admission.server = server
        # ---- the two conditions of the operator replaced by recording ones (for Trace_Managed.tla); nothing else is touched
        from kopf._cogs.aiokits import aiovalues
        from kopf._cogs.structs import references
        from kopf._core.engines import admission as adm
        from kopf._core.reactor import observation as obsv
        mev: list[dict[str, Any]] = []
        live: dict[str, Any] = {'rec': True}
        NAMES = {'admission insights chain': 'chain', 'admission webhook server': 'server', 'admission validating configuration manager': 'V',
                 'admission mutating configuration manager': 'M', 'multidimensional multitasker': 'orch'}
        obs_names: dict[str, str] = {}
        res_ids: dict[tuple, int] = {}

        def me() -> str:
            n = asyncio.current_task().get_name()
            return NAMES[n] if n in NAMES else obs_names.setdefault(n, f'o{len(obs_names) + 1}')

        def resid(resources: Any = None) -> int:
            ins = live.get('insights')
            rs = resources if resources is not None else (ins.webhook_resources if ins is not None else ())
            key = tuple(sorted((r.group, r.version, r.plural) for r in rs))
            return res_ids.setdefault(key, len(res_ids) + 1)

        def ccid(cfg_: Any = None) -> int:
            if cfg_ is None:
                c = live.get('container')
                vals = list(c._values) if c is not None else []
                cfg_ = vals[0] if vals else None
            return 0 if cfg_ is None else 1 + yielded.index(cfg_['url'])

        def emit(ev: str, k: str, **kw: Any) -> None:
            if live['rec']:
                mev.append({'ev': ev, 'task': me(), 'k': k, 'cc': kw.pop('cc', 0), 'res': kw.pop('res', 0), **kw})

        class RLock(asyncio.Lock):
            def __init__(self, k: str) -> None:
                super().__init__(); self.k = k; self.in_wait: set[str] = set()

            async def acquire(self) -> bool:
                n = asyncio.current_task().get_name()
                if n in self.in_wait:                # Condition.wait(): notified, now re-acquiring
                    self.in_wait.discard(n); emit('cond.wake', self.k)
                if not self._locked and (self._waiters is None or all(w.cancelled() for w in self._waiters)):
                    emit('lock.now', self.k)
                    return await super().acquire()
                emit('lock.queue', self.k)
                r = await super().acquire()
                emit('lock.got', self.k)
                return r

            def release(self) -> None:
                n = asyncio.current_task().get_name()
                super().release()
                emit('cond.wait' if n in self.in_wait else 'lock.rel', self.k)

        class RCond(asyncio.Condition):
            def __init__(self, k: str) -> None:
                super().__init__(lock=RLock(k)); self.k = k

            async def wait(self) -> bool:
                self._lock.in_wait.add(asyncio.current_task().get_name())      # type: ignore[attr-defined]
                return await super().wait()

            def notify_all(self) -> None:
                emit('notify', self.k, cc=ccid() if self.k == 'chg' else 0)
                super().notify_all()
        saved = (aiovalues.Container.__init__, references.Insights.__init__, adm.build_webhooks, obsv.revise_resources)

        def c_init(self_: Any, *a: Any, **k: Any) -> None:
            saved[0](self_, *a, **k); self_.changed = RCond('chg'); live['container'] = self_

        def i_init(self_: Any, *a: Any, **k: Any) -> None:
            saved[1](self_, *a, **k); object.__setattr__(self_, 'revised', RCond('rev')); live['insights'] = self_

        def build(handlers_: Any, *, resources: Any, client_config: Any, persistent_only: bool = False, **k: Any) -> Any:
            if not persistent_only:
                emit('build', 'chg', cc=ccid(client_config), res=resid(resources))
            return saved[2](handlers_, resources=resources, client_config=client_config, persistent_only=persistent_only, **k)

        def revise(**k: Any) -> Any:
            r = saved[3](**k)
            emit('revise', 'rev', res=resid())
            return r
        aiovalues.Container.__init__ = c_init; references.Insights.__init__ = i_init; adm.build_webhooks = build; obsv.revise_resources = revise
        op = sim.operator('op1', reg, s)
        checks: list[dict[str, Any]] = []

        def cluster_now() -> list[dict[str, Any]]:
            out = [dict(group=GROUP, version=VERSION, plural=PLURAL, kind='Thing', singular='thing', shortcuts=[], categories=[], preferred=True)]
            if 'widgets' in present:
                out.append(dict(group=GROUP, version=VERSION, plural='widgets', kind='Widget', singular='widget', shortcuts=['wd'], categories=['catx'], preferred=True))
            return out

        def check(ponly: bool = False) -> None:
            checks.append({'t': sim.now, 'ponly': ponly, 'res': cluster_now(), 'last': yielded[-1] if yielded else None,
                           'objs': {typ: sim.srv.get(conf[typ], None, MANAGED) for typ in conf}})

        def do(opn: str) -> None:
            if opn == 'kadd' and 'widgets' not in present:
                sim.srv.add_resource(widgets, announce=True); present.add('widgets')
            elif opn == 'kdel' and 'widgets' in present:
                sim.srv.remove_resource(widgets); present.discard('widgets')
            elif opn == 'check':
                check()
        for (t, opn) in sc['env']:
            sim.world.at(t, (lambda opn=opn: do(opn)), 1)
        stall = False
        try:
            sim.run(sc['end']); check()
            live['rec'] = False          # (the end of the operator -- cancellations, the cleanup of the configurations -- is not in the step model)
            out = op.finish()
            check(ponly=True)
        except Stall:
            stall = True; out = 'stall'
        recs: list[dict[str, Any]] = []
        problems: list[str] = []
        root = sc.get('root', '')
        for c in checks:
            for typ, ds in decls.items():
                obj = c['objs'][typ]
                if c['last'] is None:
                    continue       # no client config yet: nothing is announced
                if obj is None:
                    problems.append(f't={c["t"]}: no {typ} configuration object'); continue
                entries = obj.get('webhooks') or []
                by_id: dict[str, Any] = {}
                for e in entries:
                    u = urllib.parse.urlsplit((e.get('clientConfig') or {}).get('url', ''))
                    base = urllib.parse.urlunsplit([u.scheme, u.netloc, root, '', ''])
                    if base != c['last']:
                        problems.append(f't={c["t"]}: the {typ} entry {e.get("name")} points to {base}, the server yielded {c["last"]} last')
                    by_id[urllib.parse.unquote(u.path[len(root) + 1:])] = e
                for key in by_id:
                    if key not in {d['id'] for d in ds}:
                        problems.append(f't={c["t"]}: the {typ} configuration has an entry for {key!r}, which is not a handler of that type')
                for d in ds:
                    e = by_id.get(d['id'])
                    rec: dict[str, Any] = {'h': d, 'res': c['res'], 'suffix': MANAGED, 'persistent_only': c['ponly'], 'announced': e is not None,
                                           'served_id': d['id'] if e is not None else '', 'reviews': [], 'others': [], 'entry': {}, 'at': c['t'], 'typ': typ}
                    if e is not None:
                        sel = e.get('objectSelector')
                        rec['entry'] = {'name': e['name'], 'rules': e['rules'], 'sideEffects': e['sideEffects'], 'failurePolicy': e['failurePolicy'],
                                        'selector': {'none': sel is None, 'exprs': (sel or {}).get('matchExpressions', [])}}
                    recs.append(rec)
        return {'id': sc['id'], 'records': recs, 'problems': problems, 'stall': stall, 'outcome': out, 'scenario': sc, 'checks': len(checks),
                'mtrace': {'id': sc['id'], 'events': mev, 'observers': len(obs_names)}}
    finally:
        try:
            aiovalues.Container.__init__, references.Insights.__init__, adm.build_webhooks, obsv.revise_resources = saved
        except NameError:
            pass
        sim.close()


def managed_scenarios(seed: int, n: int) -> list[dict[str, Any]]:
    rnd = random.Random(f'managed-{seed}')
    out = [{'id': 'managed-crafted-0', 'configs': [3], 'env': [(10, 'check'), (12, 'kadd'), (25, 'check'), (27, 'kdel'), (40, 'check')], 'end': 45, 'widgets0': False},
           {'id': 'managed-crafted-1', 'configs': [3, 20], 'env': [(10, 'check'), (30, 'check')], 'end': 35, 'widgets0': True, 'precreated': True, 'mpersistent': True},
           {'id': 'managed-crafted-2', 'configs': [2], 'env': [(10, 'check')], 'end': 15, 'widgets0': True, 'root': '/hooks'}]
    for i in range(n):
        env: list[tuple] = []; t = 4
        for _ in range(rnd.randint(1, 5)):
            t += rnd.choice([2, 5, 9])
            env.append((t, rnd.choice(['kadd', 'kdel', 'kadd', 'kdel'])))
            t += 12; env.append((t, 'check'))
        cfgs = sorted(rnd.sample(range(2, max(8, t)), rnd.randint(1, 3)))
        # a checkpoint is meaningful only at rest: not within a few seconds after a new client config
        env = [(tt, o) for (tt, o) in env if o != 'check' or all(not (0 <= tt - c < 8) for c in cfgs)]
        out.append({'id': f'managed-{seed}-{i}', 'configs': cfgs, 'env': env, 'end': max(t, cfgs[-1]) + 15, 'widgets0': rnd.random() < 0.5,
                    'precreated': rnd.random() < 0.3, 'mpersistent': rnd.random() < 0.5, 'root': rnd.choice(['', '', '/hooks'])})
    return out


def managed_stage(ctx: Any, rep: Any, label: str) -> None:
    from concurrent.futures import ProcessPoolExecutor
    # the wake-up chain first (Managed.tla: the server's container, the observers' condition, condition_chain, the two managers, with asyncio's
    # Lock / Condition as they behave): no update is lost, no deadlock, every interleaving; two witnesses must fail
    from vf import tlc
    from vf.evidence import MachineryFailure
    mc = 'MC_Managed_q.cfg' if ctx.quick else 'MC_Managed.cfg'       # one observer (0.7 M states) / two observers (2.4 M states)
    r = tlc.run('Managed', mc, workers=16, timeout=3000)
    rep.add_tlc(mc[:-4], r)
    if not r.ok:
        rep.violation(f'{label}: Managed.tla: {r.violated}', files={'tlc.out': r.out[-50000:]})
    for wcfg in ('MC_Managed_unlocked.cfg', 'MC_Managed_latechain.cfg'):
        w = tlc.run('Managed', wcfg, workers=4, timeout=600)
        rep.add_tlc(f'{wcfg[:-4]} (witness)', w)
        if [v for _k, v in w.violated] != ['AtRestLatest']:
            raise MachineryFailure(f'the witness configuration {wcfg} should violate AtRestLatest, got {w.violated}')
    scs = managed_scenarios(ctx.seed, 20 if ctx.quick else 400)
    with ProcessPoolExecutor(16) as ex:
        runs = list(ex.map(managed_case, scs, chunksize=2))
    recs = [r for run in runs for r in run['records']]
    bad = records.judge('Rec_Webhooks', [{k: v for k, v in r.items() if k not in ('at', 'typ')} for r in recs], rep=rep, shard=4000, name='Rec_Webhooks[managed]')
    rep.evaluations += len(recs); rep.traces += len(runs)
    for run in runs:
        if run['stall']:
            rep.violation(f'{label}: {run["id"]}: the event loop stalled', payload=run['scenario'])
        elif run['outcome'] != 'returned' or not run['records'] or not run['mtrace']['events']:
            raise MachineryFailure(f'{run["id"]}: the operator of the managed run ended with {run["outcome"]}, {len(run["records"])} records, {len(run["mtrace"]["events"])} events')
        for p in run['problems']:
            rep.violation(f'{label}: {run["id"]}: managed webhooks: {p}', payload=run['scenario'])
        if run['checks'] > 1:
            rep.nontrivial([run['scenario'], [(r['at'], r['h']['id'], r['announced'], r['entry'].get('rules')) for r in run['records']]])
    for i, lab in sorted(bad.items()):
        if lab != 'W1':
            rep.violation(f'{label}: managed webhooks: t={recs[i]["at"]}: {lab}: handler={recs[i]["h"]["id"]} kinds={[r_["plural"] for r_ in recs[i]["res"]]} '
                          f'persistent_only={recs[i]["persistent_only"]} entry={recs[i]["entry"]}', payload=recs[i])
    # step conformance of the wake-up chain: every lock / condition event, revision and build of every run against Managed.tla
    mts = [run['mtrace'] for run in runs if not run['stall']]
    mv = judge_managed(mts, rep)
    rep.evaluations += len(mts); rep.traces += len(mts)
    for t in mts:
        if mv[t['id']] != 'accepted':
            rep.violation(f'{label}: {t["id"]}: the managed configurations do not follow Managed.tla: {mv[t["id"]]}', payload=t)
    rep.extra['managed_webhooks'] = {'runs': len(runs), 'records': len(recs), 'step_traces': len(mts), 'step_events': sum(len(t['events']) for t in mts)}


_RE_MV = __import__('re').compile(r'<<\s*"VERDICT",\s*(\d+),\s*"([^"]*)",\s*(-?\d+),\s*(\d+),\s*"([^"]*)"\s*>>')


def judge_managed(traces: list[dict[str, Any]], rep: Any = None) -> dict[str, str]:
    import json, os, shutil, tempfile
    from vf import tlc
    from vf.evidence import MachineryFailure
    nobs = max([t['observers'] for t in traces] + [1])
    nres = max([e['res'] for t in traces for e in t['events']] + [1])
    scratch = tempfile.mkdtemp(prefix='vf-managed-')
    try:
        path = os.path.join(scratch, 'traces.json')
        with open(path, 'w') as f:
            json.dump([{'id': t['id'], 'events': t['events']} for t in traces], f)
        cfg = ('SPECIFICATION TSpec\nCONSTANTS\n  MaxCC = 1000\n  MaxRev = 100000\n  ResVals = {%s}\n  Obs = {%s}\n  Variant = "trace"\n'
               'CONSTRAINT Book\nPOSTCONDITION Verdicts\nCHECK_DEADLOCK FALSE\n'
               % (', '.join(map(str, range(0, nres + 1))), ', '.join(f'"o{i}"' for i in range(1, nobs + 1))))
        r = tlc.run('Trace_Managed', cfg_text=cfg, workers=1, deque=True, env={'TRACE_FILE': path}, timeout=1500)
    finally:
        shutil.rmtree(scratch, ignore_errors=True)
    if not r.ok:
        raise MachineryFailure(f'Trace_Managed failed: {r.violated} {r.errors}\n{r.out[-3000:]}')
    if rep is not None:
        rep.add_tlc('Trace_Managed', r)
    got = {int(m.group(1)): m for m in _RE_MV.finditer(r.out)}
    if len(got) != len(traces):
        raise MachineryFailure(f'Trace_Managed printed {len(got)} verdicts for {len(traces)} traces\n{r.out[-2000:]}')
    res: dict[str, str] = {}
    for i, t in enumerate(traces, start=1):
        done, n, inv = int(got[i].group(3)), int(got[i].group(4)), got[i].group(5)
        res[t['id']] = (f'invariant {inv} violated' if inv else 'accepted') if done >= n else \
            f'rejected at event {done + 1} of {n}: {t["events"][done]} (after {t["events"][max(0, done - 4):done]})'
    return res
