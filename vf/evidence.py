"""Evidence files, verdict lines and exit codes: the protocol every property check follows."""
from __future__ import annotations

import hashlib
import json
import os
import shutil
import sys
import time
from typing import Any

from vf import ROOT, findings

# Runs against a scratch copy of the repository (mutant self-tests) must not overwrite the real evidence.
EVIDENCE = os.path.join(ROOT, 'evidence') if os.environ.get('VERIF_REPO', '/repo') == '/repo' else \
    os.path.join(os.environ.get('TMPDIR', '/tmp'), 'vf-evidence-scratch')
REPLAYS = os.path.join(EVIDENCE, 'replays')

COMMON_ASSUMPTIONS = [
    "spec/K8s.tla and sim/fakek8s.py model the API server as documented (merge-patch, finalizers/deletion, "
    "JSON-patch test, monotone versions, bookmarks, 410); they are cross-checked against each other, not against a real cluster",
    "asyncio primitives are executed (CPython 3.12), not modelled; virtual time with integer (or scenario-chosen) durations",
    "async handlers only; sync handlers in thread pools are not simulated",
    "bounded models: constants are stated in the cfg and echoed in coverage; implementation coverage is by explored scenarios",
]


class MachineryFailure(Exception):
    """The check itself is broken (exit 2): TLC crashed, fake/spec mismatch, harness error."""


class Report:
    def __init__(self, pid: str, tier: str, seed: int, level: str = 'model_checking') -> None:
        self.pid = pid; self.tier = tier; self.seed = seed; self.level = level
        self.t0 = time.time()
        self.states = 0; self.transitions = 0
        self.traces = 0; self.evaluations = 0
        self._distinct: set[str] = set()
        self.samples: list[Any] = []
        self.rule = ''
        self.extra: dict[str, Any] = {}
        self.assumptions: list[str] = list(COMMON_ASSUMPTIONS)
        self.violations: list[tuple[str, str]] = []     # (what, replay path)
        self.known: dict[str, dict[str, Any]] = {}      # family -> {count, example}
        self.notes: list[str] = []
        self.exhaustive = False
        self.tlc_runs: list[dict[str, Any]] = []

    # ---- accounting
    def add_tlc(self, name: str, r: Any, constants: str = '') -> None:
        self.states += r.distinct; self.transitions += r.generated
        rec = {'config': name, 'distinct_states': r.distinct, 'states_generated': r.generated,
               'depth': r.depth, 'wall_s': round(r.wall, 1)}
        if constants:
            rec['constants'] = constants
        if r.coverage:
            rec['action_coverage'] = {k: v[1] for k, v in sorted(r.coverage.items())}
        self.tlc_runs.append(rec)

    def nontrivial(self, key: Any) -> None:
        self._distinct.add(hashlib.sha1(json.dumps(key, sort_keys=True, default=str).encode()).hexdigest())

    def sample(self, x: Any, limit: int = 6) -> None:
        if len(self.samples) < limit:
            self.samples.append(x)

    def note(self, s: str) -> None:
        self.notes.append(s); print('NOTE:', s)

    # ---- verdicts
    def violation(self, what: str, payload: dict[str, Any] | None = None, files: dict[str, str] | None = None) -> str:
        n = len(self.violations) + 1
        path = os.path.join(REPLAYS, f'{self.pid}-{self.seed}-{n}')
        if n <= 20:
            os.makedirs(path, exist_ok=True)
            with open(os.path.join(path, 'violation.json'), 'w') as f:
                json.dump({'property': self.pid, 'what': what, 'tier': self.tier, 'seed': self.seed,
                           'payload': payload}, f, indent=1, default=str)
            for name, text in (files or {}).items():
                with open(os.path.join(path, name), 'w') as f:
                    f.write(text)
        self.violations.append((what, path))
        return path

    def classified(self, family: str, what: str, payload: dict[str, Any] | None = None,
                   files: dict[str, str] | None = None) -> None:
        """A violating case attributed by the specification to a family: known finding or violation."""
        ent = findings.lookup(self.pid, family)
        if ent is not None:
            k = self.known.setdefault(family, {'count': 0, 'example': what, 'what': ent['what']})
            k['count'] += 1
        else:
            self.violation(f'[{family}] {what}' if family else what, payload, files)

    def finish(self) -> int:
        wall = time.time() - self.t0
        cov: dict[str, Any] = {
            'states': self.states, 'transitions': self.transitions,
            'traces_validated_against_impl': self.traces,
            'evaluations': self.evaluations, 'distinct_nontrivial': len(self._distinct),
            'rule': self.rule, 'samples': self.samples or ['(no sample recorded)'],
            'tlc_runs': self.tlc_runs, 'exhaustive': self.exhaustive,
        }
        cov.update(self.extra)
        if self.known:
            cov['known_findings_seen'] = {k: {'count': v['count'], 'example': v['example']} for k, v in self.known.items()}
        if self.notes:
            cov['notes'] = self.notes[:50]
        ev = {'property_id': self.pid, 'tier': self.tier, 'seed': self.seed, 'level': self.level,
              'coverage': cov, 'assumptions': self.assumptions, 'wall_s': round(wall, 2),
              'violations': len(self.violations)}
        os.makedirs(EVIDENCE, exist_ok=True)
        with open(os.path.join(EVIDENCE, f'{self.pid}.json'), 'w') as f:
            json.dump(ev, f, indent=1, default=str)
        for fam, k in sorted(self.known.items()):
            print(f"KNOWN-FINDING: property={self.pid} {fam}: {k['what']} ({k['count']} case(s), e.g. {k['example']})")
        seen = set()
        for what, path in self.violations:
            if path not in seen:
                seen.add(path)
                if len(seen) <= 20:
                    print(f'VIOLATION property={self.pid} replay={path}')
                    print(f'  what: {what[:300]}')
        if len(self.violations) > 20:
            print(f'  … {len(self.violations) - 20} more violations not listed')
        print(f'[{self.pid}] tier={self.tier} seed={self.seed} states={self.states} transitions={self.transitions} '
              f'traces={self.traces} evaluations={self.evaluations} distinct_nontrivial={len(self._distinct)} '
              f'violations={len(self.violations)} wall={wall:.1f}s')
        sys.stdout.flush()
        return 1 if self.violations else 0


def clean_replays(pid: str) -> None:
    if os.path.isdir(REPLAYS):
        for d in os.listdir(REPLAYS):
            if d.startswith(pid + '-'):
                shutil.rmtree(os.path.join(REPLAYS, d), ignore_errors=True)
