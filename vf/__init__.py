"""Verification framework for nolar/kopf: TLA+ specifications + TLC + conformance harnesses.

Layout:
  vf/tlc.py       run TLC and parse what it printed
  vf/evidence.py  evidence files and the check result protocol
  vf/findings.py  known_findings.json handling
  vf/jv.py        the tagged JSON-value encoding shared with spec/JV.tla
  vf/props/*.py   one module per property (run(ctx) -> Result)
  sim/            the world simulator (virtual time, fake API, real kopf)
  spec/           the TLA+ library
"""
import os

ROOT = os.path.dirname(os.path.dirname(os.path.abspath(__file__)))
SPEC = os.path.join(ROOT, 'spec')
REPO = os.environ.get('VERIF_REPO', '/repo')
