"""The operator's memories of objects (inventory.ResourceMemories) against Inventory.tla: the recalls and forgets recorded (through
sim/opsim.py's outside wrap) in runs of the real operator, one trace per operator process, validated by TLC (Trace_Inventory)."""
from __future__ import annotations

import json
import os
import re
import shutil
import tempfile
from typing import Any

from vf import tlc
from vf.evidence import MachineryFailure


def traces_of(raw: list[dict[str, Any]], rid: str) -> list[dict[str, Any]]:
    """One trace per operator life (the memories are per process: a restart begins a new inventory)."""
    lives: dict[Any, list[dict[str, Any]]] = {}
    life_no: dict[Any, int] = {}
    for e in raw:
        lp = e.get('loop')
        if e['ev'] == 'op.start':
            life_no[lp] = life_no.get(lp, 0) + 1
        if e['ev'] in ('mem.recall', 'mem.forget') and e.get('uid'):
            key = (lp, life_no.get(lp, 0))
            ev = {'ev': e['ev'][4:], 'uid': e['uid']}
            if e['ev'] == 'mem.recall':
                ev.update(listed=e['listed'], mem=e['mem'] % 2000000011, flag=e['flag'], n=e['n'], parts=[p % 2000000011 for p in e['parts']])
            lives.setdefault(key, []).append(ev)
    return [{'id': f'{rid}/{k[0]}#{k[1]}', 'events': v} for k, v in sorted(lives.items(), key=str)]


_RE = re.compile(r'<<\s*"VERDICT",\s*(\d+),\s*"([^"]*)",\s*(-?\d+),\s*(\d+)\s*>>')


def judge(traces: list[dict[str, Any]], rep: Any = None) -> dict[str, str]:
    traces = [t for t in traces if t['events']]
    if not traces:
        return {}
    scratch = tempfile.mkdtemp(prefix='vf-inv-')
    try:
        path = os.path.join(scratch, 'traces.json')
        with open(path, 'w') as f:
            json.dump(traces, f)
        uids = sorted({e['uid'] for t in traces for e in t['events']})
        cfg = ('SPECIFICATION TSpec\nCONSTANTS\n  Uids = {%s}\n  MaxMem = 400\nCONSTRAINT Book\nPOSTCONDITION Verdicts\nCHECK_DEADLOCK FALSE\n'
               % ', '.join('"%s"' % u for u in uids))
        r = tlc.run('Trace_Inventory', cfg_text=cfg, workers=1, deque=True, env={'TRACE_FILE': path}, timeout=1800)
    finally:
        shutil.rmtree(scratch, ignore_errors=True)
    if not r.ok:
        raise MachineryFailure(f'Trace_Inventory failed: {r.violated} {r.errors}\n{r.out[-3000:]}')
    if rep is not None:
        rep.add_tlc('Trace_Inventory', r)
    got = {int(m.group(1)): m for m in _RE.finditer(r.out)}
    if len(got) != len(traces):
        raise MachineryFailure(f'Trace_Inventory printed {len(got)} verdicts for {len(traces)} traces')
    res = {}
    for i, t in enumerate(traces, start=1):
        done, n = int(got[i].group(3)), int(got[i].group(4))
        res[t['id']] = 'accepted' if done >= n else f'rejected at event {done + 1} of {n}: {t["events"][done]} (after {t["events"][max(0, done - 3):done]})'
    return res
