"""The real aiotasks.Scheduler (the pool of the per-object workers; the daemon killer's stoppers) under seeded schedules of hand-overs,
job durations, failures, limits and close(), in virtual time; the recorded events are validated by TLC against Trace_Scheduling."""
from __future__ import annotations

import asyncio
import json
import os
import random
import re
import shutil
import tempfile
from typing import Any

from vf import tlc
from vf.evidence import MachineryFailure


def run_case(sc: dict[str, Any]) -> dict[str, Any]:
    from kopf._cogs.aiokits import aiotasks
    from sim.vloop import World
    world = World(wall_budget=0)
    loop = world.new_loop('sched')
    events: list[dict[str, Any]] = []
    emit = lambda ev, **kw: events.append({'ev': ev, **kw, 't': world.now})
    errors: list[str] = []
    box: dict[str, Any] = {}

    async def setup() -> None:
        box['s'] = aiotasks.Scheduler(limit=sc['limit'] or None, exception_handler=lambda e: errors.append(repr(e)))
    loop.spawn(setup()); world.settle()
    sched = box['s']

    async def job(name: str, dur: float, fail: bool) -> None:
        emit('start', job=name)
        try:
            await asyncio.sleep(dur)
            if fail:
                raise ValueError(f'scripted failure of {name}')
        finally:
            emit('end', job=name)

    async def hand_over(name: str, dur: float, fail: bool) -> None:
        coro = job(name, dur, fail)
        if sched._closed:
            emit('refused', job=name)
        else:
            emit('spawn', job=name)
        try:
            await sched.spawn(coro, name=name)
        except RuntimeError:
            pass

    async def close() -> None:
        emit('close')
        await sched.close()
        emit('closed')
    tasks = []
    for (t, what, *a) in sc['ops']:
        if what == 'spawn':
            world.at(t, lambda a=a: tasks.append(loop.spawn(hand_over(*a))), 1)
        elif what == 'close':
            world.at(t, lambda: tasks.append(loop.spawn(close())) if not sched._closed else None, 1)
    last = 0.0
    instants = sorted({t for (t, *_r) in sc['ops']} | {t + d for (t, w, *a) in sc['ops'] if w == 'spawn' for d in [a[1]]} | {sc['end']})
    for t in range(0, int(sc['end']) + 1):
        world.run_until(t, inclusive=False)
        if events and events[-1]['ev'] != 'tick':
            events.append({'ev': 'tick', 't': world.now})
        world.run_until(t)
    events.append({'ev': 'tick', 't': world.now})
    if not sched._closed:
        tasks.append(loop.spawn(sched.close())); world.run_until(world.now + 100)
    for tk in loop.pending_tasks():        # (a scheduler that does not come to rest leaves its tasks behind)
        loop.enter()
        try: tk.cancel()
        finally: loop.leave()
    try:
        world.settle()
    except Exception:
        pass
    world.drop_loop(loop)
    return {'id': sc['id'], 'limit': sc['limit'], 'events': events, 'errors': errors, 'scenario': sc}


def scenarios(seed: int, n: int) -> list[dict[str, Any]]:
    rnd = random.Random(f'sched-{seed}')
    out = []
    for i in range(n):
        ops: list[tuple] = []
        t = 0
        k = 0
        for _ in range(rnd.randint(2, 12)):
            t += rnd.choice([0, 0, 0, 1, 1, 2, 4])
            k += 1
            ops.append((t, 'spawn', f'j{k}', rnd.choice([0, 0, 1, 2, 3, 5, 8]), rnd.random() < 0.15))
        if rnd.random() < 0.6:
            ops.append((rnd.randint(0, t + 6), 'close'))
            for _ in range(rnd.randint(0, 2)):      # hand-overs to a closed scheduler
                k += 1
                ops.append((rnd.randint(0, t + 8), 'spawn', f'j{k}', rnd.choice([0, 1, 3]), False))
        ops.sort(key=lambda o: o[0])
        out.append({'id': f'sched-{seed}-{i}', 'limit': rnd.choice([0, 0, 1, 1, 2, 2, 3]), 'ops': ops, 'end': t + 16})
    return out


_RE = re.compile(r'<<\s*"VERDICT",\s*(\d+),\s*"([^"]*)",\s*(-?\d+),\s*(\d+)\s*>>')


def judge(traces: list[dict[str, Any]], rep: Any = None) -> dict[str, str]:
    scratch = tempfile.mkdtemp(prefix='vf-sched-')
    try:
        path = os.path.join(scratch, 'traces.json')
        with open(path, 'w') as f:
            json.dump([{'id': t['id'], 'limit': t['limit'], 'events': t['events']} for t in traces], f)
        jobs = sorted({e['job'] for t in traces for e in t['events'] if 'job' in e})
        cfg = ('SPECIFICATION TSpec\nCONSTANTS\n  Jobs = {%s}\n  Limit = 0\nCONSTRAINT Book\nPOSTCONDITION Verdicts\nCHECK_DEADLOCK FALSE\n'
               % ', '.join('"%s"' % j for j in jobs))
        r = tlc.run('Trace_Scheduling', cfg_text=cfg, workers=1, deque=True, env={'TRACE_FILE': path}, timeout=900)
    finally:
        shutil.rmtree(scratch, ignore_errors=True)
    if not r.ok:
        raise MachineryFailure(f'Trace_Scheduling failed: {r.violated} {r.errors}\n{r.out[-3000:]}')
    if rep is not None:
        rep.add_tlc('Trace_Scheduling', r)
    got = {int(m.group(1)): m for m in _RE.finditer(r.out)}
    if len(got) != len(traces):
        raise MachineryFailure(f'Trace_Scheduling printed {len(got)} verdicts for {len(traces)} traces')
    res = {}
    for i, t in enumerate(traces, start=1):
        done, n = int(got[i].group(3)), int(got[i].group(4))
        res[t['id']] = 'accepted' if done >= n else f'rejected at event {done + 1} of {n}: {t["events"][done]} (after {t["events"][max(0, done - 3):done]})'
    return res


def stage(ctx: Any, rep: Any) -> None:
    for cfg in ('MC_Scheduling_l0.cfg', 'MC_Scheduling_l1.cfg', 'MC_Scheduling_l2.cfg'):
        r = tlc.run('MC_Scheduling', cfg)
        rep.add_tlc(cfg[:-4], r)
        if not r.ok:
            rep.violation(f'Scheduling.tla ({cfg}): {r.violated}', files={'tlc.out': r.out[-50000:]})
    traces = [run_case(sc) for sc in scenarios(ctx.seed, 300 if ctx.quick else 6000)]
    v = judge(traces, rep)
    rep.evaluations += len(traces); rep.traces += len(traces)
    for t in traces:
        if t['limit'] and sum(1 for e in t['events'] if e['ev'] == 'spawn') > t['limit']:
            rep.nontrivial(t['events'])
        if v[t['id']] != 'accepted':
            rep.violation(f'{t["id"]}: the scheduler (the pool of the per-object workers) does not follow Scheduling.tla: {v[t["id"]]}', payload=t)
    rep.extra['scheduler_traces'] = len(traces)
