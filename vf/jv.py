"""The tagged JSON-value encoding shared with spec/JV.tla (see the module header there)."""
from __future__ import annotations

from typing import Any

ABSENT = {'t': 'absent'}


def enc(x: Any) -> dict[str, Any]:
    if x is None:
        return {'t': 'n'}
    if isinstance(x, bool):
        return {'t': 'b', 'v': x}
    if isinstance(x, int):
        if abs(x) >= 2**31:
            return {'t': 's', 'v': f'#int:{x}'}
        return {'t': 'i', 'v': x}
    if isinstance(x, float):
        return {'t': 's', 'v': f'#float:{x!r}'}
    if isinstance(x, str):
        return {'t': 's', 'v': x}
    if isinstance(x, (list, tuple)):
        return {'t': 'l', 'v': [enc(v) for v in x]}
    if isinstance(x, dict) or hasattr(x, 'keys'):
        return {'t': 'd', 'v': {str(k): enc(x[k]) for k in x.keys()}}
    return {'t': 's', 'v': f'#repr:{x!r}'}


def dec(j: dict[str, Any]) -> Any:
    t = j['t']
    if t == 'n': return None
    if t in ('b', 'i', 's'): return j['v']
    if t == 'l': return [dec(v) for v in j['v']]
    if t == 'd': return {k: dec(v) for k, v in j['v'].items()}
    raise ValueError(j)


def pointer_tokens(ptr: str) -> list[str]:
    """RFC 6901 tokenisation (independent of jsonpatch / jsonpointer packages)."""
    if ptr == '':
        return []
    if not ptr.startswith('/'):
        raise ValueError(ptr)
    return [t.replace('~1', '/').replace('~0', '~') for t in ptr[1:].split('/')]


def merge_patch(doc: Any, p: Any) -> Any:
    """RFC 7386, independent of kopf (used by the fake API server)."""
    if not isinstance(p, dict):
        return p
    base = dict(doc) if isinstance(doc, dict) else {}
    for k, v in p.items():
        if v is None:
            base.pop(k, None)
        else:
            base[k] = merge_patch(base.get(k), v)
    return base
