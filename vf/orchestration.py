"""Step conformance of the orchestrator (C19, Orchestration.tla): the adjustments of the real orchestrator (observed from outside at
the entry and the return of adjust_tasks, with the insights it reads) and the starts / ends of the watcher tasks (q.start /
q.depleting hooks) of one operator form a trace validated by Trace_Orchestration in TLC."""
from __future__ import annotations

import json
import os
import re
import shutil
import tempfile
from typing import Any

from vf import tlc
from vf.evidence import MachineryFailure


def trace_of(raw: list[dict[str, Any]], loop: str, rid: str, final: dict[str, Any] | None) -> dict[str, Any]:
    events: list[dict[str, Any]] = []
    cscoped: set[str] = set()
    watched: set[str] = set()
    by_sched: dict[Any, dict[str, Any]] = {}
    for e in raw:
        if e.get('loop') != loop:
            continue
        ev = e['ev']
        if ev == 'orch.adjust':
            events.append({'ev': 'adjust', 'res': e['res'], 'nss': e['nss']}); cscoped |= set(e['cscoped']); watched |= set(e['res'])
        elif ev == 'orch.rest':
            events.append({'ev': 'rest'})
        elif ev == 'q.start':
            rid_ = f'{e.get("res")}.{e.get("ver")}.{e.get("group")}'
            if rid_ in watched:
                k = {'r': rid_, 'n': e.get('ns') or '*'}
                by_sched[e.get('sched')] = k
                events.append({'ev': 'spawn', **k})
        elif ev == 'q.depleting':
            k = by_sched.pop(e.get('sched'), None)
            if k is not None:
                events.append({'ev': 'exit', **k})
    if final is not None:
        events.append({'ev': 'quiet', 'res': final['res'], 'nss': final['nss']})
        cscoped |= set(final['cscoped'])
    return {'id': rid, 'events': events, 'cscoped': sorted(cscoped)}


_RE = re.compile(r'<<\s*"VERDICT",\s*(\d+),\s*"([^"]*)",\s*(-?\d+),\s*(\d+)\s*>>')


def judge(traces: list[dict[str, Any]], rep: Any) -> dict[str, dict[str, Any]]:
    if not traces:
        return {}
    scratch = tempfile.mkdtemp(prefix='vf-orch-')
    try:
        path = os.path.join(scratch, 'traces.json')
        with open(path, 'w') as f:
            json.dump([{'id': t['id'], 'events': t['events']} for t in traces], f)
        cs = sorted({c for t in traces for c in t['cscoped']})
        cfg = ('SPECIFICATION TSpec\nCONSTANTS\n  Res = {}\n  Nss = {}\n  ClusterScoped = {%s}\n  MaxRevisions = 1000000\n  MaxDeaths = 1000000\n  HoldLock = TRUE\n'
               'CONSTRAINT Book\nPOSTCONDITION Verdicts\nCHECK_DEADLOCK FALSE\n' % ', '.join('"%s"' % c for c in cs))
        r = tlc.run('Trace_Orchestration', cfg_text=cfg, workers=1, deque=True, env={'TRACE_FILE': path}, timeout=1800)
    finally:
        shutil.rmtree(scratch, ignore_errors=True)
    if not r.ok:
        raise MachineryFailure(f'Trace_Orchestration failed: {r.violated} {r.errors}\n{r.out[-3000:]}')
    if rep is not None:
        rep.add_tlc('Trace_Orchestration', r)
    got = {int(m.group(1)): m for m in _RE.finditer(r.out)}
    if len(got) != len(traces):
        raise MachineryFailure(f'Trace_Orchestration printed {len(got)} verdicts for {len(traces)} traces\n{r.out[-2000:]}')
    res = {}
    for i, t in enumerate(traces, start=1):
        done, n = int(got[i].group(3)), int(got[i].group(4))
        res[t['id']] = {'verdict': 'accepted' if done >= n else f'rejected at event {done + 1} of {n}: {t["events"][done]} (after {t["events"][max(0, done - 4):done]})',
                        'done': done, 'n': n}
    return res
