"""The asyncio helpers under several properties (spec/Kits.tla): the real aiotime.sleep on a grid of delays / wake-up instants (records
judged by TLC), and the real aiotoggles.ToggleSet / Toggle under seeded-random schedules of operations and waiting tasks in virtual time
(traces validated by TLC against Trace_Kits)."""
from __future__ import annotations

import asyncio
import json
import os
import random
import re
import shutil
import tempfile
from typing import Any

from vf import records, tlc
from vf.evidence import MachineryFailure


def sleep_records() -> list[dict[str, Any]]:
    from kopf._cogs.aiokits import aiotime
    from sim.vloop import World
    world = World(wall_budget=0)
    loop = world.new_loop('kits')
    recs: list[dict[str, Any]] = []
    delay_sets = [[None], [], [0], [-1], [2], [0.5], [3, 1.5], [None, 2.5], [4, None, 1], [0, 5], [1.1], [60], [2.6, 0.7]]
    wakes = [None, 0, 0.3, 0.5, 1, 1.5, 2, 2.5, 2.6, 3, 59.9, 60, 61]
    ms = lambda x: int(round(x * 1000))
    for ds in delay_sets:
        for preset in (False, True):
            for wake in wakes:
                for scalar in ((True, False) if len(ds) == 1 else (False,)):
                    for start in (0, 10.1):
                        if world.now < start:
                            world.run_until(start)
                        ev = asyncio.Event()
                        if preset:
                            ev.set()
                        out: dict[str, Any] = {}

                        async def call(ds=ds, ev=ev, out=out, scalar=scalar) -> None:
                            t0 = loop.time()
                            out['res'] = await aiotime.sleep(ds[0] if scalar else ds, wakeup=ev)
                            out['took'] = loop.time() - t0
                        t_begin = world.now
                        task = loop.spawn(call())
                        if wake is not None and not preset:
                            world.at(t_begin + wake, ev.set, 0)
                        world.run_until(t_begin + 70, stop=lambda: task.done())
                        if not task.done():
                            raise MachineryFailure(f'aiotime.sleep({ds}) did not return')
                        recs.append({'kind': 'sleep', 'delays': [-1 if d is None else ms(d) if d >= 0 else -2 for d in ds], 'preset': preset,
                                     'wake': -1 if (wake is None or preset) else ms(wake), 'res': -1 if out['res'] is None else ms(out['res']),
                                     'took': ms(out['took']), 'start': start})
                        world.run_until(world.now + 80)     # let the scheduled wake-up pass
    world.drop_loop(loop)
    # negative delays count as "no need to sleep": encode them as 0 for the reference (documented: minimal_delay <= 0)
    for r in recs:
        r['delays'] = [0 if d == -2 else d for d in r['delays']]
    return recs


def toggle_case(sc: dict[str, Any]) -> dict[str, Any]:
    from kopf._cogs.aiokits import aiotoggles
    from sim.vloop import World
    world = World(wall_budget=0)
    loop = world.new_loop('kits')
    loop.enter()
    try:
        ts = aiotoggles.ToggleSet(any if sc['fn'] == 'any' else all)
    finally:
        loop.leave()
    events: list[dict[str, Any]] = []
    toggles: dict[str, Any] = {}
    emit = lambda ev, **kw: events.append({'ev': ev, **kw, 'on': bool(ts.is_on()), 't': world.now})

    async def op(kind: str, *a: Any) -> None:
        if kind == 'make' and a[0] not in toggles:
            toggles[a[0]] = await ts.make_toggle(a[1] == 'on', name=a[0]); emit('make', name=a[0], val=a[1])
        elif kind == 'drop' and a[0] in toggles:
            await ts.drop_toggle(toggles.pop(a[0])); emit('drop', name=a[0])
        elif kind == 'drops':
            names = [n for n in a[0] if n in toggles]
            await ts.drop_toggles([toggles.pop(n) for n in names])
            for k, n in enumerate(names):
                events.append({'ev': 'drop', 'name': n, 'on': bool(ts.is_on()) if k == len(names) - 1 else None, 't': world.now})
        elif kind == 'turn' and a[0] in toggles:
            await toggles[a[0]].turn_to(a[1] == 'on'); emit('turn', name=a[0], val=a[1])

    async def waiter(name: str, want: str) -> None:
        emit('wait', task=name, want=want)
        await ts.wait_for(want == 'on')
        emit('back', task=name)
    tasks: list[Any] = []
    busy: set[str] = set()
    for (t, what, *a) in sc['ops']:
        if what == 'wait':
            def go(a=a) -> None:
                if any(tk.get_name() == a[0] and not tk.done() for tk in tasks):
                    return
                tasks.append(loop.spawn(waiter(a[0], a[1]), name=a[0]))
            world.at(t, go, 1)
        else:
            world.at(t, lambda what=what, a=a: tasks.append(loop.spawn(op(what, *a))), 1)
    last = 0.0
    for t in sorted({t for (t, *_r) in sc['ops']}) + [sc['end']]:
        world.run_until(t, inclusive=False)
        if t > last and events:
            events.append({'ev': 'tick', 't': world.now})
        world.run_until(t)
        last = t
    events.append({'ev': 'tick', 't': world.now})
    # the state recorded with a batch of drops is that of the whole batch: fill the intermediate ones with what the model says is irrelevant
    out = []
    for e in events:
        if e.get('on', True) is None:
            continue
        out.append(e)
    for tk in tasks:
        if not tk.done():
            loop.enter()
            try: tk.cancel()
            finally: loop.leave()
    try:
        world.settle()
    except Exception:
        pass
    world.drop_loop(loop)
    return {'id': sc['id'], 'fn': sc['fn'], 'events': out, 'scenario': sc}


def toggle_scenarios(seed: int, n: int) -> list[dict[str, Any]]:
    rnd = random.Random(f'kits-{seed}')
    out = []
    for i in range(n):
        ops: list[tuple] = []
        t = 0
        for _ in range(rnd.randint(3, 14)):
            t += rnd.choice([0, 0, 1, 1, 2])
            k = rnd.random()
            nm = rnd.choice(['a', 'b', 'c'])
            if k < 0.3: ops.append((t, 'make', nm, rnd.choice(['on', 'off'])))
            elif k < 0.45: ops.append((t, 'drop', nm))
            elif k < 0.7: ops.append((t, 'turn', nm, rnd.choice(['on', 'off'])))
            else: ops.append((t, 'wait', rnd.choice(['t1', 't2', 't3']), rnd.choice(['on', 'off'])))
        out.append({'id': f'kits-{seed}-{i}', 'fn': rnd.choice(['any', 'all']), 'ops': ops, 'end': t + 3})
    return out


_RE = re.compile(r'<<\s*"VERDICT",\s*(\d+),\s*"([^"]*)",\s*(-?\d+),\s*(\d+)\s*>>')


def judge_toggles(traces: list[dict[str, Any]], rep: Any = None) -> dict[str, str]:
    res: dict[str, str] = {}
    for fn in ('any', 'all'):
        ts = [t for t in traces if t['fn'] == fn]
        if not ts:
            continue
        scratch = tempfile.mkdtemp(prefix='vf-kits-')
        try:
            path = os.path.join(scratch, 'traces.json')
            with open(path, 'w') as f:
                json.dump([{'id': t['id'], 'events': t['events']} for t in ts], f)
            cfg = ('SPECIFICATION TSpec\nCONSTANTS\n  Names = {"a", "b", "c"}\n  Tasks = {"t1", "t2", "t3"}\n  Fn = "%s"\n  MaxOps = 100000\n'
                   'CONSTRAINT Book\nPOSTCONDITION Verdicts\nCHECK_DEADLOCK FALSE\n' % fn)
            r = tlc.run('Trace_Kits', cfg_text=cfg, workers=1, deque=True, env={'TRACE_FILE': path}, timeout=900)
        finally:
            shutil.rmtree(scratch, ignore_errors=True)
        if not r.ok:
            raise MachineryFailure(f'Trace_Kits failed: {r.violated} {r.errors}\n{r.out[-3000:]}')
        if rep is not None:
            rep.add_tlc(f'Trace_Kits[{fn}]', r)
        got = {int(m.group(1)): m for m in _RE.finditer(r.out)}
        if len(got) != len(ts):
            raise MachineryFailure(f'Trace_Kits printed {len(got)} verdicts for {len(ts)} traces')
        for i, t in enumerate(ts, start=1):
            done, n = int(got[i].group(3)), int(got[i].group(4))
            res[t['id']] = 'accepted' if done >= n else f'rejected at event {done + 1} of {n}: {t["events"][done]} (after {t["events"][max(0, done - 3):done]})'
    return res


def stage(ctx: Any, rep: Any, label: str) -> None:
    """Run both bindings and report violations under the calling property."""
    for cfg in ('MC_Kits_any.cfg', 'MC_Kits_all.cfg'):
        r = tlc.run('MC_Kits', cfg)
        rep.add_tlc(cfg[:-4], r)
        if not r.ok:
            rep.violation(f'Kits.tla ({cfg}): {r.violated}', files={'tlc.out': r.out[-50000:]})
    recs = sleep_records()
    bad = records.judge('Rec_Kits', [{k: v for k, v in r_.items() if k != 'start'} for r_ in recs], rep=rep,
                        constants='CONSTANTS\n  Names = {}\n  Tasks = {}\n  Fn = "any"\n  MaxOps = 0')
    rep.evaluations += len(recs); rep.traces += len(recs)
    for i, lab in sorted(bad.items()):
        rep.violation(f'{label}: aiotime.sleep: {lab}: {recs[i]}', payload=recs[i])
    traces = [toggle_case(sc) for sc in toggle_scenarios(ctx.seed, 300 if ctx.quick else 5000)]
    tv = judge_toggles(traces, rep)
    rep.evaluations += len(traces); rep.traces += len(traces)
    for t in traces:
        if any(e['ev'] == 'back' for e in t['events']):
            rep.nontrivial(t['events'])
        if tv[t['id']] != 'accepted':
            rep.violation(f'{label}: {t["id"]}: the toggle set does not follow Kits.tla: {tv[t["id"]]}', payload=t)
    rep.extra['kits'] = {'sleep_records': len(recs), 'toggle_traces': len(traces)}
