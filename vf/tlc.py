"""Run TLC (tla2tools 1.8) and parse what it printed.

Everything TLC-related goes through `run()`: exhaustive checking of an MC_*.cfg,
`-simulate` behaviour generation, and batch trace / record validation. The
scratch directory (TLC's metadir, generated cfgs) is created per run and removed.
"""
from __future__ import annotations

import dataclasses
import os
import re
import shutil
import subprocess
import tempfile
import time
from typing import Any

from vf import SPEC

JAR = '/opt/veriftools/tla/tla2tools.jar'
DEPS = '/opt/veriftools/tla/CommunityModules-deps.jar'


class TLCFailure(Exception):
    """TLC itself failed (parse error, crash, timeout): a machinery failure, never a violation."""


@dataclasses.dataclass
class TLCResult:
    cmd: list[str]
    rc: int
    out: str
    wall: float
    generated: int = 0
    distinct: int = 0
    queue: int = 0
    depth: int = 0
    violated: list[tuple[str, str]] = dataclasses.field(default_factory=list)   # (kind, name)
    errors: list[str] = dataclasses.field(default_factory=list)
    trace: list[dict[str, Any]] = dataclasses.field(default_factory=list)       # first error trace
    coverage: dict[str, tuple[int, int]] = dataclasses.field(default_factory=dict)  # action -> (distinct, total)

    @property
    def ok(self) -> bool:
        return self.rc == 0 and not self.violated and not self.errors

    def printed(self, tag: str) -> list[str]:
        """Bodies of all `<<"tag", …>>` tuples printed with PrintT (robust to line wrapping)."""
        res = []
        pat = '<<"' + tag + '"'
        i = 0
        while True:
            i = self.out.find(pat, i)
            if i < 0:
                break
            depth = 0
            j = i
            while j < len(self.out):
                if self.out.startswith('<<', j):
                    depth += 1; j += 2; continue
                if self.out.startswith('>>', j):
                    depth -= 1; j += 2
                    if depth == 0:
                        break
                    continue
                j += 1
            res.append(self.out[i:j])
            i = j
        return res


_RE_COUNTS = re.compile(r'(\d+) states generated, (\d+) distinct states found, (\d+) states left on queue')
_RE_DEPTH = re.compile(r'The depth of the complete state graph search is (\d+)')
_RE_INV = re.compile(r'Error: Invariant (\S+) is violated')
_RE_ACT = re.compile(r'Error: Action property (\S+) is violated')
_RE_COV = re.compile(r'^<(\w+) line \d+, col \d+ to line \d+, col \d+ of module (\w+)>: (\d+):(\d+)', re.M)


def _parse_value(text: str) -> Any:
    """A light parser of TLC-printed values (enough for error traces and -simulate dumps)."""
    from vf.tlaval import parse
    return parse(text)


def parse_states(out: str) -> list[dict[str, Any]]:
    """Parse `State n: <Action …>` blocks of the first error trace."""
    states = []
    blocks = re.split(r'^State (\d+): ', out, flags=re.M)
    # blocks = [pre, n1, body1, n2, body2, ...]
    for k in range(1, len(blocks) - 1, 2):
        n = int(blocks[k]); body = blocks[k + 1]
        head, _, rest = body.partition('\n')
        rest = rest.split('\n\n')[0]
        m = re.match(r'<(\w+)', head)
        action = m.group(1) if m else head.strip()
        states.append({'n': n, 'action': action, 'head': head.strip(), 'text': rest.strip()})
        if len(states) > 1 and n == 1:
            states.pop(); break          # a second trace began (-continue): keep the first
    return states


def run(module: str, cfg: str | None = None, *, cfg_text: str | None = None, workers: int | str = 16,
        env: dict[str, str] | None = None, simulate: str | None = None, depth: int | None = None,
        seed: int | None = None, deque: bool = False, cont: bool = False, coverage: bool = False,
        timeout: float = 1800, extra: list[str] | None = None, heap: str = '8g',
        libs: list[str] | None = None, deadlock: bool | None = None, keep: str | None = None) -> TLCResult:
    """Run TLC on spec/<module>.tla (or an absolute path) with spec/<cfg> or literal cfg_text."""
    mod_path = module if os.path.isabs(module) else os.path.join(SPEC, module if module.endswith('.tla') else module + '.tla')
    scratch = tempfile.mkdtemp(prefix='vf-tlc-')
    try:
        if cfg_text is not None:
            cfg_path = os.path.join(scratch, 'run.cfg')
            with open(cfg_path, 'w') as f:
                f.write(cfg_text)
        else:
            assert cfg is not None
            cfg_path = cfg if os.path.isabs(cfg) else os.path.join(SPEC, cfg)
        lib = os.pathsep.join([SPEC] + (libs or []))
        jopts = [f'-Xmx{heap}', '-XX:+UseParallelGC', f'-DTLA-Library={lib}']
        if deque:
            jopts.append('-Dtlc2.tool.queue.IStateQueue=StateDeque')
        cmd = ['java', *jopts, '-cp', f'{JAR}:{DEPS}', 'tlc2.TLC',
               '-workers', str(workers), '-metadir', os.path.join(scratch, 'meta'),
               '-noGenerateSpecTE', '-config', cfg_path]
        if simulate is not None:
            cmd += ['-simulate', simulate]
        if depth is not None:
            cmd += ['-depth', str(depth)]
        if seed is not None:
            cmd += ['-seed', str(seed)]
        if cont:
            cmd.append('-continue')
        if coverage:
            cmd += ['-coverage', '1']
        if deadlock is False:
            pass  # set via CHECK_DEADLOCK FALSE in the cfg; kept for symmetry
        cmd += list(extra or [])
        cmd.append(mod_path)
        penv = dict(os.environ)
        penv.pop('JAVA_TOOL_OPTIONS', None)
        penv.update(env or {})
        t0 = time.time()
        try:
            p = subprocess.run(cmd, cwd=scratch, env=penv, stdout=subprocess.PIPE, stderr=subprocess.STDOUT,
                               timeout=timeout, text=True, errors='replace')
        except subprocess.TimeoutExpired as e:
            out = e.stdout if isinstance(e.stdout, str) else (e.stdout or b'').decode(errors='replace')
            raise TLCFailure(f'TLC timed out after {timeout}s: {" ".join(cmd)}\n{out[-2000:]}')
        wall = time.time() - t0
        out = p.stdout
        if keep:
            with open(keep, 'w') as f:
                f.write(out)
        r = TLCResult(cmd=cmd, rc=p.returncode, out=out, wall=wall)
        ms = _RE_COUNTS.findall(out)
        if ms:
            r.generated, r.distinct, r.queue = map(int, ms[-1])
        md = _RE_DEPTH.findall(out)
        if md:
            r.depth = int(md[-1])
        for m in _RE_INV.finditer(out):
            r.violated.append(('invariant', m.group(1)))
        for m in _RE_ACT.finditer(out):
            r.violated.append(('action', m.group(1)))
        if 'Temporal properties were violated' in out:
            r.violated.append(('temporal', 'liveness'))
        if 'Deadlock reached' in out:
            r.violated.append(('deadlock', 'deadlock'))
        for line in out.splitlines():
            if line.startswith('Error:') and not (_RE_INV.match(line) or _RE_ACT.match(line)
                                                  or 'Temporal properties were violated' in line
                                                  or 'Deadlock reached' in line
                                                  or 'The behavior up to this point is' in line
                                                  or 'The following behavior constitutes a counter-example' in line):
                r.errors.append(line)
        if r.violated:
            r.trace = parse_states(out)
        if coverage:
            for m in _RE_COV.finditer(out):
                r.coverage[m.group(1)] = (int(m.group(3)), int(m.group(4)))
        # rc: 0 ok; 10 assumption; 11 deadlock; 12 safety; 13 liveness; >=75 real errors
        if p.returncode not in (0, 11, 12, 13) or (p.returncode == 0 and not ms and simulate is None):
            i = out.find('Error:')
            raise TLCFailure(f'TLC failed rc={p.returncode}: {" ".join(cmd)}\n'
                             + (out[i:i + 2500] if i >= 0 else out[-4000:]))
        return r
    finally:
        shutil.rmtree(scratch, ignore_errors=True)


def sany(module: str) -> None:
    mod_path = module if os.path.isabs(module) else os.path.join(SPEC, module + '.tla')
    p = subprocess.run(['java', f'-DTLA-Library={SPEC}', '-cp', f'{JAR}:{DEPS}', 'tla2sany.SANY', mod_path],
                       cwd=SPEC, stdout=subprocess.PIPE, stderr=subprocess.STDOUT, text=True)
    if p.returncode != 0 or 'error' in p.stdout.lower().replace('errors: 0', ''):
        raise TLCFailure(p.stdout[-3000:])
