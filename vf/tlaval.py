"""Parser for values as TLC prints them (error traces, -simulate dumps, PrintT).

Records -> dict, sequences/tuples -> list, sets -> frozenset-like sorted list wrapped in TSet,
functions (a :> b @@ c :> d) -> dict, strings -> str, numbers -> int, TRUE/FALSE -> bool,
model values / identifiers -> MV(name).
"""
from __future__ import annotations

import re
from typing import Any


class MV(str):
    """A model value or bare identifier."""
    def __repr__(self) -> str:
        return f'MV({str.__repr__(self)})'


class TSet(list):
    """A TLA+ set (kept as a list in printed order)."""


_TOK = re.compile(r'''\s*(?:
    (?P<str>"(?:[^"\\]|\\.)*") |
    (?P<num>-?\d+) |
    (?P<op><<|>>|\|->|:>|@@|\[|\]|\{|\}|\(|\)|,) |
    (?P<id>[A-Za-z_][A-Za-z0-9_!]*)
)''', re.X)


def tokenize(s: str) -> list[tuple[str, str]]:
    pos = 0; toks = []
    s = s.strip()
    while pos < len(s):
        m = _TOK.match(s, pos)
        if not m:
            raise ValueError(f'cannot tokenize at {s[pos:pos+40]!r}')
        pos = m.end()
        kind = m.lastgroup
        toks.append((kind, m.group(kind)))
    return toks


def parse(s: str) -> Any:
    toks = tokenize(s)
    v, i = _val(toks, 0)
    if i != len(toks):
        raise ValueError(f'trailing tokens: {toks[i:i+5]}')
    return v


def _val(t, i):
    v, i = _atom(t, i)
    # function literals: a :> b @@ c :> d
    if i < len(t) and t[i] == ('op', ':>'):
        d = {}
        k = v
        while True:
            assert t[i] == ('op', ':>')
            val, i = _atom(t, i + 1)
            d[_key(k)] = val
            if i < len(t) and t[i] == ('op', '@@'):
                k, i = _atom(t, i + 1)
                continue
            break
        return d, i
    return v, i


def _key(k):
    if isinstance(k, list):
        return tuple(_key(x) for x in k)
    return k


def _atom(t, i):
    kind, tok = t[i]
    if kind == 'str':
        return bytes(tok[1:-1], 'utf-8').decode('unicode_escape') if '\\' in tok else tok[1:-1], i + 1
    if kind == 'num':
        return int(tok), i + 1
    if kind == 'id':
        if tok == 'TRUE': return True, i + 1
        if tok == 'FALSE': return False, i + 1
        return MV(tok), i + 1
    if tok == '<<':
        items = []; i += 1
        while t[i] != ('op', '>>'):
            v, i = _val(t, i); items.append(v)
            if t[i] == ('op', ','): i += 1
        return items, i + 1
    if tok == '{':
        items = TSet(); i += 1
        while t[i] != ('op', '}'):
            v, i = _val(t, i); items.append(v)
            if t[i] == ('op', ','): i += 1
        return items, i + 1
    if tok == '(':
        v, i = _val(t, i + 1)
        assert t[i] == ('op', ')'), t[i]
        return v, i + 1
    if tok == '[':
        d = {}; i += 1
        while t[i] != ('op', ']'):
            k = t[i][1]; assert t[i + 1] == ('op', '|->'), t[i:i + 3]
            v, i = _val(t, i + 2); d[k] = v
            if t[i] == ('op', ','): i += 1
        return d, i + 1
    raise ValueError(f'unexpected token {t[i]}')


def parse_state(text: str) -> dict[str, Any]:
    """Parse a conjunction `/\\ x = v \\n /\\ y = w` as printed in traces."""
    res = {}
    parts = re.split(r'^\s*/\\ ', text.strip(), flags=re.M)
    for p in parts:
        p = p.strip()
        if not p:
            continue
        name, _, val = p.partition(' = ')
        if not _:
            name, _, val = p.partition('=')
        res[name.strip()] = parse(val)
    return res
