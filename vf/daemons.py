"""Harness for daemons/timers lifecycle (C09): real operator, scripted daemon reactions, judged by DaemonMonitor.tla."""
from __future__ import annotations

import json
import os
import random
import re
import shutil
import tempfile
from typing import Any

from vf import tlc
from vf.evidence import MachineryFailure

FIN = 'kopf.zalando.org/KopfFinalizerMarker'
HS = ['d1', 'd2', 't1']


def _mk_sync_daemon(sim: Any, hid: str, c: dict[str, Any]):
    # a synchronous daemon runs in a thread of the executor (a virtual thread here): it cannot be cancelled, only asked
    from sim import vthreads

    def body(stopped, uid=None, **_):
        sim.rec('d.enter', h=hid, uid=uid)
        how = 'returned'
        try:
            if c['reaction'] == 'selfexit':
                stopped.wait(c['after'])
                if stopped:
                    sim.rec('d.flagseen', h=hid, uid=uid, reasons=str(stopped.reason))
                return
            stopped.wait()
            sim.rec('d.flagseen', h=hid, uid=uid, reasons=str(stopped.reason))
            if c['reaction'] == 'obey':
                if c.get('after'): vthreads.sleep(c['after'])
                return
            vthreads.sleep(5 if c['reaction'] == 'cancel' else 25)      # sits in a blocking call: nothing reaches it
        except vthreads.Killed:
            how = 'killed'; raise
        finally:
            sim.rec('d.exit', h=hid, uid=uid, how=how)
    body.__name__ = body.__qualname__ = hid
    return body

def make_daemon_fn(sim: Any, hid: str, c: dict[str, Any]):
    """A scripted daemon function (coroutine, or plain function for a thread) that records its life: d.enter / d.flagseen / d.cancel / d.exit."""
    import asyncio
    if c.get('sync'):
        return _mk_sync_daemon(sim, hid, c)

    async def body(stopped, uid=None, **_):
        sim.rec('d.enter', h=hid, uid=uid)
        enter_seq = sim.recorder.events[-1]['seq']
        how = 'returned'
        try:
            if c['reaction'] == 'selfexit':      # returns on its own after a while; notes the stop flag if it comes first
                await stopped.wait(c['after'])
                if stopped:
                    sim.rec('d.flagseen', h=hid, uid=uid, reasons=str(stopped.reason))
                return
            await stopped.wait()
            sim.rec('d.flagseen', h=hid, uid=uid, reasons=str(stopped.reason))
            if c['reaction'] == 'obey':
                if c.get('after'): await asyncio.sleep(c['after'])
                return
            while True:
                try:
                    await asyncio.get_running_loop().create_future()
                except asyncio.CancelledError:
                    sim.rec('d.cancel', h=hid, uid=uid)
                    if c['reaction'] == 'cancel':
                        how = 'cancelled'; raise
                    # 'ignore': swallows cancellation and keeps going
        except asyncio.CancelledError:
            if how != 'cancelled':
                # (cancelled while it still waited for the flag: with no backoff the flag is raised and the cancellation thrown in one step, the
                # function cannot run in between -- it looks at the flag now)
                if stopped and not any(e_['ev'] == 'd.flagseen' and e_.get('h') == hid and e_.get('uid') == uid and e_['seq'] > enter_seq for e_ in sim.recorder.events[-50:]):
                    sim.rec('d.flagseen', h=hid, uid=uid, reasons=str(stopped.reason))
                sim.rec('d.cancel', h=hid, uid=uid); how = 'cancelled'
            raise
        finally:
            sim.rec('d.exit', h=hid, uid=uid, how=how)
    body.__name__ = body.__qualname__ = hid
    return body



def run_scenario(sc: dict[str, Any]) -> dict[str, Any]:
    import asyncio
    import kopf
    from sim.opsim import GROUP, PLURAL, VERSION, Sim, Stall
    sim = Sim(wall_budget=6)
    sim.world.max_steps = 300_000
    try:
        reg = sim.registry()

        mk_daemon = lambda hid, c: make_daemon_fn(sim, hid, c)

        def mk_timer(hid: str, c: dict[str, Any]):
            async def tick(**_):
                sim.rec('t.tick', h=hid)
                if c.get('dur'):         # a function that takes a while: the object is held while it runs (timers are waited for, not cancelled)
                    try:
                        await asyncio.sleep(c['dur'])
                    except asyncio.CancelledError:
                        sim.rec('t.cancel', h=hid); raise
                    finally:
                        sim.rec('t.end', h=hid)
            tick.__name__ = tick.__qualname__ = hid
            return tick
        use_label = sc.get('label_filter', True)
        flt = {'labels': {'on': 'yes'}} if use_label else {}
        for hid, c in sc['handlers'].items():
            if c['kind'] == 'daemon':
                # (`bzero`: an explicit zero for the backoff -- the stage of the signal lasts no time at all -- instead of none)
                kopf.daemon(GROUP, VERSION, PLURAL, registry=reg, id=hid, cancellation_backoff=c['backoff'] or (0 if c.get('bzero') else None),
                            cancellation_timeout=c['timeout'] or None, cancellation_polling=c.get('polling', 3), **flt)(mk_daemon(hid, c))
            else:
                kw = {}
                if c.get('interval'): kw['interval'] = c['interval']
                if c.get('idle'): kw['idle'] = c['idle']
                kopf.timer(GROUP, VERSION, PLURAL, registry=reg, id=hid, **kw, **flt)(mk_timer(hid, c))
        if sc.get('peering'):        # the operator takes part in a cluster peering: a foreign record of a higher priority pauses it
            import datetime
            from sim.fakek8s import ResDef
            pres = sim.srv.add_resource(ResDef('kopf.dev', 'v1', 'clusterkopfpeerings', 'ClusterKopfPeering', namespaced=False))
            sim.srv.create(pres, None, 'default', {})
            op = sim.operator('op1', reg, sim.settings(background__cancellation_polling=3, peering__lifetime=60), peering_name='default',
                              priority=10, identity='op1', clusterwide=True)
            from sim.clock import EPOCH as epoch

            def pause(life: int) -> None:
                iso = (epoch + datetime.timedelta(seconds=sim.now)).isoformat()
                sim.srv.edit(pres, None, 'default', lambda o_: o_.setdefault('status', {}).update(
                    x={'priority': 100, 'lifetime': life, 'lastseen': iso}), actor='ext')
        else:
            op = sim.operator('op1', reg, sim.settings(background__cancellation_polling=3))
        hold = {'fin': sc.get('delete_before_finalizer', False)}
        from sim.fakek8s import Plan
        sim.srv.policy = lambda req: Plan(pre=hold['fin'] and req.route.get('kind') == 'patch' and 2 or 0)

        def project(res, o):
            md = o.get('metadata', {})
            return {'deleting': md.get('deletionTimestamp') is not None, 'match': (md.get('labels', {}) or {}).get('on') == 'yes' or not use_label,
                    'fins': list(md.get('finalizers', []) or []), 'rv': int(md['resourceVersion']),
                    'dummy': 'kopf.zalando.org/touch-dummy' in (md.get('annotations', {}) or {})}
        sim.srv.projector = project
        sim.world.at(1, lambda: sim.create('o1', {'x': 1}, labels={'on': 'yes' if sc.get('init_on', True) else 'no'}), 1)

        def do(op_: str, *a: Any) -> None:
            o = sim.obj('o1')
            if op_ == 'toggle' and o is not None:
                cur = o['metadata'].get('labels', {}).get('on') == 'yes'
                sim.edit('o1', lambda b: b['metadata'].setdefault('labels', {}).update(on='no' if cur else 'yes'))
            elif op_ == 'edit' and o is not None:
                sim.set_spec('o1', x=o['spec']['x'] + 1)
            elif op_ == 'delete' and o is not None:
                sim.delete('o1')
            elif op_ == 'forcefin' and o is not None and o['metadata'].get('finalizers'):
                sim.edit('o1', lambda b: b['metadata'].pop('finalizers', None), actor='foreign')
            elif op_ == 'pause' and sc.get('peering'):
                pause(*a)
            elif op_ == 'stop':
                if not op.done: op.stop()
        for (t, ph, op_, *a) in sc.get('env', []):
            sim.world.at(t, (lambda op_=op_, a=a: do(op_, *a)), ph)
        stall = False
        try:
            sim.run(sc['end'])
            if not op.done: sim.rec('quiet')
            op.finish()
        except Stall as e:
            stall = True; sim.rec('stall', what=str(e))
        # ---- convert
        out: list[dict[str, Any]] = []
        pstate = {'on': False}
        snaps: dict[int, dict[str, Any]] = {}
        for e in sim.recorder.events:
            ev = e['ev']; t = e['t']
            if ev == 'srv.create' and e.get('res') == 'things':
                p = e['proj']; snaps[e['rv']] = p
                out.append({'ev': 'obj', 't': t, 'exists': True, 'deleting': p['deleting'], 'match': p['match']})
            elif ev == 'srv.state' and e.get('res') == 'things':
                p = e['proj']; snaps[e['rv']] = p
                out.append({'ev': 'obj', 't': t, 'exists': not e.get('gone'), 'deleting': p['deleting'], 'match': p['match']})
                if p['deleting'] and FIN not in p['fins'] and lastwrite.get('fin_before'):
                    out.append({'ev': 'released', 't': t, 'byop': lastwrite.get('actor') == 'op1'})
            elif ev == 'srv.write' and e.get('res') == 'things':
                prev = snaps.get(max(snaps) if snaps else 0, {'fins': []})
                lastwrite = {'actor': e.get('actor'), 'fin_before': FIN in prev.get('fins', [])}
                if e.get('how') == 'delete':
                    snaps[e['rv']] = dict(prev, deleting=False)
                    out.append({'ev': 'obj', 't': t, 'exists': False, 'deleting': False, 'match': prev.get('match', True)})
            elif ev == 'q.proc.begin' and e.get('res') == 'things':
                p = snaps.get(int(e['rv']))
                if p is None: continue
                out.append({'ev': 'proc', 't': t, 'type': e.get('type') or 'NONE', 'deleting': p['deleting'], 'match': p['match']})
            elif ev == 'd.enter': out.append({'ev': 'enter', 't': t, 'h': e['h']})
            elif ev == 'd.flagseen': out.append({'ev': 'flagseen', 't': t, 'h': e['h']})
            elif ev == 'd.cancel': out.append({'ev': 'cancel', 't': t, 'h': e['h']})
            elif ev == 'd.exit': out.append({'ev': 'exit', 't': t, 'h': e['h'], 'how': e['how']})
            elif ev == 'op.stop': out.append({'ev': 'opexit', 't': t})
            # (the runs of a timer's function that takes a while: for TickMonitor.tla only)
            elif ev in ('t.tick', 't.end', 't.cancel') and sc['handlers'].get(e['h'], {}).get('dur'):
                out.append({'ev': {'t.tick': 'tick', 't.end': 'tickend', 't.cancel': 'tickcancel'}[ev], 't': t, 'h': e['h']})
            elif ev == 'peer.eval' and bool(e.get('paused')) != pstate['on']:
                pstate['on'] = bool(e.get('paused')); out.append({'ev': 'paused', 't': t, 'on': pstate['on']})
            elif ev == 'quiet': out.append({'ev': 'quiet', 't': t})
            elif ev == 'stall': out.append({'ev': 'stall', 't': t})
        none = {'kind': 'none', 'backoff': 0, 'timeout': 0, 'sync': False}
        conf = {h: ({'kind': sc['handlers'][h]['kind'], 'backoff': sc['handlers'][h].get('backoff', 0), 'timeout': sc['handlers'][h].get('timeout', 0),
                     'sync': bool(sc['handlers'][h].get('sync'))}
                    if h in sc['handlers'] else none) for h in HS}
        sconf = {'dh': {h: {'kind': conf[h]['kind'], 'backoff': conf[h]['backoff'], 'timeout': conf[h]['timeout'], 'sync': conf[h]['sync']} for h in HS},
                 'polling': 3, 'filter': bool(use_label), 'exitto': 2, 'peering': bool(sc.get('peering'))}
        strace = convert_spawning(sim.recorder.events)
        return {'id': sc['id'], 'conf': conf, 'events': out, 'stall': stall, 'scenario': sc,
                'spawning': {'id': sc['id'], 'conf': sconf, 'init': strace['init'], 'events': strace['events']}}
    finally:
        sim.close()


lastwrite: dict[str, Any] = {}


def convert_spawning(raw: list[dict[str, Any]]) -> dict[str, Any]:
    """Recorder log -> events of Trace_Spawning.tla. Renaming and projection only (the versions of the object -> 1, 2, 3, ...)."""
    out: list[dict[str, Any]] = []
    init = None; pending: dict[str, Any] = {}
    rvmap: dict[int, int] = {}

    def new(rv: int) -> int:
        rvmap.setdefault(int(rv), len(rvmap) + 1)
        return rvmap[int(rv)]

    def old(rv: Any) -> int:
        return rvmap.get(int(rv), 0) if rv is not None else 0
    paused = False
    scheds: dict[int, str] = {}
    for e in raw:
        ev = e['ev']; t = e['t']
        if ev == 'q.start':
            scheds[e['sched']] = e['res']
            continue
        if ev == 'srv.create' and e.get('res') == 'things':
            if init is None:
                new(e['rv']); init = {'t': t, 'match': bool(e['proj']['match'])}
            continue
        if init is None:
            continue
        if ev == 'srv.write' and e.get('res') == 'things':
            if e.get('noop'): continue
            if e.get('how') == 'delete':             # removed at once (no finalizers): no srv.state follows
                out.append({'ev': 'delete', 't': t, 'rv': new(e['rv']), 'gone': True})
            else:
                pending = e
        elif ev == 'srv.state' and e.get('res') == 'things':
            rv = new(e['rv']); p = e['proj']; actor = pending.get('actor'); how = pending.get('how')
            if how == 'delete-mark': out.append({'ev': 'delete', 't': t, 'rv': rv, 'gone': False})
            elif actor == 'user': out.append({'ev': 'edit', 't': t, 'rv': rv, 'match': bool(p['match'])})
            elif actor == 'foreign': out.append({'ev': 'forcefin', 't': t, 'rv': rv, 'gone': bool(e.get('gone'))})
        elif ev in ('q.new', 'q.put') and e.get('res') == 'things' and e.get('type') is not None:
            out.append({'ev': 'deliver', 't': t, 'rv': old(e['rv']), 'type': e['type']})
        elif ev == 'q.proc.begin' and e.get('res') == 'things':
            out.append({'ev': 'begin', 't': t, 'rv': old(e['rv']), 'type': e.get('type') or 'NONE'})
        elif ev == 'q.proc.end' and e.get('res') == 'things':
            out.append({'ev': 'end', 't': t})
        elif ev == 'srv.req' and e.get('plural') == 'things' and e.get('kind') == 'patch':
            code = e['code']; p = e.get('proj') or {}
            if e.get('ptype') == 'merge':
                out.append({'ev': 'merge', 't': t, 'code': code, 'rv': old(p.get('rv')), 'dummy': bool(p.get('dummy')), 'fin': FIN in p.get('fins', [])})
            else:
                out.append({'ev': 'json', 't': t, 'code': code, 'rv': old(p.get('rv')), 'fin': FIN in p.get('fins', []), 'gone': bool(e.get('gone'))})
        elif ev == 'd.enter': out.append({'ev': 'enter', 't': t, 'h': e['h']})
        elif ev == 'd.flagseen': out.append({'ev': 'flagseen', 't': t, 'h': e['h']})
        elif ev == 'd.cancel': out.append({'ev': 'cancel', 't': t, 'h': e['h']})
        elif ev == 'd.exit': out.append({'ev': 'exit', 't': t, 'h': e['h']})
        elif ev == 't.tick': out.append({'ev': 'tick', 't': t, 'h': e['h']})
        elif ev == 'peer.eval' and bool(e.get('paused')) != paused:
            paused = bool(e.get('paused')); out.append({'ev': 'pause' if paused else 'resume', 't': t})
        elif ev == 'srv.req' and e.get('plural') == 'things' and e.get('kind') == 'list' and e.get('code') == 200 and out:
            rvs = e.get('rvs', [])
            out.append({'ev': 'list', 't': t, 'rv': old(rvs[0]) if rvs else 0})
        elif ev == 'op.stop':
            if not any(x['ev'] == 'stop' for x in out):       # (the harness asks again when it ends the run)
                out.append({'ev': 'stop', 't': t})
        elif ev == 'q.depleting' and scheds.get(e.get('sched')) == 'things':
            if not any(x['ev'] == 'closed' for x in out):     # the watcher has ended: the stream is closed from now on
                out.append({'ev': 'closed', 't': t})
        elif ev == 'op.return': out.append({'ev': 'down', 't': t})
        elif ev == 'quiet': out.append({'ev': 'quiet', 't': t})
    return {'init': init, 'events': out}


_RE_S = re.compile(r'<<\s*"VERDICT",\s*(\d+),\s*"([^"]*)",\s*(-?\d+),\s*(-?\d+),\s*(\d+),\s*"([^"]*)"\s*>>')


def judge_spawning(traces: list[dict[str, Any]], rep: Any = None) -> dict[str, dict[str, Any]]:
    """Step conformance: every recorded execution must be a behaviour of Spawning.tla (Trace_Spawning in TLC)."""
    from concurrent.futures import ThreadPoolExecutor
    sts = [t['spawning'] for t in traces]
    nshards = max(1, min(14, len(sts) // 10))
    cfg = ('SPECIFICATION TSpec\nCONSTANTS\n  Hs = {"d1", "d2", "t1"}\n  ConfSet = {}\n  Horizon = 1000000\n  MaxEdits = 1000\n  MaxToggles = 1000\n'
           '  MaxDeletes = 1000\n  MaxForce = 1000\n  MaxStops = 1000\n  MaxKills = 0\n  MaxPauses = 1000\nCONSTRAINT Book\nPOSTCONDITION Verdicts\nCHECK_DEADLOCK FALSE\n')

    def one(k: int):
        group = sts[k::nshards]
        scratch = tempfile.mkdtemp(prefix='vf-sp-')
        try:
            path = os.path.join(scratch, 'traces.json')
            with open(path, 'w') as f:
                json.dump(group, f)
            r = tlc.run('Trace_Spawning', cfg_text=cfg, workers=1, deque=True, env={'TRACE_FILE': path}, timeout=3000)
        finally:
            shutil.rmtree(scratch, ignore_errors=True)
        if not r.ok:
            raise MachineryFailure(f'Trace_Spawning failed: {r.violated} {r.errors}\n{r.out[-3000:]}')
        return group, r
    with ThreadPoolExecutor(14) as ex:
        results = list(ex.map(one, range(nshards)))
    verdicts: dict[str, dict[str, Any]] = {}
    agg = {'distinct': 0, 'generated': 0}
    for group, r in results:
        agg['distinct'] += r.distinct; agg['generated'] += r.generated
        got = {int(m.group(1)): m for m in _RE_S.finditer(r.out)}
        if len(got) != len(group):
            raise MachineryFailure(f'Trace_Spawning printed {len(got)} verdicts for {len(group)} traces\n{r.out[-2000:]}')
        for i, t in enumerate(group, start=1):
            m = got[i]; strict, loose, n, bad = int(m.group(3)), int(m.group(4)), int(m.group(5)), m.group(6)
            if strict == n: v = 'ok'
            elif loose == n: v = bad
            else: v = f'rejected at event {loose + 1} of {n}: {t["events"][loose] if loose < len(t["events"]) else None}'
            verdicts[t['id']] = {'verdict': v, 'reach': loose, 'n': n}
    if rep is not None:
        rep.states += agg['distinct']; rep.transitions += agg['generated']
        rep.tlc_runs.append({'config': f'Trace_Spawning ({len(results)} shards)', 'distinct_states': agg['distinct'], 'states_generated': agg['generated']})
    return verdicts


def gen_scenarios(seed: int, n: int) -> list[dict[str, Any]]:
    rnd = random.Random(f'daemons-{seed}')
    out = []
    for i in range(n):
        hs: dict[str, Any] = {}
        for hid in ['d1', 'd2'][:rnd.choice([1, 1, 2])]:
            reaction = rnd.choice(['obey', 'obey', 'cancel', 'ignore', 'selfexit'])
            hs[hid] = {'kind': 'daemon', 'reaction': reaction, 'after': rnd.choice([0, 1, 2, 6]) if reaction in ('obey', 'selfexit') else 0,
                       'backoff': rnd.choice([0, 2, 3]), 'timeout': rnd.choice([0, 2, 4])}
            if reaction == 'selfexit': hs[hid]['after'] = rnd.choice([1, 3, 8])
        rs = random.Random(f'daemons-sync-{seed}-{i}')       # (a stream of its own: the histories of earlier rounds stay as they were)
        for hid in hs:
            if rs.random() < 0.3: hs[hid]['sync'] = True
        rz = random.Random(f'daemons-zero-{seed}-{i}')
        for hid in hs:
            if hs[hid]['kind'] == 'daemon' and not hs[hid]['backoff'] and rz.random() < 0.6: hs[hid]['bzero'] = True
        if rnd.random() < 0.4:
            hs['t1'] = {'kind': 'timer', 'interval': rnd.choice([0, 2, 3]), 'idle': rnd.choice([0, 0, 2])}
            if not hs['t1']['interval'] and not hs['t1']['idle']: hs['t1']['interval'] = 2
        env = []; t = 1
        for _ in range(rnd.randint(1, 5)):
            t += rnd.choice([1, 1, 2, 3, 5, 8])
            env.append((t, rnd.choice([0, 1]), rnd.choice(['toggle', 'toggle', 'edit', 'delete', 'forcefin', 'stop'])))
        sc = {'id': f'daemons-{seed}-{i}', 'handlers': hs, 'env': env, 'init_on': rnd.random() < 0.85,
              'delete_before_finalizer': False, 'end': t + 60}
        if i % 4 == 1:           # every fourth history: the operator is in a peering and is paused once or twice for a while
            sc['peering'] = True
            for _ in range(rs.choice([1, 1, 2])):
                sc['env'].append((rs.randint(2, max(3, t)), rs.choice([0, 1]), 'pause', rs.choice([1, 2, 3, 5, 8])))
            sc['env'].sort(key=lambda x: (x[0], x[1]))
        out.append(sc)
    return out


def crafted() -> list[dict[str, Any]]:
    """Histories aimed at the arithmetic of the stages: a second look at a stopping daemon while its backoff or its cancellation
    timeout is running (the remaining delay must shrink with the age of the flag), for every reaction and for threads."""
    out = []
    for k, (reaction, b, t, sync) in enumerate([('cancel', 3, 0, False), ('cancel', 3, 4, False), ('ignore', 2, 4, False), ('ignore', 3, 0, False),
                                                ('cancel', 2, 4, True), ('obey', 3, 2, False), ('ignore', 0, 4, False), ('cancel', 0, 3, True)]):
        for how in ('toggle', 'delete'):
            for looks in ((1,), (1, 2), (b + 1,), (b + 1, b + 2)):
                env = [(5, 1, how)] + [(5 + d, 1, 'edit') for d in looks if how == 'toggle' or True]
                out.append({'id': f'dcrafted-{k}-{how}-{"_".join(map(str, looks))}',
                            'handlers': {'d1': {'kind': 'daemon', 'reaction': reaction, 'after': 6 if reaction == 'obey' else 0,
                                                'backoff': b, 'timeout': t, 'sync': sync}},
                            'env': env, 'init_on': True, 'delete_before_finalizer': False, 'end': 60})
    # the pausing branch of the daemon killer: a pause of several rounds (one per second), daemons that swallow the cancellation
    # (cancelled again by every round), changes sneaking in at the instant of the pause and arriving during it
    for k, (reaction, b, t, sync) in enumerate([('ignore', 1, 2, False), ('cancel', 2, 3, False), ('ignore', 0, 1, False), ('obey', 2, 2, False),
                                                ('ignore', 2, 0, False), ('cancel', 1, 2, True)]):
        for life in (3, 6):
            for extra in ((), ((5, 1, 'edit'),), ((7, 1, 'toggle'),), ((6, 1, 'delete'),)):
                out.append({'id': f'dpause-{k}-{life}-{len(out)}', 'peering': True,
                            'handlers': {'d1': {'kind': 'daemon', 'reaction': reaction, 'after': 4 if reaction == 'obey' else 0,
                                                'backoff': b, 'timeout': t, 'sync': sync}},
                            'env': sorted([(5, 1, 'pause', life)] + list(extra), key=lambda x: (x[0], x[1])), 'init_on': True,
                            'delete_before_finalizer': False, 'end': 70})
    # the same histories with an explicit zero where there was no backoff: the stage of the signal lasts no time at all
    import copy
    for sc in list(out):
        if sc['handlers']['d1']['backoff'] == 0:
            z = copy.deepcopy(sc); z['id'] += '-z'; z['handlers']['d1']['bzero'] = True
            out.append(z)
    return out


def tlc_scenarios(seed: int, num: int, depth: int = 150) -> list[dict[str, Any]]:
    """Leg C: configurations and histories drawn by TLC itself (`-simulate` on Sim_Spawning) become scenarios of the real operator."""
    from vf import tlaval
    scratch = tempfile.mkdtemp(prefix='vf-ssim-')
    try:
        tlc.run('Sim_Spawning', 'Sim_Spawning.cfg', workers=1, simulate=f'file={scratch}/tr,num={num}', depth=depth, seed=seed, timeout=900)
        out = []
        for fn in sorted(f for f in os.listdir(scratch) if f.startswith('tr_')):
            text = open(os.path.join(scratch, fn)).read()
            states = []
            for b in re.split(r'\n(?=\\\* <)', text):
                m = re.search(r'STATE_\d+ ==\s*\n((?:.|\n)*)', b)
                if m:
                    states.append(tlaval.parse_state(m.group(1).split('\n====')[0]))
            if len(states) < 3:
                continue
            dh = states[0]['conf']['dh']
            hs: dict[str, Any] = {}
            for h in ('d1', 'd2'):
                c = dh[h]
                if str(c['kind']) == 'daemon':
                    hs[h] = {'kind': 'daemon', 'reaction': str(c['react']), 'after': max(0, int(c['lat'])), 'backoff': int(c['backoff']),
                             'timeout': int(c['timeout'])}
            if str(dh['t1']['kind']) == 'timer':
                hs['t1'] = {'kind': 'timer', 'interval': 2, 'idle': 0}
            env: list[tuple] = []
            for a, b in zip(states, states[1:]):
                t = int(a['now']) + 1          # the harness creates the object at instant 1
                for key, op in (('edits', 'edit'), ('toggles', 'toggle'), ('deletes', 'delete'), ('force', 'forcefin'), ('stops', 'stop')):
                    if int(b['bud'][key]) > int(a['bud'][key]):
                        env.append((t, 1, op))
            tmax = int(states[-1]['now']) + 1
            out.append({'id': f'tlc-{seed}-{fn}', 'handlers': hs, 'env': env, 'init_on': True, 'delete_before_finalizer': False, 'end': tmax + 60,
                        'from_tlc': True})
        return out
    finally:
        shutil.rmtree(scratch, ignore_errors=True)


_RE = re.compile(r'<<\s*"MONITOR",\s*(\d+),\s*"([^"]*)",\s*"([^"]*)"\s*>>')


def judge(traces: list[dict[str, Any]], rep: Any, focus: str = '') -> dict[str, str]:
    scratch = tempfile.mkdtemp(prefix='vf-dm-')
    try:
        path = os.path.join(scratch, 'traces.json')
        with open(path, 'w') as f:
            json.dump([{'id': t['id'], 'conf': t['conf'], 'events': [e for e in t['events'] if not e['ev'].startswith('tick')]} for t in traces], f)
        cfg = 'SPECIFICATION Spec\nCONSTANT Hs = {"d1", "d2", "t1"}\nCONSTANT Focus = "' + focus + '"\nCONSTRAINT Book\nPOSTCONDITION Verdicts\nCHECK_DEADLOCK FALSE\n'
        r = tlc.run('DaemonMonitor', cfg_text=cfg, workers=1, env={'TRACE_FILE': path}, timeout=1800)
    finally:
        shutil.rmtree(scratch, ignore_errors=True)
    if not r.ok:
        raise MachineryFailure(f'DaemonMonitor failed: {r.violated} {r.errors}\n{r.out[-3000:]}')
    rep.add_tlc('DaemonMonitor', r)
    got = {int(m.group(1)): m.group(3) for m in _RE.finditer(r.out)}
    if len(got) != len(traces) or 'incomplete' in got.values():
        raise MachineryFailure(f'DaemonMonitor: {len(got)} verdicts for {len(traces)} traces, incomplete={list(got.values()).count("incomplete")}\n{r.out[-1500:]}')
    return {t['id']: got[i] for i, t in enumerate(traces, start=1)}


# ---------------------------------------------------------------------------------------------------------------------
# A timer's function that takes a while (TickMonitor.tla): the object is held while it runs -- timers are waited for (polled), never
# cancelled and never given up, whatever the daemons next to them are granted.
def tick_scenarios(seed: int, n: int) -> list[dict[str, Any]]:
    rnd = random.Random(f'ticks-{seed}')
    out = []
    for i in range(n):
        hs: dict[str, Any] = {}
        k = rnd.choice([0, 1, 1, 2])
        for hid in ['d1', 'd2'][:k]:
            reaction = rnd.choice(['ignore', 'ignore', 'cancel', 'obey'])
            hs[hid] = {'kind': 'daemon', 'reaction': reaction, 'after': rnd.choice([0, 2]) if reaction == 'obey' else 0, 'backoff': rnd.choice([0, 1, 2]), 'timeout': rnd.choice([1, 2, 3])}
        dur = rnd.choice([6, 9, 12])
        hs['t1'] = {'kind': 'timer', 'interval': rnd.choice([2, 4]), 'idle': 0, 'dur': dur}
        # the first run starts with the object (t = 1), the next ones `interval` after the end of the previous one: stop in the middle of a run
        t_del = 1 + rnd.randint(1, dur - 2) + rnd.choice([0, dur + hs['t1']['interval']])
        out.append({'id': f'ticks-{seed}-{i}', 'handlers': hs, 'env': [(t_del, 1, rnd.choice(['delete', 'delete', 'toggle']))], 'init_on': True,
                    'delete_before_finalizer': False, 'end': t_del + 60})
    return out


def judge_ticks(traces: list[dict[str, Any]], rep: Any) -> dict[str, str]:
    scratch = tempfile.mkdtemp(prefix='vf-tick-')
    try:
        path = os.path.join(scratch, 'traces.json')
        keep = ('obj', 'released', 'opexit', 'tick', 'tickend', 'tickcancel', 'quiet')
        with open(path, 'w') as f:
            json.dump([{'id': t['id'], 'events': [dict({'h': '', 'byop': False, 'match': False, 'exists': False}, **e) for e in t['events'] if e['ev'] in keep]} for t in traces], f)
        r = tlc.run('TickMonitor', cfg_text='SPECIFICATION Spec\nCONSTRAINT Book\nPOSTCONDITION Verdicts\nCHECK_DEADLOCK FALSE\n', workers=1,
                    env={'TRACE_FILE': path}, timeout=900)
    finally:
        shutil.rmtree(scratch, ignore_errors=True)
    if not r.ok:
        raise MachineryFailure(f'TickMonitor failed: {r.violated} {r.errors}\n{r.out[-3000:]}')
    rep.add_tlc('TickMonitor', r)
    got = {int(m.group(1)): m.group(3) for m in _RE.finditer(r.out)}
    if len(got) != len(traces) or 'incomplete' in got.values():
        raise MachineryFailure(f'TickMonitor: {len(got)} verdicts for {len(traces)} traces\n{r.out[-1500:]}')
    return {t['id']: got[i] for i, t in enumerate(traces, start=1)}
