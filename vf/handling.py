"""Closed-loop harness for the Handling family (C02, C03, C05 system level, C06, C07, C11, C14, C15 stealth).

A scenario declares change handlers (through the public decorators) with outcome scripts, settings,
and a timed list of environment actions; `run_scenario` executes the REAL kopf.operator() on it in the
world simulator and converts the recording into the vocabulary of spec/Trace_Handling.tla;
`judge` has TLC decide, per trace, whether Handling.tla explains it (with all invariants true).
"""
from __future__ import annotations

import json
import os
import re
import tempfile
from typing import Any

from vf import tlc
from vf.evidence import MachineryFailure

FIN = 'kopf.zalando.org/KopfFinalizerMarker'
PREFIX = 'kopf.zalando.org'
NEVER = 1000000
REASONS = ('create', 'update', 'delete', 'resume')


def ess_id(x: Any, on: bool) -> int:
    return 2 * int(x) - (0 if on else 1) if x is not None else 0      # x=1,on -> 2 ; x=1,off -> 1


def hdl(reasons, script=None, *, optional=False, deleted=False, retries=0, errors='temporary', backoff=2):
    return {'reasons': list(reasons), 'script': list(script or []), 'optional': optional, 'deleted': deleted,
            'retries': retries, 'errors': errors, 'backoff': backoff}


# --------------------------------------------------------------------------- running
def run_scenario(sc: dict[str, Any]) -> dict[str, Any]:
    import kopf
    from sim.clock import to_virtual
    from sim.opsim import GROUP, PLURAL, VERSION, Sim, Stall
    hs: dict[str, dict[str, Any]] = sc['handlers']
    order: list[str] = sc.get('order') or list(hs)
    use_label = sc.get('label_filter', True)
    sim = Sim(wall_budget=30)
    try:
        def project(res, o):
            if res.plural != PLURAL:
                return None
            md = o.get('metadata', {}); ann = md.get('annotations', {}) or {}
            on = (md.get('labels', {}) or {}).get('on') == 'yes'
            lh_raw = ann.get(f'{PREFIX}/last-handled-configuration')
            lh = 0
            if lh_raw is not None:
                e = json.loads(lh_raw)
                lh = ess_id(e.get('spec', {}).get('x'), (e.get('metadata', {}).get('labels', {}) or {}).get('on') == 'yes')
            prog = {}
            for h in hs:
                raw = ann.get(f'{PREFIX}/{h}')
                if raw is None:
                    prog[h] = {'st': 'none', 'r': 0, 'pu': 'none', 'until': 0}
                else:
                    d = json.loads(raw)
                    st = 'succ' if d.get('success') else 'fail' if d.get('failure') else 'retry' if d.get('retries') else 'pend'
                    until = 0
                    if d.get('delayed') and st == 'retry':
                        v = to_virtual(d['delayed'])
                        until = int(v) if float(v).is_integer() else -1
                    prog[h] = {'st': st, 'r': int(d.get('retries') or 0), 'pu': d.get('purpose') or 'none', 'until': until}
            return {'ess': ess_id(o.get('spec', {}).get('x'), on), 'lh': lh, 'prog': prog,
                    'fins': ['K' if f == FIN else f for f in md.get('finalizers', []) or []],
                    'deleting': md.get('deletionTimestamp') is not None,
                    'dummy': f'{PREFIX}/touch-dummy' in ann, 'match': on or not use_label,
                    'rv': int(md['resourceVersion'])}
        sim.srv.projector = project

        lifecycle = {'one': kopf.lifecycles.one_by_one, 'all': kopf.lifecycles.all_at_once,
                     'asap': kopf.lifecycles.asap}[sc.get('lifecycle', 'asap')]

        # one function object per handler id, shared by all its decorators and by all incarnations
        fns = {h: sim.handler(h, hs[h]['script'], kind='change') for h in order}

        def registry():
            reg = sim.registry()
            flt = {'labels': {'on': 'yes'}} if use_label else {}
            for h in order:
                c = hs[h]
                kw = dict(registry=reg, id=h, errors={'temporary': kopf.ErrorsMode.TEMPORARY, 'permanent': kopf.ErrorsMode.PERMANENT,
                                                       'ignored': kopf.ErrorsMode.IGNORED}[c['errors']],
                          retries=c['retries'] or None, backoff=c['backoff'], **flt)
                for reason in c['reasons']:
                    if reason == 'create': kopf.on.create(GROUP, VERSION, PLURAL, **kw)(fns[h])
                    elif reason == 'update': kopf.on.update(GROUP, VERSION, PLURAL, **kw)(fns[h])
                    elif reason == 'delete': kopf.on.delete(GROUP, VERSION, PLURAL, optional=c['optional'], **kw)(fns[h])
                    elif reason == 'resume': kopf.on.resume(GROUP, VERSION, PLURAL, deleted=c['deleted'], **kw)(fns[h])
            return reg

        def settings():
            return sim.settings(persistence__consistency_timeout=sc.get('ctimeout', 5),
                                queueing__idle_timeout=sc.get('idle', 5),
                                **{k: v for k, v in sc.get('settings', {}).items()})

        state = {'op': None, 'n': 0}

        def start():
            state['n'] += 1
            state['op'] = sim.operator(f'op{state["n"]}', registry(), settings(), lifecycle=lifecycle)

        init = sc.get('init', {'x': 1, 'on': True})
        t0 = sc.get('t0', 1)

        def create():
            sim.create('o1', {'x': init['x']}, labels={'on': 'yes' if init.get('on', True) else 'no'})

        def do(op: str, *a: Any) -> None:
            o = state['op']
            if op == 'edit':
                sim.set_spec('o1', x=a[0])
            elif op == 'toggle':
                def f(b):
                    cur = b['metadata'].get('labels', {}).get('on') == 'yes'
                    b['metadata'].setdefault('labels', {})['on'] = 'no' if cur else 'yes'
                sim.edit('o1', f)
            elif op == 'delete':
                sim.delete('o1')
            elif op == 'finadd':
                sim.rec('env.fin', op='add', name=a[0])
                sim.edit('o1', lambda b: b['metadata'].setdefault('finalizers', []).append(a[0]), actor='foreign')
            elif op == 'findel':
                sim.rec('env.fin', op='del', name=a[0])
                sim.edit('o1', lambda b: b['metadata']['finalizers'].remove(a[0]), actor='foreign')
            elif op == 'kill':
                if o is not None and not o.killed: o.kill()
            elif op == 'stop':
                if o is not None and not o.done: o.stop()
            elif op == 'start':
                start()
            elif op == 'relist':
                sim.srv.compact(sim.things)
                for w in list(sim.srv.watches):
                    if w.res.plural == PLURAL: w.end('eof')
            elif op == 'hold':
                held['on'] = True
            elif op == 'release':
                held['on'] = False
                for w in list(sim.srv.watches):
                    if w.res.plural == PLURAL: w.release()
            else:
                raise MachineryFailure(f'unknown env op {op}')
        held = {'on': False}
        sim.srv.watch_policy = lambda w, line: not (held['on'] and w.res.plural == PLURAL)

        start()
        sim.world.at(t0, create, 1)
        for (t, phase, op, *a) in sc.get('env', []):
            if sim.obj is None: break
            sim.world.at(t, (lambda op=op, a=a: _safe(do, op, *a)), phase)
        stall = False
        try:
            sim.run(sc['end'])
            o = state['op']
            if o is not None and not o.done and not o.killed:
                sim.rec('quiet')
        except Stall as e:
            stall = True
            sim.rec('stall', what=str(e))
        raw = sim.recorder.events
        tr = convert(raw, hs, sc)
        return {'id': sc['id'], 'cfg': cfg_key(sc), 'init': tr['init'], 'events': tr['events'], 'stall': stall, 'scenario': sc,
                'final': project(sim.things, sim.obj('o1')) if sim.obj('o1') else None,
                'patches_tail': len([e for e in raw if e['ev'] == 'srv.req' and e.get('kind') == 'patch'
                                     and e['t'] > sc.get('tail_from', sc['end'])])}
    finally:
        sim.close()


def _safe(fn, *a):
    try:
        fn(*a)
    except KeyError:
        pass        # the object is gone: the scripted edit has no target any more


def cfg_key(sc: dict[str, Any]) -> str:
    hs = sc['handlers']; order = sc.get('order') or list(hs)
    return json.dumps({'order': order, 'lifecycle': sc.get('lifecycle', 'asap'), 'ctimeout': sc.get('ctimeout', 5),
                       'hc': {h: {k: hs[h][k] for k in ('reasons', 'optional', 'deleted', 'retries', 'errors', 'backoff')} for h in order}},
                      sort_keys=True)


def _rvparse(v: Any, off: int) -> int:
    if v is None:
        return 0
    s = str(v)
    if '~' in s:
        return NEVER
    return int(s) - off


# --------------------------------------------------------------------------- raw log -> trace
def convert(raw: list[dict[str, Any]], hs: dict[str, Any], sc: dict[str, Any]) -> dict[str, Any]:
    """Renaming/projection only: real resourceVersions -> 1, 2, 3, ... of the object; no state is guessed."""
    out: list[dict[str, Any]] = []
    off = None; init = None
    enter: dict[tuple[str, str], dict[str, Any]] = {}
    last_rv = 0
    listed_rvs: set[int] = set()
    envfin: dict[str, Any] = {}
    for e in raw:
        ev = e['ev']; t = e['t']
        if ev == 'env.fin':
            envfin = e
            continue
        if ev == 'srv.create' and e.get('res') == 'things':
            if off is None:
                off = e['rv'] - 1
                init = {'ess': e['proj']['ess'], 'match': e['proj']['match'], 't': t}
                last_rv = 1
            continue
        if off is None:
            continue
        if ev == 'srv.write' and e.get('res') == 'things':
            if e.get('noop'):
                continue
            if e.get('how') == 'delete':      # direct removal (no finalizers): no srv.state follows
                rv = e['rv'] - off
                last_rv = rv
                out.append({'ev': 'delete', 't': t, 'rv': rv, 'gone': True})
            else:
                pending_write = e
            continue
        if ev == 'srv.state' and e.get('res') == 'things':
            rv = e['rv'] - off
            if rv != last_rv + 1:
                raise MachineryFailure(f'versions of the object are not consecutive: {last_rv} -> {rv}')
            last_rv = rv
            w = pending_write; p = e['proj']
            actor = w.get('actor'); how = w.get('how')
            if how == 'delete-mark':
                out.append({'ev': 'delete', 't': t, 'rv': rv, 'gone': False})
            elif actor == 'user':
                out.append(dict(ev='edit', t=t, **_objfields(p, off)))
            elif actor == 'foreign':
                out.append({'ev': 'fin', 't': t, 'rv': rv, 'fins': p['fins'], 'op': envfin['op'], 'name': envfin['name']})
            continue
        if ev in ('q.new', 'q.put') and e.get('res') == 'things':
            if e.get('type') is None:
                continue                     # a listed item: already in the backlog by the `list` event
            out.append({'ev': 'deliver', 't': t, 'rv': int(e['rv']) - off, 'type': e['type']})
        elif ev == 'srv.req' and e.get('plural') == 'things' and e.get('kind') == 'list':
            rvs = e.get('rvs', [])
            out.append({'ev': 'list', 't': t, 'rv': (rvs[0] - off) if rvs else 0})
        elif ev == 'q.proc.begin' and e.get('res') == 'things':
            ct = e.get('ctime')
            out.append({'ev': 'begin', 't': t, 'rv': int(e['rv']) - off, 'type': e.get('type') or 'NONE',
                        'exp': _rvparse(e.get('expected'), off), 'ctime': int(ct) if ct is not None and float(ct).is_integer() else (0 if ct is None else -1),
                        'pr': bool(e.get('pressure'))})
        elif ev == 'q.proc.end' and e.get('res') == 'things':
            out.append({'ev': 'end', 't': t, 'rv': _rvparse(e.get('patched'), off)})
        elif ev == 'h.enter' and e.get('kind') == 'change':
            enter[(e['loop'], e['id'])] = e
        elif ev == 'h.exit' and e.get('kind') == 'change':
            en = enter.pop((e['loop'], e['id']), None)
            if en is None:
                continue
            s = en['script']
            k = s if isinstance(s, str) else s[0]
            d = 0 if isinstance(s, str) or k != 'temp' else s[1]
            if e['outcome'] == 'cancelled':
                continue
            out.append({'ev': 'inv', 't': t, 'h': e['id'], 'retry': en['retry'], 'reason': en['reason'], 'rv': (en['rv'] or 0) - off,
                        'k': k, 'd': d, 't_enter': en['t']})
        elif ev == 'srv.req' and e.get('plural') == 'things' and e.get('kind') == 'patch':
            code = e['code']
            if e.get('ptype') == 'merge':
                if code == 404:
                    out.append({'ev': 'merge', 't': t, 'code': 404, 'changed': False})
                else:
                    out.append(dict(ev='merge', t=t, code=code, changed=bool(e.get('changed')), **_objfields(e['proj'], off)))
            else:
                rec = {'ev': 'json', 't': t, 'code': code}
                if code == 200:
                    p = e['proj']
                    rec.update(fins=p['fins'], rv=p['rv'] - off, gone=bool(e.get('gone')))
                out.append(rec)
        elif ev == 'op.kill':
            out.append({'ev': 'kill', 't': t})
        elif ev == 'op.stop':
            out.append({'ev': 'stop', 't': t})
        elif ev == 'op.return':
            out.append({'ev': 'down', 't': t})
        elif ev == 'quiet':
            out.append({'ev': 'quiet', 't': t})
    return {'init': init, 'events': out}


def _objfields(p: dict[str, Any], off: int) -> dict[str, Any]:
    return {'rv': p['rv'] - off, 'ess': p['ess'], 'lh': p['lh'], 'prog': p['prog'], 'fins': p['fins'],
            'deleting': p['deleting'], 'dummy': p['dummy'], 'match': p['match']}


# --------------------------------------------------------------------------- judging
_RE_VERDICT = re.compile(r'<<"VERDICT",\s*(\d+),\s*"([^"]*)",\s*(-?\d+),\s*(-?\d+),\s*(\d+),\s*"([^"]*)">>')


def _tla_set(xs) -> str:
    return '{' + ', '.join(json.dumps(x) for x in xs) + '}'


def cfg_module(key: str, name: str) -> tuple[str, str]:
    """A generated module holding the handler configuration of one trace group, and the cfg text."""
    c = json.loads(key)
    recs = []
    for h in c['order']:
        x = c['hc'][h]
        recs.append(f'{h} |-> [reasons |-> {_tla_set(x["reasons"])}, optional |-> {str(x["optional"]).upper()}, '
                    f'deleted |-> {str(x["deleted"]).upper()}, retries |-> {x["retries"]}, mode |-> "{x["errors"]}", '
                    f'backoff |-> {x["backoff"]}]')
    mod = (f'---- MODULE {name} ----\nEXTENDS Trace_Handling\n'
           f'HCdef == [{", ".join(recs)}]\nOrderdef == <<{", ".join(json.dumps(h) for h in c["order"])}>>\n'
           f'AllDoors == {{"kill", "lost", "late", "stop"}}\nEss == 0..60\nDel == 0..1000\nFor == {{"f1", "f2"}}\n====\n')
    cfg = ('SPECIFICATION TSpec\nCONSTANTS\n'
           f'  H = {_tla_set(c["order"])}\n  HC <- HCdef\n  Order <- Orderdef\n  Lifecycle = "{c["lifecycle"]}"\n'
           f'  CTimeout = {c["ctimeout"]}\n  Delays <- Del\n  EssVals <- Ess\n  Foreign <- For\n  Horizon = 100000\n  Doors <- AllDoors\n'
           '  MaxEdits = 1000\n  MaxFails = 1000\n  MaxKills = 1000\n  MaxStops = 1000\n  MaxDeletes = 1000\n  MaxForeign = 1000\n'
           '  MaxToggles = 1000\n  MaxRelists = 1000\n  MaxHolds = 1000\n'
           'CONSTRAINT Book\nPOSTCONDITION Verdicts\nCHECK_DEADLOCK FALSE\n')
    return mod, cfg


def judge(traces: list[dict[str, Any]], rep: Any, name: str = 'Trace_Handling') -> dict[str, dict[str, Any]]:
    verdicts: dict[str, dict[str, Any]] = {}
    groups: dict[str, list[dict[str, Any]]] = {}
    for t in traces:
        groups.setdefault(t['cfg'], []).append(t)
    for gi, (key, group) in enumerate(sorted(groups.items())):
        scratch = tempfile.mkdtemp(prefix='vf-th-')
        try:
            mname = f'TH_{gi}'
            mod, cfg = cfg_module(key, mname)
            with open(os.path.join(scratch, mname + '.tla'), 'w') as f:
                f.write(mod)
            path = os.path.join(scratch, 'traces.json')
            with open(path, 'w') as f:
                json.dump([{'id': t['id'], 'init': t['init'], 'events': t['events']} for t in group], f)
            r = tlc.run(os.path.join(scratch, mname + '.tla'), cfg_text=cfg, workers=1, deque=True,
                        env={'TRACE_FILE': path}, timeout=3000)
        finally:
            import shutil
            shutil.rmtree(scratch, ignore_errors=True)
        if not r.ok:
            raise MachineryFailure(f'{name} failed: {r.violated} {r.errors}\n{r.out[-3000:]}')
        rep.add_tlc(f'{name}[{gi}]', r)
        got = {}
        for m in _RE_VERDICT.finditer(r.out):
            got[int(m.group(1))] = dict(id=m.group(2), strict=int(m.group(3)), loose=int(m.group(4)), n=int(m.group(5)), inv=m.group(6))
        if len(got) != len(group):
            raise MachineryFailure(f'{name} printed {len(got)} verdicts for {len(group)} traces\n{r.out[-2000:]}')
        for i, t in enumerate(group, start=1):
            v = got[i]
            if v['strict'] == v['n']:
                v['verdict'] = 'accepted'
            elif v['loose'] == v['n']:
                v['verdict'] = f'invariant {v["inv"]} violated'
            else:
                nxt = t['events'][v['loose']] if v['loose'] < len(t['events']) else None
                v['verdict'] = f'rejected at event {v["loose"] + 1} of {v["n"]}: {nxt}'
            verdicts[t['id']] = v
    return verdicts
