"""Closed-loop harness for the Handling family (C02, C03, C05 system level, C06, C07, C11, C14, C15 stealth).

A scenario declares change handlers (through the public decorators) with outcome scripts, settings,
and a timed list of environment actions; `run_scenario` executes the REAL kopf.operator() on it in the
world simulator and converts the recording into the vocabulary of spec/Trace_Handling.tla;
`judge` has TLC decide, per trace, whether Handling.tla explains it (with all invariants true).
"""
from __future__ import annotations

import json
import os
import re
import shutil
import tempfile
from typing import Any

from vf import tlc
from vf.evidence import MachineryFailure

FIN = 'kopf.zalando.org/KopfFinalizerMarker'
PREFIX = 'kopf.zalando.org'
TWIN_GROUP = 'other.example.com'
NEVER = 1000000
REASONS = ('create', 'update', 'delete', 'resume')
UNIVERSE = ['a', 'b', 'c', 'd', 'e', 'r', 'a/x', 'a/y']       # 'a/x', 'a/y': sub-handlers of 'a' (scenario key `subs`)


def ess_id(x: Any, on: bool) -> int:
    return 2 * int(x) - (0 if on else 1) if x is not None else 0      # x=1,on -> 2 ; x=1,off -> 1


def hdl(reasons, script=None, *, optional=False, deleted=False, retries=0, errors='temporary', backoff=2, timeout=0):
    return {'reasons': list(reasons), 'script': list(script or []), 'optional': optional, 'deleted': deleted,
            'retries': retries, 'errors': errors, 'backoff': backoff, 'timeout': timeout}


# --------------------------------------------------------------------------- running
def run_scenario(sc: dict[str, Any]) -> dict[str, Any]:
    import kopf
    from sim.clock import to_virtual
    from sim.opsim import GROUP, PLURAL, VERSION, Sim, Stall
    hs: dict[str, dict[str, Any]] = sc['handlers']
    order: list[str] = sc.get('order') or list(hs)
    use_label = sc.get('label_filter', True)
    sim = Sim(wall_budget=30)
    sim.world.max_steps = 300_000
    try:
        def project(res, o):
            if res.plural != PLURAL:
                return None
            md = o.get('metadata', {}); ann = md.get('annotations', {}) or {}
            on = (md.get('labels', {}) or {}).get('on') == 'yes'
            lh_raw = ann.get(f'{PREFIX}/last-handled-configuration') or ann.get(f'{PREFIX}/last-handled-configuration-ofDRS')
            lh = 0
            if lh_raw is not None:
                e = json.loads(lh_raw)
                lh = ess_id(e.get('spec', {}).get('x'), (e.get('metadata', {}).get('labels', {}) or {}).get('on') == 'yes')
            prog = {}
            for h in UNIVERSE:
                raw = ann.get(f'{PREFIX}/{h.replace("/", ".")}')
                if raw is None:
                    raw = ann.get(f'{PREFIX}/{h.replace("/", ".")}-ofDRS')       # the key of a ReplicaSet owned by a Deployment (scenario flag `drs`)
                if raw is None:
                    prog[h] = {'st': 'none', 'r': 0, 'pu': 'none', 'until': 0, 'first': 0}
                else:
                    d = json.loads(raw)
                    st = 'succ' if d.get('success') else 'fail' if d.get('failure') else 'retry' if d.get('retries') else 'pend'
                    until = 0
                    if d.get('delayed') and st == 'retry':
                        v = to_virtual(d['delayed'])
                        until = int(v) if float(v).is_integer() else -1
                    first = 0
                    if d.get('started'):
                        v = to_virtual(d['started'])
                        first = int(v) if float(v).is_integer() else -1
                    prog[h] = {'st': st, 'r': int(d.get('retries') or 0), 'pu': d.get('purpose') or 'none', 'until': until, 'first': first}
            pr = {'ess': ess_id(o.get('spec', {}).get('x'), on), 'lh': lh, 'prog': prog,
                  'fins': ['K' if f == FIN else f for f in md.get('finalizers', []) or []],
                  'deleting': md.get('deletionTimestamp') is not None,
                  'dummy': f'{PREFIX}/touch-dummy' in ann or f'{PREFIX}/touch-dummy-ofDRS' in ann, 'match': on or not use_label,
                  'rv': int(md['resourceVersion'])}
            if sc.get('res'):         # handlers return results: status.<handler id> = {'n': k}
                st_ = o.get('status') or {}
                pr['res'] = {h: int((st_.get(h) or {}).get('n', 0)) if isinstance(st_.get(h), dict) else 0 for h in UNIVERSE}
                pr['evres'] = int((st_.get('w') or {}).get('n', 0)) if isinstance(st_.get('w'), dict) else 0
            return pr
        sim.srv.projector = project
        if (sc.get('res') or {}).get('ssub'):
            sim.things.status_sub = True       # the kind has the status subresource: the status part of a patch is a request of its own

        lifecycle = {'one': kopf.lifecycles.one_by_one, 'all': kopf.lifecycles.all_at_once,
                     'asap': kopf.lifecycles.asap}[sc.get('lifecycle', 'asap')]

        # one function object per handler id, shared by all its decorators and by all incarnations
        # (scenario flag `sync`: the handlers are plain functions, run by kopf in threads of the executor - virtual threads here)
        smode = sc.get('sync', '')
        subs = sc.get('subs') or {}          # parent id -> {sub id: script}: registered by the parent's function with @kopf.subhandler
        subfns = {p_: {x: sim.handler(x, list(scr), kind='change') for x, scr in m.items()} for p_, m in subs.items()}

        def registering(p_: str):
            def extra(**_: Any) -> None:
                for x, fn in subfns[p_].items():
                    kopf.subhandler(id=x.split('/', 1)[1])(fn)
            return extra
        fns = {h: sim.handler(h, hs[h]['script'], kind='change', sync=(smode == 'all' or (smode == 'mixed' and h in ('a', 'c', 'r'))),
                              extra=registering(h) if h in subs else None)
               for h in order}

        from vf import daemons as _D
        dfns = {hid: _D.make_daemon_fn(sim, hid, c) for hid, c in (sc.get('daemons') or {}).items()}

        def registry():
            reg = sim.registry()
            flt = {'labels': {'on': 'yes'}} if use_label else {}
            for h in order:
                c = hs[h]
                kw = dict(registry=reg, id=h, errors={'temporary': kopf.ErrorsMode.TEMPORARY, 'permanent': kopf.ErrorsMode.PERMANENT,
                                                       'ignored': kopf.ErrorsMode.IGNORED}[c['errors']],
                          retries=c['retries'] or None, backoff=c['backoff'], timeout=c.get('timeout') or None, **flt)
                for reason in c['reasons']:
                    if reason == 'create': kopf.on.create(GROUP, VERSION, PLURAL, **kw)(fns[h])
                    elif reason == 'update': kopf.on.update(GROUP, VERSION, PLURAL, **kw)(fns[h])
                    elif reason == 'delete': kopf.on.delete(GROUP, VERSION, PLURAL, optional=c['optional'], **kw)(fns[h])
                    elif reason == 'resume': kopf.on.resume(GROUP, VERSION, PLURAL, deleted=c['deleted'], **kw)(fns[h])
            if (sc.get('res') or {}).get('ev'):       # a raw-event handler that returns what it saw: status.w = {'n': essence}
                def w(body, **_):
                    if sc['res']['ev'] == 'const':
                        return {'n': 1}
                    return {'n': ess_id((body.get('spec') or {}).get('x'), ((body.get('metadata') or {}).get('labels') or {}).get('on') == 'yes')}
                kopf.on.event(GROUP, VERSION, PLURAL, registry=reg, id='w')(w)
            for hid, c in (sc.get('daemons') or {}).items():        # daemons on the same object (scripted reactions, see vf/daemons.py)
                kopf.daemon(GROUP, VERSION, PLURAL, registry=reg, id=hid, cancellation_backoff=c['backoff'] or None,
                            cancellation_timeout=c['timeout'] or None, cancellation_polling=3, **flt)(dfns[hid])
            if sc.get('crowd'):      # bystanders: a second kind of the same plural in another group, with handlers of its own
                async def tw(**_: Any) -> Any:
                    return None

                async def tw_slow(retry, **_: Any) -> Any:
                    if retry < 1:
                        raise kopf.TemporaryError('bystander', delay=2)

                async def tw_daemon(stopped, **_: Any) -> None:
                    await stopped.wait()
                kopf.on.create(TWIN_GROUP, VERSION, PLURAL, registry=reg, id='tw_a')(tw)
                kopf.on.create(TWIN_GROUP, VERSION, PLURAL, registry=reg, id='tw_b')(tw_slow)
                kopf.on.update(TWIN_GROUP, VERSION, PLURAL, registry=reg, id='tw_a')(tw)
                kopf.on.update(TWIN_GROUP, VERSION, PLURAL, registry=reg, id='tw_f', field='status.phase')(tw)
                kopf.on.resume(TWIN_GROUP, VERSION, PLURAL, registry=reg, id='tw_r')(tw)
                kopf.on.delete(TWIN_GROUP, VERSION, PLURAL, registry=reg, id='tw_d', optional=True)(tw)
                for hid in (sc.get('daemons') or {'d1': None}):      # a daemon under the very id of the main object's (or d1)
                    kopf.daemon(TWIN_GROUP, VERSION, PLURAL, registry=reg, id=hid, cancellation_backoff=1, cancellation_timeout=1)(tw_daemon)
            return reg

        def settings():
            return sim.settings(persistence__consistency_timeout=sc.get('ctimeout', 5),
                                queueing__idle_timeout=sc.get('idle', 5), watching__reconnect_backoff=1,
                                **{k: v for k, v in sc.get('settings', {}).items()})

        state = {'op': None, 'n': 0}

        def start():
            state['n'] += 1
            state['op'] = sim.operator(f'op{state["n"]}', registry(), settings(), lifecycle=lifecycle)

        init = sc.get('init', {'x': 1, 'on': True})
        t0 = sc.get('t0', 1)

        def create():
            if sc.get('drs'):       # the handled objects are ReplicaSets owned by a Deployment: the progress keys are marked
                sim.things.kind = 'ReplicaSet'
                sim.srv.create(sim.things, 'ns', 'o1', {'spec': {'x': init['x']}, 'metadata': {
                    'labels': {'on': 'yes' if init.get('on', True) else 'no'}, 'ownerReferences': [{'kind': 'Deployment', 'name': 'd'}]}})
            else:
                sim.create('o1', {'x': init['x']}, labels={'on': 'yes' if init.get('on', True) else 'no'})

        def do(op: str, *a: Any) -> None:
            o = state['op']
            if op == 'edit':
                sim.set_spec('o1', x=a[0])
            elif op == 'toggle':
                def f(b):
                    cur = b['metadata'].get('labels', {}).get('on') == 'yes'
                    b['metadata'].setdefault('labels', {})['on'] = 'no' if cur else 'yes'
                sim.edit('o1', f)
            elif op == 'delete':
                sim.delete('o1')
            elif op == 'finadd':
                md = (sim.obj('o1') or {}).get('metadata', {})
                if a[0] in md.get('finalizers', []) or md.get('deletionTimestamp'):
                    return        # the API refuses new finalizers on an object being deleted
                sim.rec('env.fin', op='add', name=a[0])
                sim.edit('o1', lambda b: b['metadata'].setdefault('finalizers', []).append(a[0]), actor='foreign')
            elif op == 'findel':
                if a[0] not in (sim.obj('o1') or {}).get('metadata', {}).get('finalizers', []):
                    return
                sim.rec('env.fin', op='del', name=a[0])
                sim.edit('o1', lambda b: b['metadata']['finalizers'].remove(a[0]), actor='foreign')
            elif op == 'kill':
                if o is not None and not o.killed and not o.done: o.kill()
            elif op == 'stop':
                if o is not None and not o.done: o.stop()
            elif op == 'start':
                if o is not None and not (o.done or o.killed):
                    if o.stop_flag.is_set():      # still shutting down: come back a bit later
                        sim.world.after(1, lambda: do('start'))
                    return
                start()
            elif op == 'relist':
                rv0 = sim.srv.rv
                sim.srv.compact(sim.things, upto=rv0 + 1)      # (also the latest version is gone: the watch cannot resume, it must re-list)
                for w in list(sim.srv.watches):
                    if w.res.plural == PLURAL: w.end('eof')
                # ... and once it has re-listed, the listed version can be watched from again (as on a real server; otherwise the
                # operator would re-list every second until the next write)
                sim.world.after(1.5, lambda: sim.srv.compact(sim.things, upto=rv0) if sim.srv.compacted.get(sim.things.key) == rv0 + 1 else None)
            elif op == 'hold':
                held['on'] = True
            elif op == 'release':
                held['on'] = False
                for w in list(sim.srv.watches):
                    if w.res.plural == PLURAL: w.release()
            else:
                raise MachineryFailure(f'unknown env op {op}')
        held = {'on': False}
        sim.srv.watch_policy = lambda w, line: not (held['on'] and w.res.plural == PLURAL)

        if sc.get('crowd'):
            # the crowd: the same plural in another group (objects o1 -- the main object's namesake -- and o2) and a second object of the main
            # kind; they are created, edited (also in their status only), deleted and re-created on a schedule of their own
            from sim.fakek8s import ResDef
            import random as _random
            twin = sim.srv.add_resource(ResDef(TWIN_GROUP, VERSION, PLURAL, 'Thing', namespaced=True))
            rc = _random.Random(f'crowd-{sc["id"]}')
            lab = {'on': 'yes'}

            def by(kind: str, res: Any, name: str) -> None:
                o = sim.srv.get(res, 'ns', name)
                if kind == 'create' and o is None:
                    sim.srv.create(res, 'ns', name, {'spec': {'x': 1}, 'metadata': {'labels': dict(lab)}})
                elif kind == 'edit' and o is not None and not o['metadata'].get('deletionTimestamp'):
                    sim.srv.edit(res, 'ns', name, lambda b: b.setdefault('spec', {}).update(x=b.get('spec', {}).get('x', 0) + 1))
                elif kind == 'status' and o is not None:
                    sim.srv.edit(res, 'ns', name, lambda b: b.setdefault('status', {}).update(phase=rc.choice(['Pending', 'Running'])), actor='foreign')
                elif kind == 'delete' and o is not None:
                    sim.srv.delete(res, 'ns', name)
            for res_, name_ in ((twin, 'o1'), (twin, 'o2'), (sim.things, 'o2')):
                t_ = rc.choice([0, 0, 1, 2])
                sim.world.at(t_, (lambda r_=res_, n_=name_: by('create', r_, n_)), 1)
                for _k in range(rc.randint(2, 7)):
                    t_ += rc.choice([0, 1, 1, 2, 3, 5])
                    kind_ = rc.choice(['edit', 'edit', 'status', 'status', 'delete', 'create'])
                    sim.world.at(t_, (lambda k_=kind_, r_=res_, n_=name_: by(k_, r_, n_)), rc.choice([0, 1]))
        start()
        sim.world.at(t0, create, 1)
        for (t, phase, op, *a) in sc.get('env', []):
            if sim.obj is None: break
            sim.world.at(t, (lambda op=op, a=a: _safe(do, op, *a)), phase)
        stall = False
        try:
            sim.run(sc['end'])
            o = state['op']
            if o is not None and not o.done and not o.killed:
                sim.rec('quiet')
        except Stall as e:
            stall = True
            sim.rec('stall', what=str(e))
        raw_all = sim.recorder.events
        raw = focus(raw_all, GROUP, PLURAL, 'o1') if sc.get('crowd') else raw_all
        tr = convert(raw, hs, sc)
        orch = None
        o_ = state['op']
        if not stall and o_ is not None and not o_.killed and not o_.done and not sc.get('crowd'):      # the orchestrator of the process that is alive at the end (crowds: judged in C19)
            from vf import orchestration
            orch = orchestration.trace_of(raw, o_.name, f'{sc["id"]}/{o_.name}', sim.insights_of(o_.name))
        livelock = stall and (sim.recorder.overflow or 'loop iterations' in str(sim.world.stalled or ''))
        if livelock:
            # the operator never came to rest within one instant: keep a prefix of the run (it is validated like any other run) and
            # mark where it was cut; whether the livelock belongs to a known family is decided by the specification (Family_F9)
            cut = tr['events'][:600]
            tr['events'] = cut + [{'ev': 'livelock', 't': cut[-1]['t'] if cut else 0}]
        from vf import inventory
        return {'id': sc['id'], 'conf': conf_of(sc), 'init': tr['init'], 'events': tr['events'], 'stall': stall, 'livelock': bool(livelock), 'scenario': sc, 'orch': orch,
                'mem': inventory.traces_of(raw_all, sc['id']),
                'final': project(sim.things, sim.obj('o1')) if sim.obj('o1') else None,
                'patches_tail': len([e for e in raw if e['ev'] == 'srv.req' and e.get('kind') == 'patch'
                                     and e['t'] > sc.get('tail_from', sc['end'])])}
    finally:
        sim.close()


def _safe(fn, *a):
    try:
        fn(*a)
    except (KeyError, ValueError):
        pass        # the object (or the finalizer to remove) is gone: the scripted edit has no target any more


def conf_of(sc: dict[str, Any]) -> dict[str, Any]:
    hs = sc['handlers']; order = sc.get('order') or list(hs)
    none = {'reasons': [], 'optional': False, 'deleted': False, 'retries': 0, 'mode': 'temporary', 'backoff': 2, 'timeout': 0}
    hc = {h: ({'reasons': list(hs[h]['reasons']), 'optional': hs[h]['optional'], 'deleted': hs[h]['deleted'],
               'retries': hs[h]['retries'], 'mode': hs[h]['errors'], 'backoff': hs[h]['backoff'], 'timeout': hs[h].get('timeout', 0)} if h in hs else none)
          for h in UNIVERSE}
    conf = {'hc': hc, 'order': order, 'lifecycle': sc.get('lifecycle', 'asap'), 'ctimeout': sc.get('ctimeout', 5)}
    if sc.get('subs'):
        conf['subs'] = {h: (list(sc['subs'][h]) if h in sc['subs'] else []) for h in UNIVERSE}
    if sc.get('res') and not sc.get('subs') and not sc.get('daemons'):
        conf['res'] = {'ssub': bool(sc['res'].get('ssub')), 'ev': {True: 'mirror', 'const': 'const'}.get(sc['res'].get('ev'), 'off'), 'idle': int(sc.get('idle', 5))}
    if sc.get('daemons'):
        conf.update(dh={hid: {'kind': 'daemon', 'backoff': c['backoff'], 'timeout': c['timeout'], 'sync': bool(c.get('sync'))}
                        for hid, c in sc['daemons'].items()}, polling=3, exitto=2)
    return conf


def _rvparse(v: Any, off: int) -> int:
    if v is None:
        return 0
    s = str(v)
    if '~' in s:
        return NEVER
    return int(s) - off


# --------------------------------------------------------------------------- one object out of a crowd
def focus(raw: list[dict[str, Any]], group: str, plural: str, name: str) -> list[dict[str, Any]]:
    """The log of a run with several objects and kinds, reduced to what concerns ONE object (the first incarnation of `name` of that
    kind): the events of the others are dropped, and the versions of the object -- which are no longer consecutive, the cluster's counter
    being shared -- are renumbered consecutively.  Nothing else is touched: the object must behave as if it were alone."""
    import copy as _copy
    uid = next((e['uid'] for e in raw if e['ev'] == 'srv.create' and e.get('res') == plural and e.get('group') == group and e.get('name') == name), None)
    if uid is None:
        return raw
    m: dict[int, int] = {}
    base: list[int] = []

    def new(rv: Any) -> Any:
        try:
            r = int(rv)
        except (TypeError, ValueError):
            return rv
        return m.get(r, r)

    def learn(rv: int) -> None:
        if not base:
            base.append(rv)
        if rv not in m:
            m[rv] = base[0] + len(m)
    out = []
    scheds_drop: set[Any] = set()
    for e in raw:
        ev = e['ev']
        if ev in ('srv.create', 'srv.write', 'srv.state') and e.get('res') == plural:
            if e.get('group') != group or e.get('uid') != uid:
                continue
            e = _copy.deepcopy(e)
            if not e.get('noop'):
                learn(int(e['rv']))
            e['rv'] = new(e['rv'])
            if isinstance(e.get('proj'), dict) and 'rv' in e['proj']:
                e['proj']['rv'] = new(e['proj']['rv'])
        elif ev == 'q.start' and e.get('res') == plural and e.get('group') != group:
            scheds_drop.add(e.get('sched')); continue
        elif ev in ('q.depleting', 'sched.close') and e.get('sched') in scheds_drop:
            continue
        elif ev.startswith('q.') and e.get('res') == plural and 'uid' in e:
            if e['uid'] != uid:
                continue
            e = dict(e)
            for k in ('rv', 'expected', 'patched'):
                if e.get(k) is not None and '~' not in str(e[k]):
                    e[k] = new(e[k])
        elif ev == 'srv.req' and e.get('plural') == plural:
            if e.get('group') != group:
                continue
            if e.get('kind') == 'list':
                e = dict(e)
                e['rvs'] = [new(rv) for u, rv in zip(e.get('uids', []), e.get('rvs', [])) if u == uid]
            elif e.get('kind') == 'patch':
                if e.get('name') != name:
                    continue
                e = _copy.deepcopy(e)
                if isinstance(e.get('proj'), dict) and 'rv' in e['proj']:
                    if e.get('code') == 200 and e.get('changed'):
                        learn(int(e['proj']['rv']))
                    e['proj']['rv'] = new(e['proj']['rv'])
                for k in ('rv_after',):
                    if e.get(k) is not None:
                        e[k] = new(e[k])
        elif ev.startswith('d.') and e.get('uid') not in (uid, None):
            continue
        elif ev in ('h.enter', 'h.exit') and e.get('kind') == 'change':
            if e.get('uid') not in (uid, None):
                continue
            if ev == 'h.enter' and e.get('rv') is not None:
                e = dict(e); e['rv'] = new(e['rv'])
        out.append(e)
    return out


# --------------------------------------------------------------------------- raw log -> trace
def convert(raw: list[dict[str, Any]], hs: dict[str, Any], sc: dict[str, Any]) -> dict[str, Any]:
    """Renaming/projection only: real resourceVersions -> 1, 2, 3, ... of the object; no state is guessed."""
    out: list[dict[str, Any]] = []
    off = None; init = None
    enter: dict[tuple[str, str], dict[str, Any]] = {}
    last_rv = 0
    listed_rvs: set[int] = set()
    envfin: dict[str, Any] = {}
    scheds: dict[int, str] = {}
    killed: set[Any] = set()
    exiting: set[Any] = set()
    up0 = True
    for e in raw:
        ev = e['ev']; t = e['t']
        if ev == 'env.fin':
            envfin = e
            continue
        if ev == 'q.start':
            scheds[e['sched']] = e['res']
            continue
        if off is None and ev in ('op.kill', 'op.return'):
            up0 = False
        if off is None and ev == 'op.start':
            up0 = True
        if ev == 'srv.create' and e.get('res') == 'things':
            if off is None:
                off = e['rv'] - 1
                init = {'ess': e['proj']['ess'], 'match': e['proj']['match'], 't': t, 'up': up0}
                last_rv = 1
            continue
        if off is None:
            continue
        if ev == 'srv.write' and e.get('res') == 'things':
            if e.get('noop'):
                continue
            if e.get('how') == 'delete':      # direct removal (no finalizers): no srv.state follows
                rv = e['rv'] - off
                last_rv = rv
                out.append({'ev': 'delete', 't': t, 'rv': rv, 'gone': True})
            else:
                pending_write = e
            continue
        if ev == 'srv.state' and e.get('res') == 'things':
            rv = e['rv'] - off
            if rv != last_rv + 1:
                raise MachineryFailure(f'versions of the object are not consecutive: {last_rv} -> {rv}')
            last_rv = rv
            w = pending_write; p = e['proj']
            actor = w.get('actor'); how = w.get('how')
            if how == 'delete-mark':
                out.append({'ev': 'delete', 't': t, 'rv': rv, 'gone': False})
            elif actor == 'user':
                out.append(dict(ev='edit', t=t, **_objfields(p, off)))
            elif actor == 'foreign':
                out.append({'ev': 'fin', 't': t, 'rv': rv, 'fins': p['fins'], 'op': envfin['op'], 'name': envfin['name']})
            continue
        if ev in ('q.new', 'q.put') and e.get('res') == 'things':
            if e.get('type') is None:
                continue                     # a listed item: already in the backlog by the `list` event
            out.append({'ev': 'deliver', 't': t, 'rv': int(e['rv']) - off, 'type': e['type']})
        elif ev == 'srv.req' and e.get('plural') == 'things' and e.get('kind') == 'list':
            rvs = e.get('rvs', [])
            out.append({'ev': 'list', 't': t, 'rv': (rvs[0] - off) if rvs else 0})
        elif ev == 'q.proc.begin' and e.get('res') == 'things':
            ct = e.get('ctime')
            out.append({'ev': 'begin', 't': t, 'rv': int(e['rv']) - off, 'type': e.get('type') or 'NONE',
                        'exp': _rvparse(e.get('expected'), off), 'ctime': int(ct) if ct is not None and float(ct).is_integer() else (0 if ct is None else -1),
                        'pr': bool(e.get('pressure'))})
        elif ev == 'q.proc.end' and e.get('res') == 'things':
            out.append({'ev': 'end', 't': t, 'rv': _rvparse(e.get('patched'), off)})
        elif ev == 'h.enter' and e.get('kind') == 'change':
            enter[(e['loop'], e['id'])] = e
        elif ev == 'h.exit' and e.get('kind') == 'change':
            en = enter.pop((e['loop'], e['id']), None)
            if en is None:
                continue
            s = en['script']
            k = s if isinstance(s, str) else s[0]
            d = 0 if isinstance(s, str) or k != 'temp' else s[1]
            if e['outcome'] == 'cancelled':
                continue
            out.append({'ev': 'inv', 't': t, 'h': e['id'], 'retry': en['retry'], 'reason': en['reason'], 'rv': (en['rv'] or 0) - off,
                        'k': k, 'd': d, 't_enter': en['t'],
                        'res': int(s[1].get('n', 0)) if k == 'ok' and not isinstance(s, str) and len(s) > 1 and isinstance(s[1], dict) else 0})
        elif ev == 'srv.req' and e.get('plural') == 'things' and e.get('kind') == 'patch':
            code = e['code']
            if e.get('ptype') == 'merge':
                if code == 404:
                    out.append({'ev': 'merge', 't': t, 'code': 404, 'changed': False})
                else:
                    out.append(dict(ev='merge', t=t, code=code, changed=bool(e.get('changed')), **_objfields(e['proj'], off)))
            else:
                rec = {'ev': 'json', 't': t, 'code': code}
                if code == 200:
                    p = e['proj']
                    rec.update(fins=p['fins'], rv=p['rv'] - off, gone=bool(e.get('gone')))
                out.append(rec)
        elif ev == 'd.enter': out.append({'ev': 'enter', 't': t, 'h': e['h']})
        elif ev == 'd.flagseen': out.append({'ev': 'flagseen', 't': t, 'h': e['h']})
        elif ev == 'd.cancel': out.append({'ev': 'cancel', 't': t, 'h': e['h']})
        elif ev == 'd.exit': out.append({'ev': 'exit', 't': t, 'h': e['h']})
        elif ev == 'op.stop' and sc.get('daemons') and e.get('loop') not in exiting:
            exiting.add(e.get('loop'))
            out.append({'ev': 'exiting', 't': t})       # the exit begins: the daemon killer makes its last round, the stream closes next
        elif ev == 'op.kill':
            killed.add(e.get('loop'))
            out.append({'ev': 'kill', 't': t})
        elif ev == 'q.depleting' and scheds.get(e.get('sched')) == 'things' and e.get('loop') not in killed:
            out.append({'ev': 'stop', 't': t})      # the watcher is cancelled: the stream is closed from now on
        elif ev == 'op.return':
            out.append({'ev': 'down', 't': t})
        elif ev == 'quiet':
            out.append({'ev': 'quiet', 't': t})
    return {'init': init, 'events': out}


def _objfields(p: dict[str, Any], off: int) -> dict[str, Any]:
    return {'rv': p['rv'] - off, 'ess': p['ess'], 'lh': p['lh'], 'prog': p['prog'], 'fins': p['fins'],
            'deleting': p['deleting'], 'dummy': p['dummy'], 'match': p['match'], **({'res': p['res'], 'evres': p['evres']} if 'res' in p else {})}


# --------------------------------------------------------------------------- judging
_RE_VERDICT = re.compile(r'<<\s*"VERDICT",\s*(\d+),\s*"([^"]*)",\s*(-?\d+),\s*(-?\d+),\s*(\d+),\s*"([^"]*)",\s*"([^"]*)"\s*>>')


def _tla_set(xs) -> str:
    return '{' + ', '.join(json.dumps(x) for x in xs) + '}'


CFG = ('SPECIFICATION TSpec\nCONSTANTS\n  H = {"a", "b", "c", "d", "e", "r", "a/x", "a/y"}\n  ConfSet = {}\n  Delays <- Del\n  EssVals <- Ess\n'
       '  Foreign <- For\n  Horizon = 100000\n  Doors <- AllDoors\n'
       '  MaxEdits = 1000\n  MaxFails = 1000\n  MaxKills = 1000\n  MaxStops = 1000\n  MaxDeletes = 1000\n  MaxForeign = 1000\n'
       '  MaxToggles = 1000\n  MaxRelists = 1000\n  MaxHolds = 1000\n'
       'CONSTRAINT Book\nPOSTCONDITION Verdicts\nCHECK_DEADLOCK FALSE\n')


def shard_module(name: str, delays: set[int]) -> str:
    return (f'---- MODULE {name} ----\nEXTENDS Trace_Handling\n'
            f'AllDoors == {{"kill", "lost", "late", "stop"}}\nEss == 0..60\nDel == {_tla_set(sorted(delays))}\nFor == {{"f1", "f2"}}\n====\n')


def judge(traces: list[dict[str, Any]], rep: Any, name: str = 'Trace_Handling') -> dict[str, dict[str, Any]]:
    verdicts: dict[str, dict[str, Any]] = {}
    nshards = max(1, min(14, len(traces) // 12))
    groups = {str(k): traces[k::nshards] for k in range(nshards)}
    def one(arg):
        gi, key, group = arg
        scratch = tempfile.mkdtemp(prefix='vf-th-')
        try:
            mname = f'TH_{gi}'
            delays = {e['d'] for t in group for e in t['events'] if e['ev'] == 'inv'} | {0}
            mod, cfg = shard_module(mname, delays), CFG
            with open(os.path.join(scratch, mname + '.tla'), 'w') as f:
                f.write(mod)
            path = os.path.join(scratch, 'traces.json')
            with open(path, 'w') as f:
                json.dump([{'id': t['id'], 'conf': t['conf'], 'init': t['init'], 'events': t['events']} for t in group], f)
            r = tlc.run(os.path.join(scratch, mname + '.tla'), cfg_text=cfg, workers=1, deque=True,
                        env={'TRACE_FILE': path}, timeout=3000)
        finally:
            import shutil
            shutil.rmtree(scratch, ignore_errors=True)
        if not r.ok:
            raise MachineryFailure(f'{name} failed: {r.violated} {r.errors}\n{r.out[-3000:]}')
        return gi, group, r
    from concurrent.futures import ThreadPoolExecutor
    with ThreadPoolExecutor(14) as ex:
        results = list(ex.map(one, [(gi, key, group) for gi, (key, group) in enumerate(sorted(groups.items()))]))
    agg = {'distinct': 0, 'generated': 0, 'wall': 0.0}
    for gi, group, r in results:
        agg['distinct'] += r.distinct; agg['generated'] += r.generated; agg['wall'] = max(agg['wall'], r.wall)
        got = {}
        for m in _RE_VERDICT.finditer(r.out):
            got[int(m.group(1))] = dict(id=m.group(2), strict=int(m.group(3)), loose=int(m.group(4)), n=int(m.group(5)), inv=m.group(6), excuse=m.group(7))
        if len(got) != len(group):
            raise MachineryFailure(f'{name} printed {len(got)} verdicts for {len(group)} traces\n{r.out[-2000:]}')
        for i, t in enumerate(group, start=1):
            v = got[i]
            if v['strict'] == v['n']:
                v['verdict'] = 'accepted'
            elif v['loose'] == v['n']:
                v['verdict'] = f'invariant {v["inv"]} violated'
            else:
                nxt = t['events'][v['loose']] if v['loose'] < len(t['events']) else None
                v['verdict'] = f'rejected at event {v["loose"] + 1} of {v["n"]}: {nxt}'
            verdicts[t['id']] = v
    rep.states += agg['distinct']; rep.transitions += agg['generated']
    rep.tlc_runs.append({'config': f'{name} ({len(results)} shards)',
                         'distinct_states': agg['distinct'], 'states_generated': agg['generated']})
    return verdicts


# --------------------------------------------------------------------------- scenario generation
def gen_scenarios(seed: int, n: int, profile: str) -> list[dict[str, Any]]:
    """Seeded random closed-loop scenarios; `profile` biases the environment towards one property's doors."""
    import random
    rnd = random.Random(f'{profile}-{seed}')
    out = []
    for i in range(n):
        lifecycle = rnd.choice(['one', 'all', 'asap'])
        hs: dict[str, Any] = {}
        def script(k):
            items = ['ok', 'ok', ('temp', rnd.choice([1, 2, 3])), 'exc', 'perm']
            w = [6, 6, 4, 2, 1] if profile != 'errors' else [3, 3, 4, 4, 3]
            return [rnd.choices(items, w)[0] for _ in range(k)]
        nh = rnd.choice([1, 2, 2, 3])
        for h in ['a', 'b', 'c'][:nh]:
            hs[h] = hdl(rnd.choice([['create', 'update'], ['create', 'update'], ['create'], ['update']]), script(rnd.randint(0, 3)),
                        retries=rnd.choice([0, 0, 2, 3]) if profile == 'errors' else 0,
                        errors=rnd.choice(['temporary', 'temporary', 'permanent', 'ignored']) if profile == 'errors' else 'temporary',
                        backoff=rnd.choice([1, 2, 3]))
        if profile in ('finalizer', 'progress', 'converge', 'mixed') and rnd.random() < (0.9 if profile == 'finalizer' else 0.6 if profile == 'mixed' else 0.4):
            hs['d'] = hdl(['delete'], script(rnd.randint(0, 2)), optional=rnd.random() < 0.25, backoff=rnd.choice([1, 2]))
        if profile in ('resume', 'converge', 'progress') and rnd.random() < (0.95 if profile == 'resume' else 0.3):
            hs['r'] = hdl(['resume'], script(rnd.randint(0, 2)), deleted=rnd.random() < 0.3, backoff=rnd.choice([1, 2]))
        # (a stream of its own, so that the histories of earlier rounds stay what they were) a second deletion handler, which makes the
        # deletion a multi-step cycle under the one-per-cycle lifecycles, and errors that ask for a retry at once (delay 0)
        r2 = random.Random(f'{profile}-x-{seed}-{i}')
        if 'd' in hs and r2.random() < 0.45:
            hs['e'] = hdl(['delete'], [r2.choice(['ok', 'ok', ('temp', 0), ('temp', 1), 'exc'])] * r2.randint(0, 1), optional=False, backoff=r2.choice([0, 1]))
        if 'd' in hs and r2.random() < 0.3:
            hs['d']['script'] = [('temp', 0)] + list(hs['d']['script'])
        if profile == 'errors' and r2.random() < 0.3:
            h0 = r2.choice(sorted(hs)); hs[h0]['script'] = [('temp', 0)] + list(hs[h0]['script'])
        env: list[tuple] = []
        t = 1
        x = 1
        alive = True; deleted = False; held = False
        nops = rnd.randint(1, 7)
        for _ in range(nops):
            t += rnd.choice([0, 0, 1, 1, 2, 3, 5, 8])
            ph = rnd.choice([0, 1, 1])
            ops = ['edit'] * 4
            if profile in ('finalizer', 'progress', 'converge', 'stealth', 'mixed'): ops += ['toggle'] * (3 if profile in ('finalizer', 'stealth', 'mixed') else 1)
            if profile in ('finalizer', 'converge', 'progress', 'mixed') and not deleted: ops += ['delete'] * 2
            if profile in ('finalizer', 'mixed'): ops += ['finadd', 'findel', 'finadd']
            if profile in ('progress', 'converge', 'resume', 'errors', 'subs', 'timeouts'): ops += ['kill', 'stop'] if alive else ['start'] * 4
            if profile == 'mixed': ops += ['stop'] if alive else ['start'] * 4
            if profile in ('resume',) and alive: ops += ['relist'] * 3
            if profile == 'consistency': ops += (['release'] * 4 if held else ['hold'] * 4) + ['fedit'] * 3
            op = rnd.choice(ops)
            if op == 'edit':
                x = x + 1 if rnd.random() < 0.8 or x == 1 else x - 1
                env.append((t, ph, 'edit', x))
            elif op == 'fedit':
                x += 1; env.append((t, ph, 'edit', x))
            elif op in ('finadd', 'findel'):
                env.append((t, ph, op, rnd.choice(['f1', 'f2'])))
            elif op in ('kill', 'stop'):
                alive = False; env.append((t, ph, op))
            elif op == 'start':
                alive = True; env.append((t, ph, op))
            elif op == 'hold':
                held = True; env.append((t, ph, op))
            elif op == 'release':
                held = False; env.append((t, ph, op))
            else:
                if op == 'delete': deleted = True
                env.append((t, ph, op))
        if not alive:
            t += rnd.choice([0, 1, 4]); env.append((t, 1, 'start'))
        if profile in ('converge', 'errors', 'progress', 'timeouts', 'subs') and r2.random() < 0.4:
            # the stream breaks and the operator re-lists within one life -- possibly while a worker sleeps for the delay of a handler:
            # the listed state of an unchanged object is an event like any other (it wakes the sleeper, and is processed)
            up_ = True; cand = []
            for k_, e_ in enumerate(env):
                if e_[2] in ('kill', 'stop'): up_ = False
                elif e_[2] == 'start': up_ = True
                if up_: cand.append(k_)
            if cand:
                k_ = r2.choice(cand); tr_ = env[k_][0] + r2.choice([0, 1, 2])
                if all(not (e_[2] in ('kill', 'stop', 'start') and env[k_][0] < e_[0] <= tr_) for e_ in env):
                    env.append((tr_, 1, 'relist')); env.sort(key=lambda e_: (e_[0], e_[1]))
        if profile == 'resume' and 'r' in hs and r2.random() < 0.3:
            # the operator restarts over an object that is being deleted and is still held by the framework's finalizer: resume
            # handlers that opted in (deleted=True) run for it, the others do not
            hs['d'] = hdl(['delete'], [('temp', r2.choice([3, 5])), 'ok'], backoff=1)
            hs['r']['deleted'] = r2.random() < 0.6
            t += r2.choice([2, 6]); env.append((t, 1, 'delete'))
            env.append((t + 1, 1, r2.choice(['kill', 'stop']))); env.append((t + 2, 1, 'start')); t += 2
        if profile == 'consistency':
            t += rnd.choice([1, 3, 7]); env.append((t, 1, 'release'))
        # sanitise foreign finalizer ops: add only if absent, delete only if present (checked at run time by _safe)
        sc = {'id': f'{profile}-{seed}-{i}', 'handlers': hs, 'order': list(hs), 'lifecycle': lifecycle,
              'ctimeout': rnd.choice([5, 5, 2, 3]) if profile == 'consistency' else 5,
              'init': {'x': 1, 'on': not (profile == 'stealth' and rnd.random() < 0.6)},
              'env': env, 'end': t + 80, 'tail_from': t + 60, 'profile': profile,
              'sync': 'all' if i % 5 == 3 else 'mixed' if i % 10 == 7 else '',     # synchronous (threaded) handlers
              'drs': i % 6 == 5 and profile != 'mixed'}        # every sixth history is about a ReplicaSet owned by a Deployment (marked progress keys)
        if profile == 'consistency' and r2.random() < 0.3:
            # an operator that has nothing to call on creation (update handlers only): a change made while the creation's own write
            # is in flight is still a change against what was stored as handled
            for h in hs:
                if 'delete' not in hs[h]['reasons'] and 'resume' not in hs[h]['reasons']:
                    hs[h]['reasons'] = ['update']
            sc['updonly'] = True
        if profile in ('converge', 'progress', 'errors', 'finalizer', 'consistency', 'resume') and r2.random() < 0.35:
            # handlers return results (status.<handler id>), on a kind with or without the status subresource
            sc['res'] = {'ssub': r2.random() < 0.6, 'ev': False}
            for h in hs:
                hs[h]['script'] = [('ok', {'n': r2.choice([1, 2])}) if x_ == 'ok' and r2.random() < 0.7 else x_ for x_ in hs[h]['script']] + [('ok', {'n': r2.choice([1, 2])})]
        if profile == 'timeouts':    # handler timeouts: attempts stop T seconds after the first one, across retries and restarts
            for h in hs:
                if rnd.random() < 0.7:
                    hs[h]['timeout'] = rnd.choice([2, 3, 5, 8])
                    hs[h]['script'] = [rnd.choice([('temp', rnd.choice([1, 2, 3])), ('temp', 1), 'exc', ('temp', 4)]) for _ in range(rnd.randint(2, 5))] + ['ok']
            sc['sync'] = ''; sc['drs'] = False
        if profile == 'subs':        # handler 'a' registers two sub-handlers whenever it runs
            if 'a' not in hs:
                hs['a'] = hdl(['create', 'update'], [], backoff=1); sc['handlers'] = hs; sc['order'] = ['a'] + [h for h in sc['order'] if h != 'a']
            r_ = rnd.random()
            if r_ < 0.55:
                hs['a']['script'] = [x for x in hs['a']['script'] if x == 'ok']
            elif r_ < 0.8:       # the parent gives up for good after rounds in which its sub-handlers were still pending
                hs['a']['script'] = ['ok'] * rnd.randint(1, 2) + ['perm']
            if rnd.random() < 0.25:
                hs['a']['retries'] = rnd.choice([2, 3])
            sub_script = lambda: rnd.choice([['ok'], ['ok'], [('temp', rnd.choice([1, 2, 3])), 'ok'], [('temp', 1), ('temp', 2), 'ok'], ['perm'], [('temp', 2), 'perm']])
            sc['subs'] = {'a': {'a/x': sub_script() + sub_script(), 'a/y': sub_script() + sub_script()}}
            sc['sync'] = ''; sc['drs'] = False
        if profile == 'mixed':       # daemons beside the change handlers on the same object
            dm: dict[str, Any] = {}
            for hid in ['d1', 'd2'][:rnd.choice([1, 1, 2])]:
                reaction = rnd.choice(['obey', 'obey', 'cancel', 'ignore', 'selfexit'])
                dm[hid] = {'kind': 'daemon', 'reaction': reaction, 'after': rnd.choice([0, 1, 2, 6]) if reaction == 'obey' else rnd.choice([1, 3, 8]),
                           'backoff': rnd.choice([0, 2, 3]), 'timeout': rnd.choice([0, 2, 4]), 'sync': rnd.random() < 0.25}
            sc['daemons'] = dm
            sc['end'] = t + 100; sc['tail_from'] = t + 80
        if sc.get('res') and r2.random() < 0.4:      # ... and a raw-event handler that mirrors what it saw into status.w on every event
            sc['res']['ev'] = r2.choice([True, True, 'const'])
        out.append(sc)
    return out


def debug_trace(t: dict[str, Any], upto: int) -> str:
    """Development aid: the specification's states along the longest explained prefix of one trace."""
    scratch = tempfile.mkdtemp(prefix='vf-thd-')
    try:
        delays = {e['d'] for e in t['events'] if e['ev'] == 'inv'} | {0}
        with open(os.path.join(scratch, 'THD.tla'), 'w') as f:
            f.write(shard_module('THD', delays).replace('====', 'DebugInv == l <= ' + str(upto) + '\n===='))
        path = os.path.join(scratch, 'traces.json')
        with open(path, 'w') as f:
            json.dump([{'id': t['id'], 'conf': t['conf'], 'init': t['init'], 'events': t['events']}], f)
        cfg = CFG.replace('CONSTRAINT Book\nPOSTCONDITION Verdicts\n', 'INVARIANT DebugInv\n')
        r = tlc.run(os.path.join(scratch, 'THD.tla'), cfg_text=cfg, workers=1, deque=True, env={'TRACE_FILE': path}, timeout=600)
        return r.out
    finally:
        import shutil
        shutil.rmtree(scratch, ignore_errors=True)


# ---------------------------------------------------------------------------------------------------------------------
# Behaviours drawn by TLC itself (`-simulate` on Sim_Handling, a paced MC_Handling): the history of the environment AND the
# handlers' outcomes come from the specification; they are replayed into the real operator and validated like any other run.

def tlc_scenarios(seed: int, num: int, depth: int = 120) -> list[dict[str, Any]]:
    from vf import tlaval
    scratch = tempfile.mkdtemp(prefix='vf-hsim-')
    try:
        tlc.run('Sim_Handling', 'Sim_Handling.cfg', workers=1, simulate=f'file={scratch}/tr,num={num}', depth=depth, seed=seed, timeout=900)
        out = []
        for fn in sorted(f for f in os.listdir(scratch) if f.startswith('tr_')):
            text = open(os.path.join(scratch, fn)).read()
            states = []
            for b in re.split(r'\n(?=\\\* <)', text):
                m = re.search(r'STATE_\d+ ==\s*\n((?:.|\n)*)', b)
                if m:
                    body = m.group(1).split('\n====')[0]
                    st = tlaval.parse_state(body)
                    states.append(st)
            if len(states) < 3:
                continue
            conf = states[0]['conf']
            hs = {}
            for h, c in conf['hc'].items():
                if list(c['reasons']):
                    hs[h] = hdl(sorted(c['reasons']), [], optional=bool(c['optional']), deleted=bool(c['deleted']), retries=int(c['retries']),
                                errors=str(c['mode']), backoff=int(c['backoff']))
            real = lambda o: ((int(o['ess']) + 1) // 2, bool(o['match']))
            env: list[tuple] = []
            for a, b in zip(states, states[1:]):
                t = int(a['now']) + 1; oa, ob = a['obj'], b['obj']       # the harness creates the object at instant 1
                if a['up'] and not b['up'] and not a['stopping']: env.append((t, 1, 'kill'))
                elif not a['stopping'] and b['stopping']: env.append((t, 1, 'stop'))
                elif not a['up'] and b['up']: env.append((t, 1, 'start'))
                elif oa['exists'] and (not ob['exists'] or (ob['deleting'] and not oa['deleting'])) and b['bud']['deletes'] > a['bud']['deletes']:
                    env.append((t, 1, 'delete'))
                elif b['bud']['toggles'] > a['bud']['toggles']: env.append((t, 1, 'toggle'))
                elif b['bud']['edits'] > a['bud']['edits']: env.append((t, 1, 'edit', real(ob)[0]))
                elif b['bud']['foreign'] > a['bud']['foreign']:
                    fa, fb = list(oa['fins']), list(ob['fins'])
                    env.append((t, 1, 'finadd', 'f2') if len(fb) > len(fa) else (t, 1, 'findel', 'f2'))
                elif b['bud']['relists'] > a['bud']['relists']: env.append((t, 1, 'relist'))
                # an invocation: the outcome TLC chose becomes the next item of that handler's script
                la, lb = a['cyc']['last'], b['cyc']['last']
                if lb.get('h') not in (None, 'none') and (la != lb or a['cyc']['plan'] != b['cyc']['plan']) and len(list(b['cyc']['plan'])) < len(list(a['cyc']['plan'])):
                    h = str(lb['h']); np = b['cyc']['np'][h]
                    item = 'ok' if np['st'] == 'succ' else 'perm' if np['st'] == 'fail' else ('temp', max(1, int(np['until']) - int(b['now'])))
                    if h in hs: hs[h]['script'].append(item)
            tmax = int(states[-1]['now']) + 1
            x0, on0 = real(states[0]['obj'])
            out.append({'id': f'tlc-{seed}-{fn}', 'handlers': hs, 'order': [str(h) for h in conf['order']], 'lifecycle': str(conf['lifecycle']),
                        'ctimeout': int(conf['ctimeout']), 'init': {'x': x0, 'on': on0}, 'env': env, 'end': tmax + 60, 'tail_from': tmax + 40,
                        'profile': 'tlc', 'from_tlc': True})
        return out
    finally:
        shutil.rmtree(scratch, ignore_errors=True)
