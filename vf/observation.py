"""Records for spec/Observation.tla (C19): every call of the real observation.revise_resources / revise_namespaces -- inside the
running operators of the C19 scenarios (collected by the recorder through sim/opsim.py's outside wrap) and on generated
clusters x selector sets x re-scans called directly -- with what it was given and the insights before and after it."""
from __future__ import annotations

import json
import random
from typing import Any

from vf import records


def of_run(raw: list[dict[str, Any]]) -> list[dict[str, Any]]:
    out = []
    for e in raw:
        if e['ev'] == 'obs.res':
            out.append({'kind': 'res', **{k: e[k] for k in ('group', 'src', 'webhooks', 'indexeds', 'watched', 'patched', 'before', 'after')}})
        elif e['ev'] == 'obs.ns':
            out.append({'kind': 'ns', **{k: e[k] for k in ('patterns', 'before', 'after', 'events')}})
    return out


def generated(seed: int, n: int) -> list[dict[str, Any]]:
    """The real revise_resources / revise_namespaces called directly: an initial scan, then re-scans of one group after a change."""
    import kopf
    from kopf._cogs.structs import references
    from kopf._core.reactor import observation
    from sim.opsim import Sim
    got: list[dict[str, Any]] = []
    Sim._observe_observers(lambda ev, f: got.append({'ev': ev, **f}))
    rnd = random.Random(f'obs-{seed}')
    ALL = frozenset({'list', 'watch', 'patch', 'get', 'create', 'delete'})
    R = references.Resource

    def cluster() -> list[Any]:
        rs = [R('g1.example.com', 'v1', 'things', kind='Thing', singular='thing', shortcuts=frozenset({'th'}), categories=frozenset({'catx'}),
                namespaced=True, preferred=True, verbs=ALL),
              R('g2.example.com', 'v1', 'things', kind='Thing', singular='thing', namespaced=True, preferred=True, verbs=ALL),
              R('', 'v1', 'pods', kind='Pod', singular='', shortcuts=frozenset({'po'}), categories=frozenset({'all'}), namespaced=True, preferred=True, verbs=ALL),
              R('metrics.k8s.io', 'v1beta1', 'pods', kind='PodMetrics', singular='', namespaced=True, preferred=True, verbs=frozenset({'get', 'list'})),
              R('g3.example.com', 'v1', 'gizmos', kind='Gizmo', singular='gizmo', categories=frozenset({'catx', 'all'}), namespaced=False, preferred=True, verbs=ALL),
              R('', 'v1', 'events', kind='Event', singular='', namespaced=True, preferred=True, verbs=ALL),
              R('events.k8s.io', 'v1', 'events', kind='Event', singular='', namespaced=True, preferred=True, verbs=ALL),
              R('g1.example.com', 'v2', 'things', kind='Thing', singular='thing', shortcuts=frozenset({'th'}), namespaced=True, preferred=False, verbs=ALL),
              R('g4.example.com', 'v1', 'readonlys', kind='ReadOnly', singular='readonly', categories=frozenset({'catx'}), namespaced=True,
                preferred=True, verbs=frozenset({'get', 'list', 'watch'}))]
        return [r for r in rs if rnd.random() < 0.8]

    def mutate(src: list[Any], group: str) -> list[Any]:
        import dataclasses
        out = []
        for r in src:
            if r.group != group:
                continue
            what = rnd.choice(['keep', 'keep', 'drop', 'flip', 'cat', 'verbs'])
            if what == 'drop':
                continue
            if what == 'flip': r = dataclasses.replace(r, preferred=not r.preferred)
            if what == 'cat': r = dataclasses.replace(r, categories=frozenset() if r.categories else frozenset({'catx'}))
            if what == 'verbs': r = dataclasses.replace(r, verbs=frozenset(rnd.sample(sorted(ALL), rnd.randint(2, 5))))
            out.append(r)
        if group == 'g1.example.com' and rnd.random() < 0.3 and not any(r.version == 'v3' for r in out):      # (a scan names a resource once)
            out.append(R(group, 'v3', 'things', kind='Thing', singular='thing', namespaced=True, preferred=rnd.random() < 0.5, verbs=ALL))
        return out

    SELS: list[tuple] = [(('things',), {}), (('g1.example.com', 'things'), {}), (('g1.example.com', 'v2', 'things'), {}), ((), {'category': 'catx'}),
                         ((kopf.EVERYTHING,), {}), (('pods',), {}), ((), {'kind': 'Thing'}), ((), {'shortcut': 'th'}), (('v1', 'pods'), {}),
                         ((), {'plural': 'gizmos'}), (('readonlys',), {}), ((), {'singular': 'thing', 'group': 'g2.example.com'}),
                         ((lambda r: r.plural == 'things',), {}), ((), {'category': 'all'}), (('events',), {}), (('things.v1.g1.example.com',), {})]

    async def fn(**_: Any) -> None:
        return None
    for i in range(n):
        reg = kopf.OperatorRegistry()
        for k in range(rnd.randint(1, 3)):
            a, kw = rnd.choice(SELS)
            deco = rnd.choice([kopf.on.event, kopf.on.event, kopf.on.create, kopf.on.update, kopf.index, kopf.daemon, kopf.on.validate])
            deco(*a, registry=reg, id=f'h{k}', **kw)(fn)
        ins = references.Insights()
        src = cluster()
        observation.revise_resources(group=None, insights=ins, registry=reg, resources=src)
        for _ in range(rnd.randint(0, 3)):
            g = rnd.choice(['g1.example.com', 'g2.example.com', 'g3.example.com', 'g4.example.com', 'metrics.k8s.io'])
            part = mutate(src, g)
            src = [r for r in src if r.group != g] + part
            observation.revise_resources(group=g, insights=ins, registry=reg, resources=part)
        # namespaces: a listing, then events (creations, terminations with and without blockers, deletions)
        pats = rnd.choice([['ns*'], ['*'], ['!kube-*'], ['ns*, !ns-pr-*, *-123'], ['myapp', 'ns*'], ['!ns*, *2'], ['*-prod']])
        names = ['ns1', 'ns2', 'ns-pr-123', 'ns-pr-456', 'kube-system', 'myapp', 'other-prod', 'x2', 'ns12']
        body = lambda nm, marked=False, conds=None: {'metadata': {'name': nm, **({'deletionTimestamp': '2030-01-01T00:00:00Z'} if marked else {})},
                                                      **({'status': {'conditions': conds}} if conds is not None else {})}
        observation.revise_namespaces(insights=ins, namespaces=pats, raw_bodies=[body(nm) for nm in rnd.sample(names, rnd.randint(0, 6))])
        for _ in range(rnd.randint(1, 6)):
            nm = rnd.choice(names)
            kind = rnd.choice(['ADDED', 'MODIFIED', 'DELETED', 'marked', 'terminating', 'blocked'])
            ev = {'ADDED': {'type': 'ADDED', 'object': body(nm)}, 'MODIFIED': {'type': 'MODIFIED', 'object': body(nm)},
                  'DELETED': {'type': 'DELETED', 'object': body(nm, True, [])},
                  'marked': {'type': 'MODIFIED', 'object': body(nm, True)},
                  'terminating': {'type': 'MODIFIED', 'object': body(nm, True, [{'type': 'NamespaceDeletionContentFailure', 'status': 'False'}])},
                  'blocked': {'type': 'MODIFIED', 'object': body(nm, True, [{'type': 'NamespaceContentRemaining', 'status': 'True', 'reason': 'r', 'message': 'm'}])}}[kind]
            observation.revise_namespaces(insights=ins, namespaces=pats, raw_events=[ev])
    return of_run(got)


def judge(recs: list[dict[str, Any]], rep: Any) -> tuple[list[dict[str, Any]], dict[int, str]]:
    """Deduplicate (the operators of many runs see the same clusters) and let TLC label every record."""
    seen: dict[str, dict[str, Any]] = {}
    for r in recs:
        seen.setdefault(json.dumps(r, sort_keys=True), r)
    uniq = list(seen.values())
    return uniq, records.judge('Rec_Observation', uniq, rep=rep, shard=4000)
