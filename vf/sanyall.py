"""Parse every module of spec/ with SANY (setup-time sanity check)."""
import os, subprocess, sys
from concurrent.futures import ThreadPoolExecutor
from vf import SPEC
from vf.tlc import JAR, DEPS

TLAPS_LIB = '/opt/veriftools/tlapm/lib/tlapm/stdlib'


def one(f):
    lib = SPEC + (os.pathsep + TLAPS_LIB if os.path.isdir(TLAPS_LIB) else '')        # proof modules EXTEND TLAPS
    p = subprocess.run(['java', f'-DTLA-Library={lib}', '-cp', f'{JAR}:{DEPS}', 'tla2sany.SANY', os.path.join(SPEC, f)],
                       cwd=SPEC, stdout=subprocess.PIPE, stderr=subprocess.STDOUT, text=True)
    bad = p.returncode != 0 or 'Semantic errors' in p.stdout or 'Parse Error' in p.stdout or 'Could not' in p.stdout
    return f, bad, p.stdout

if __name__ == '__main__':
    files = sorted(f for f in os.listdir(SPEC) if f.endswith('.tla'))
    with ThreadPoolExecutor(8) as ex:
        res = list(ex.map(one, files))
    failed = [(f, out) for f, bad, out in res if bad]
    for f, out in failed:
        print('SANY FAILED:', f); print(out[-2000:])
    print(f'sany: {len(files) - len(failed)}/{len(files)} modules parse')
    sys.exit(1 if failed else 0)
