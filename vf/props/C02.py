"""C02 - recorded progress governs invocation.

(A) Handling.tla model-checked exhaustively on the configurations named below (plus negative configurations that must
fail, to show the invariants are not vacuous); (B) seeded random closed-loop scenarios of the profile(s) below run on
the REAL kopf.operator() in the world simulator, every trace judged by TLC against Trace_Handling.tla (all invariants
of the module are evaluated on every state of the explaining behaviour, and time is bound by urgency).

(M) OnceMonitor.tla: the statement as a property automaton for handlers AND sub-handlers, evaluated by TLC over runs of the real
operator: a parent handler (on.create / on.update / on.resume) with two scripted sub-handlers, a plain sibling handler, edits in
the middle of a cycle (a resuming cause superseded by an updating one), graceful restarts: nothing that has finished in a cycle
is invoked again in it, retry numbers equal the recorded attempts, the cycle closes only when everything invoked is finished.
"""
from vf.props import _family


def once_case(sc):
    import kopf
    from sim.opsim import GROUP, PLURAL, VERSION, Sim
    sim = Sim(wall_budget=20)
    try:
        sim.srv.keep_bodies.add(PLURAL)
        reg = sim.registry()
        out = lambda o: {'ok': 'ok', 'temp': ('temp', sc['delay']), 'perm': 'perm'}[o]
        subs = {k: sim.handler(f'p/{k}', [out(o) for o in sc['subs'][k]]) for k in sc['subs']}

        async def parent(**kw):
            for k, fn in subs.items():
                kopf.subhandler(id=k)(fn)
        for dec in (kopf.on.create, kopf.on.update, kopf.on.resume):
            dec(GROUP, VERSION, PLURAL, registry=reg, id='p')(parent)
        q = sim.handler('q', [out(o) for o in sc['q']])
        kopf.on.create(GROUP, VERSION, PLURAL, registry=reg, id='q')(q)
        kopf.on.update(GROUP, VERSION, PLURAL, registry=reg, id='q')(q)
        ops = [sim.operator('op1', reg, sim.settings())]
        sim.world.at(1, lambda: sim.create('o1', {'x': 0}), 1)
        n = {'op': 1}

        def restart():              # graceful stop now; the next process starts once this one has returned (never nested in a world event)
            old = ops[-1]
            if not old.done and not old.stop_flag.is_set():
                old.stop()

            def start_when_down():
                if not old.done:
                    sim.world.at(sim.now + 1, start_when_down, 1); return
                if ops[-1] is old:
                    n['op'] += 1
                    ops.append(sim.operator(f'op{n["op"]}', reg, sim.settings()))
            sim.world.at(sim.now + 1, start_when_down, 1)
        for (t, what) in sc['env']:
            if what == 'edit':
                sim.world.at(t, lambda t=t: sim.set_spec('o1', x=t), 1)
            else:
                sim.world.at(t, restart, 1)
        sim.run(sc['end'])
        events = []
        for e in sim.recorder.events:
            if e['ev'] == 'h.enter' and e.get('id') != 'p':
                events.append({'ev': 'inv', 'id': e['id'], 'retry': e.get('retry') or 0, 't': e['t']})
            elif e['ev'] == 'h.exit' and e.get('id') != 'p' and e.get('outcome') in ('ok', 'temp', 'perm'):
                events.append({'ev': 'done', 'id': e['id'], 'how': e['outcome'], 't': e['t']})
            elif e['ev'] == 'srv.req' and e.get('kind') == 'patch' and e.get('plural') == PLURAL and e.get('code') == 200:
                ann = ((e.get('pbody') or {}).get('metadata') or {}).get('annotations') or {} if isinstance(e.get('pbody'), dict) else {}
                purged = [k for k, v in ann.items() if v is None and k.startswith('kopf.zalando.org/') and not k.endswith('touch-dummy')]
                if ann.get('kopf.zalando.org/last-handled-configuration') or purged:       # last-handled written / progress records removed
                    events.append({'ev': 'close', 't': e['t']})
        ops[-1].finish()
        return {'id': sc['id'], 'events': events, 'scenario': sc}
    finally:
        sim.close()


def once_scenarios(seed, n):
    import random
    rnd = random.Random(f'once-{seed}')
    script = lambda: rnd.choice([['ok'], ['ok'], ['temp', 'ok'], ['temp', 'temp', 'ok'], ['perm'], ['temp', 'perm']])
    out = [{'id': 'once-crafted', 'subs': {'s1': ['ok'], 's2': ['ok', 'temp', 'ok']}, 'q': ['ok'], 'delay': 5,
            'env': [(10, 'restart'), (12, 'edit')], 'end': 60}]
    for k in range(n):
        env = []; t = 2
        for _ in range(rnd.randint(1, 5)):
            t += rnd.choice([1, 2, 3, 5, 9])
            env.append((t, rnd.choice(['edit', 'edit', 'restart'])))
        out.append({'id': f'once-{seed}-{k}', 'subs': {'s1': script(), 's2': script() + script()}, 'q': script() + script(), 'delay': rnd.choice([2, 4, 7]),
                    'env': env, 'end': t + 40})
    return out


def judge_once(traces, rep):
    import json, os, re, shutil, tempfile
    from vf import tlc
    from vf.evidence import MachineryFailure
    scratch = tempfile.mkdtemp(prefix='vf-once-')
    try:
        path = os.path.join(scratch, 'traces.json')
        with open(path, 'w') as f:
            json.dump([{'id': t['id'], 'events': t['events'], 'perprocess': t.get('perprocess', [])} for t in traces], f)
        r = tlc.run('OnceMonitor', cfg_text='SPECIFICATION Spec\nCONSTRAINT Book\nPOSTCONDITION Verdicts\nCHECK_DEADLOCK FALSE\n', workers=1,
                    env={'TRACE_FILE': path}, timeout=1200)
    finally:
        shutil.rmtree(scratch, ignore_errors=True)
    if not r.ok:
        raise MachineryFailure(f'OnceMonitor failed: {r.violated} {r.errors}\n{r.out[-3000:]}')
    rep.add_tlc('OnceMonitor', r)
    got = {int(m.group(1)): m.group(3) for m in re.finditer(r'<<\s*"MONITOR",\s*(\d+),\s*"([^"]*)",\s*"([^"]*)"\s*>>', r.out)}
    if len(got) != len(traces) or 'incomplete' in got.values():
        raise MachineryFailure(f'OnceMonitor: {len(got)} verdicts for {len(traces)} traces')
    return {t['id']: got[i] for i, t in enumerate(traces, start=1)}

PROFILES = "progress,errors".split(',')
CFGS = "nodoors,lim,sub,res".split(',')
NEGATIVES = dict(x.split(':') for x in "neg_doors:AtMostOnce".split(',') if ':' in x)
FEATURES = set("retry,failure,kill,stop,restart-or-relist".split(','))


def run(ctx, rep) -> None:
    from vf import handling as H
    rep.rule = ('(A) TLC exhaustive on MC_Handling_{%s}; (B) seeded random scenarios of profile(s) %s on the real operator, '
                'judged by Trace_Handling; non-trivial = the trace shows one of %s; distinct = by abstract trace'
                % (','.join(CFGS), PROFILES, sorted(FEATURES)))
    _family.model_check(rep, CFGS, NEGATIVES, ctx)
    n = 120 if ctx.quick else 2500
    scs = []
    for p in PROFILES:
        scs += H.gen_scenarios(ctx.seed, n // len(PROFILES), p)
    # a handler that registers two sub-handlers whenever it runs (Handling.tla with conf.subs: InvokeSub / ParentEnd)
    scs += H.gen_scenarios(ctx.seed, 50 if ctx.quick else 1000, 'subs')
    # histories AND handler outcomes drawn by TLC itself (-simulate on Sim_Handling) are replayed into the real operator, too
    tl = H.tlc_scenarios(ctx.seed + 1, 40 if ctx.quick else 800)
    rep.extra['tlc_generated_histories'] = len(tl)
    scs += tl
    _family.run_traces(rep, scs, '+'.join(PROFILES), nontrivial=lambda f: bool(f & FEATURES))
    from concurrent.futures import ProcessPoolExecutor
    oscs = once_scenarios(ctx.seed, 120 if ctx.quick else 2500)
    with ProcessPoolExecutor(16) as ex:
        otr = list(ex.map(once_case, oscs, chunksize=4))
    # two plain resume handlers, a resume cycle superseded by an update (the scenarios of C14, judged here for the cycle clauses)
    from vf.props import C14
    rtr = list(ProcessPoolExecutor(16).map(C14.resume_case, C14.resume_scenarios(ctx.seed, 60 if ctx.quick else 1200), chunksize=4))
    for t in rtr:
        t['perprocess'] = []
    otr += rtr
    ov = judge_once(otr, rep)
    rep.evaluations += len(otr); rep.traces += len(otr)
    for t in otr:
        if any(e['ev'] == 'done' and e['how'] != 'ok' for e in t['events']):
            rep.nontrivial(t['events'])
        if ov[t['id']] != 'ok':
            rep.violation(f'{t["id"]}: {ov[t["id"]]} {t["scenario"]}', payload=t)
