"""C14 - resume handlers once per object per process.

(A) Handling.tla model-checked exhaustively on the configurations named below (plus negative configurations that must
fail, to show the invariants are not vacuous); (B) seeded random closed-loop scenarios of the profile(s) below run on
the REAL kopf.operator() in the world simulator, every trace judged by TLC against Trace_Handling.tla (all invariants
of the module are evaluated on every state of the explaining behaviour, and time is bound by urgency).

(M) OnceMonitor.tla (per-process clause): runs of the real operator with TWO resume handlers (one succeeds at once, the other
retries), an update handler, graceful restarts and edits inside the window in which one resume handler has finished and the
other is still due (the resuming cause is superseded by the updating one): no resume handler is invoked again once it has
finished for this object in this operator process.
"""
from vf.props import _family


def resume_case(sc):
    import kopf
    from sim.opsim import GROUP, PLURAL, VERSION, Sim
    sim = Sim(wall_budget=20)
    try:
        sim.srv.keep_bodies.add(PLURAL)
        reg = sim.registry()
        out = lambda o: {'ok': 'ok', 'temp': ('temp', sc['delay']), 'perm': 'perm'}[o]
        scripts = {h: [out(o) for o in sc[h]] for h in ('r1', 'r2', 'u')}
        # the scripts are per operator process: a new process starts them again
        hs = {}

        def fresh():
            hs.clear()
            for h in ('r1', 'r2', 'u'):
                hs[h] = sim.handler(h, list(scripts[h]), duration=sc.get('hdur', 0))

        def mk(h):
            async def fn(**kw):
                return await hs[h](**kw)
            fn.__name__ = h
            return fn
        fresh()
        kopf.on.resume(GROUP, VERSION, PLURAL, registry=reg, id='r1')(mk('r1'))
        kopf.on.resume(GROUP, VERSION, PLURAL, registry=reg, id='r2')(mk('r2'))
        kopf.on.update(GROUP, VERSION, PLURAL, registry=reg, id='u')(mk('u'))
        kopf.on.create(GROUP, VERSION, PLURAL, registry=reg, id='u')(mk('u'))
        sim.create('o1', {'x': 0})
        # `patchfail`: the PATCH that CLOSES the resume cycle of the process that follows the first restart (records purged / last-handled
        # written) is answered 500 and not retried: processing fails and is throttled, events keep coming -- the handlers have all run to
        # completion in this process and are not run again. (A lost write of an UNFINISHED cycle does repeat handlers, by design: the
        # records are the memory; such faults are outside the histories the property quantifies over and are not injected.)
        tune = {'networking__error_backoffs': [], 'queueing__error_delays': [1, 1]} if sc.get('patchfail') else {}
        ops = [sim.operator('op1', reg, sim.settings(**tune))]
        n = {'op': 1}
        if sc.get('patchfail'):
            from sim.fakek8s import Fault, Plan
            cnt = {'n': 0}

            def policy(req):
                if req.route.get('kind') == 'patch' and req.route.get('name') == 'o1' and req.session.owner == 'op2' and not cnt['n']:
                    ann = ((req.body or {}).get('metadata') or {}).get('annotations') or {} if isinstance(req.body, dict) else {}
                    closing = any(k_.startswith('kopf.zalando.org/') and not k_.endswith('touch-dummy') and (v_ is None or k_.endswith('last-handled-configuration'))
                                  for k_, v_ in ann.items())
                    if closing:
                        cnt['n'] = 1
                        return Plan(fault=Fault('status', code=500))
                return None
            sim.srv.policy = policy

        def restart():              # graceful stop now; the next process starts once this one has returned (never nested in a world event)
            old = ops[-1]
            if not old.done and not old.stop_flag.is_set():
                old.stop()

            def start_when_down():
                if not old.done:
                    sim.world.at(sim.now + 1, start_when_down, 1); return
                if ops[-1] is old:
                    n['op'] += 1; fresh()
                    sim.rec('env.restart')
                    ops.append(sim.operator(f'op{n["op"]}', reg, sim.settings(**tune)))
            sim.world.at(sim.now + 1, start_when_down, 1)
        for (t, what) in sc['env']:
            if what == 'edit':
                sim.world.at(t, lambda t=t: sim.set_spec('o1', x=t), 1)
            elif what == 'relist':          # the stream is cut and its resume version is gone (410): the objects are listed again
                def relist():
                    for w in [w for w in sim.srv.watches if w.res.plural == PLURAL]: w.end('eof')
                    if sim.obj('zz') is None: sim.create('zz', {'x': 0})        # a change the stream has not delivered ...
                    else: sim.set_spec('zz', x=int(sim.now))
                    sim.srv.compact(sim.things)                                  # ... and its version is compacted away: 410 on resuming
                sim.world.at(t, relist, 1)
            else:
                sim.world.at(t, restart, 1)
        sim.run(sc['end'])
        events = []
        uid1 = (sim.obj('o1') or {}).get('metadata', {}).get('uid')
        for e in sim.recorder.events:
            if e.get('name') not in (None, 'o1'):
                continue
            if e['ev'] == 'h.enter' and e.get('id') in ('r1', 'r2'):
                events.append({'ev': 'inv', 'id': e['id'], 'retry': e.get('retry') or 0, 't': e['t']})
            elif e['ev'] == 'h.exit' and e.get('id') in ('r1', 'r2') and e.get('outcome') in ('ok', 'temp', 'perm') and e.get('uid') == uid1:
                events.append({'ev': 'done', 'id': e['id'], 'how': e['outcome'], 't': e['t']})
            elif e['ev'] == 'env.restart':
                events.append({'ev': 'restart', 't': e['t']})
            elif e['ev'] == 'srv.req' and e.get('kind') == 'patch' and e.get('plural') == PLURAL and e.get('code') == 200 and isinstance(e.get('pbody'), dict):
                ann = (e['pbody'].get('metadata') or {}).get('annotations') or {}
                purged = [k for k, v in ann.items() if v is None and k.startswith('kopf.zalando.org/') and not k.endswith('touch-dummy')]
                if ann.get('kopf.zalando.org/last-handled-configuration') or purged:
                    events.append({'ev': 'close', 't': e['t']})
        ops[-1].finish()
        return {'id': sc['id'], 'events': events, 'perprocess': ['r1', 'r2'], 'scenario': sc}
    finally:
        sim.close()


def resume_scenarios(seed, n):
    import random
    rnd = random.Random(f'resume2-{seed}')
    out = [{'id': 'resume2-crafted', 'r1': ['ok'], 'r2': ['temp', 'ok'], 'u': ['ok'], 'delay': 6, 'env': [(3, 'edit')], 'end': 40}]
    # a re-listing whose response is produced while a resume handler is still executing (and consumed after its patch)
    for k, (d1, d2) in enumerate(((1, 0), (1, 1), (2, 1), (3, 1))):
        out.append({'id': f'resume2-relist-{k}', 'r1': ['ok'], 'r2': ['ok'], 'u': ['ok'], 'delay': 3, 'hdur': 3,
                    'env': [(10, 'restart'), (12 + d1, 'relist'), (12 + d1 + 3 + d2, 'relist')], 'end': 60})
    # the PATCH that ends (or continues) the resume cycle of the second process is lost; events keep coming in that process
    for k, r2s in enumerate((['ok'], ['temp', 'ok'], ['temp', 'temp', 'ok'])):
        out.append({'id': f'resume2-patchfail-{k}', 'r1': ['ok'], 'r2': r2s, 'u': ['ok'], 'delay': 3, 'patchfail': 'closing',
                    'env': [(5, 'restart'), (20, 'relist'), (24, 'edit'), (30, 'relist')], 'end': 70})
    for k in range(n):
        env = []; t = 0
        for _ in range(rnd.randint(1, 5)):
            t += rnd.choice([1, 2, 3, 4, 8])
            env.append((t, rnd.choice(['edit', 'edit', 'restart', 'relist'])))
        out.append({'id': f'resume2-{seed}-{k}', 'r1': rnd.choice([['ok'], ['temp', 'ok']]), 'r2': rnd.choice([['temp', 'ok'], ['temp', 'temp', 'ok'], ['ok'], ['perm']]),
                    'u': rnd.choice([['ok'], ['temp', 'ok']]), 'delay': rnd.choice([3, 6]), 'hdur': rnd.choice([0, 0, 2]), 'env': env, 'end': t + 40})
    return out

PROFILES = "resume".split(',')
CFGS = "restart".split(',')
NEGATIVES = dict(x.split(':') for x in "-".split(',') if ':' in x)
FEATURES = set("resume,restart-or-relist".split(','))


def run(ctx, rep) -> None:
    from vf import handling as H
    rep.rule = ('(A) TLC exhaustive on MC_Handling_{%s}; (B) seeded random scenarios of profile(s) %s on the real operator, '
                'judged by Trace_Handling; non-trivial = the trace shows one of %s; distinct = by abstract trace'
                % (','.join(CFGS), PROFILES, sorted(FEATURES)))
    _family.model_check(rep, CFGS, NEGATIVES, ctx)
    n = 120 if ctx.quick else 2500
    scs = []
    for p in PROFILES:
        scs += H.gen_scenarios(ctx.seed, n // len(PROFILES), p)
    _family.run_traces(rep, scs, '+'.join(PROFILES), nontrivial=lambda f: bool(f & FEATURES))
    from concurrent.futures import ProcessPoolExecutor
    from vf.props.C02 import judge_once
    rscs = resume_scenarios(ctx.seed, 120 if ctx.quick else 2500)
    with ProcessPoolExecutor(16) as ex:
        rtr = list(ex.map(resume_case, rscs, chunksize=4))
    rv = judge_once(rtr, rep)
    rep.evaluations += len(rtr); rep.traces += len(rtr)
    for t in rtr:
        if any(e['ev'] == 'done' and e['how'] == 'temp' for e in t['events']):
            rep.nontrivial(t['events'])
        if rv[t['id']] != 'ok':
            rep.violation(f'{t["id"]}: {rv[t["id"]]} {t["scenario"]}', payload=t)
