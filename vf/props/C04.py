"""C04 - change detection is exact: own writes invisible, diffs sound and complete.

(A) MC_Essence: DiffSound, DiffComplete, ReduceExact on the reference diff of JV.tla for all pairs of small bodies
    (quick: 810 900 pairs; thorough: 9 837 632 pairs), enumerated by TLC.
(B) records of the REAL functions judged by Essence!ClassifyC04 in TLC:
    own      essence(body) vs essence(body + the framework's own write), for every kind of own write (progress record
             store/purge, touch set/clear, last-handled store, finalizer add/remove, result in status) x storage
             configuration x body;
    foreign  the same for writes of ANOTHER Kopf-based operator (other prefix) seen by this operator;
    echo     the last-handled state fetched back from the object after the framework's own write of it equals the essence of
             that object (it is there, and nothing differs), for every storage configuration x body incl. empty essences;
    visible  edits of spec / payload / labels / ordinary annotations must change the essence;
    essence  the implementation's essence equals the reference Essence(body, x) of the specification;
    diff / reduce  diffs.diff and diffs.reduce against the reference Diff / ReduceRef, soundness, completeness.
(C) closed loop: histories with views older than the framework's own write (profile `consistency`, incl. operators with update
    handlers only) on the real operator, validated by Trace_Handling: a change made meanwhile still counts.
    Bodies: bounded-exhaustive over a small alphabet, plus hypothesis-generated larger ones (nesting, unicode, nulls).
"""
from __future__ import annotations

import copy
import itertools
import json
import random
from typing import Any

from vf import records, tlc
from vf.jv import enc, merge_patch

KUBECTL = 'kubectl.kubernetes.io/last-applied-configuration'


def configs():
    import kopf
    return {
        'default': dict(progress=kopf.SmartProgressStorage(), diffbase=kopf.AnnotationsDiffBaseStorage(), own=['kopf.zalando.org'],
                        statusfields=[['status', 'kopf', 'progress'], ['status', 'kopf', 'dummy']]),
        'myop': dict(progress=kopf.AnnotationsProgressStorage(prefix='my-op.example.com'),
                     diffbase=kopf.AnnotationsDiffBaseStorage(prefix='my-op.example.com', key='last'), own=['my-op.example.com'],
                     statusfields=[]),
        'status': dict(progress=kopf.StatusProgressStorage(field='status.myop.progress', touch_field='status.myop.dummy'),
                       diffbase=kopf.StatusDiffBaseStorage(field='status.myop.last'), own=[],
                       statusfields=[['status', 'myop', 'progress'], ['status', 'myop', 'dummy'], ['status', 'myop', 'last']]),
        'multi': dict(progress=kopf.MultiProgressStorage([kopf.AnnotationsProgressStorage(prefix='my-op.example.com'),
                                                          kopf.StatusProgressStorage(field='status.myop.progress', touch_field='status.myop.dummy')]),
                      diffbase=kopf.MultiDiffBaseStorage([kopf.AnnotationsDiffBaseStorage(prefix='my-op.example.com', key='last'),
                                                          kopf.StatusDiffBaseStorage(field='status.myop.last')]),
                      own=['my-op.example.com'],
                      statusfields=[['status', 'myop', 'progress'], ['status', 'myop', 'dummy'], ['status', 'myop', 'last']]),
        # a Kopf-based operator whose prefix starts with "kopf." but is not the known one: no marker is stored (F19)
        'kopfdev': dict(progress=kopf.AnnotationsProgressStorage(prefix='kopf.dev'),
                        diffbase=kopf.AnnotationsDiffBaseStorage(prefix='kopf.dev', key='last'), own=['kopf.dev'], statusfields=[]),
    }


def essence(cfg, body: dict[str, Any], extra=()) -> Any:
    from kopf._cogs.structs import bodies
    b = bodies.Body(copy.deepcopy(body))
    e = cfg['diffbase'].build(body=b, extra_fields=set(extra))
    return cfg['progress'].clear(essence=e)


def k8s_apply(body: dict[str, Any], patch: dict[str, Any]) -> dict[str, Any]:
    out = merge_patch(copy.deepcopy(body), json.loads(json.dumps(patch)))
    md = out.get('metadata', {})
    for k in ('annotations', 'labels', 'finalizers'):
        if k in md and not md[k]:
            del md[k]
    return out


def kinfo(body: dict[str, Any]) -> dict[str, Any]:
    res = {}
    for k in (body.get('metadata', {}).get('annotations') or {}):
        if '/' in k:
            p, n = k.split('/', 1)
            res[k] = {'prefix': p, 'name': n, 'slash': True, 'kopf': p == 'kopf.zalando.org' or p.endswith('.kopf.zalando.org')}
        else:
            res[k] = {'prefix': '', 'name': k, 'slash': False, 'kopf': False}
    return res


def small_bodies() -> list[dict[str, Any]]:
    out = []
    specs = [None, {}, {'x': 1}, {'x': None, 'y': {'z': []}}]
    labelss = [None, {}, {'l': 'v'}]
    ann_sets = [None, {}, {'user': 'u'}, {'user': 'u', KUBECTL: '{}'},
                {'other.example.com/kopf-managed': 'yes', 'other.example.com/h': '{"retries":1}'},
                {'sub.kopf.zalando.org/h': 'x', 'user/with-slash': 'w'},
                # ordinary annotations of look-alike domains: the key merely BEGINS with the characters of a managed prefix
                {'kopf.zalando.org.uk/x': 'v', 'kopf.zalando.orgx': 'n', 'my-op.example.community/b': '2', 'my-op.example.com.x/a': '1'},
                {'other.example.com/kopf-managed': 'yes', 'other.example.com.internal/y': 'w', 'other.example.community/z': 'k'},
                # ordinary annotations under a SUBDOMAIN of a marked custom prefix: only kopf.zalando.org extends to its subdomains
                {'my-op.example.com/kopf-managed': 'yes', 'my-op.example.com/fn': '{}', 'backup.my-op.example.com/schedule': 'daily',
                 'other.example.com/kopf-managed': 'yes', 'team.other.example.com/owner': 'x'},
                {'kopf.zalando.org/touch-dummy': 't', 'kopf.zalando.org/fn': '{"retries":1}', 'my-op.example.com/kopf-managed': 'yes',
                 'my-op.example.com/fn': '{}'}]
    statuses = [None, {}, {'other': 1}, {'kopf': {'progress': {'fn': {'retries': 1}}, 'dummy': 'd'}, 'myop': {'progress': {'fn': {}}, 'last': '{}'}}]
    for sp, la, an, st in itertools.product(specs, labelss, ann_sets, statuses):
        b: dict[str, Any] = {'apiVersion': 'example.com/v1', 'kind': 'Thing',
                             'metadata': {'name': 'o', 'namespace': 'ns', 'uid': 'u1', 'resourceVersion': '5', 'generation': 2,
                                          'creationTimestamp': '2030-01-01T00:00:00Z', 'managedFields': [{'manager': 'x'}]}}
        if sp is not None: b['spec'] = copy.deepcopy(sp)
        if la is not None: b['metadata']['labels'] = dict(la)
        if an is not None: b['metadata']['annotations'] = dict(an)
        if st is not None: b['status'] = copy.deepcopy(st)
        out.append(b)
        if len(out) % 7 == 3:      # ... and as a ReplicaSet owned by a Deployment (the framework marks its own keys on those), among the others
            b2 = copy.deepcopy(b); b2['kind'] = 'ReplicaSet'; b2['metadata']['ownerReferences'] = [{'kind': 'Deployment', 'name': 'd', 'uid': 'u0'}]
            out.append(b2)
    return out


def own_writes(cfg, body: dict[str, Any]):
    """(name, patch-as-dict or in-place transformation) for every kind of write the framework performs."""
    from kopf._cogs.configs import progress
    from kopf._cogs.structs import bodies, finalizers, patches
    B = bodies.Body(copy.deepcopy(body))
    rec = progress.ProgressRecord(started='2030-01-01T00:00:00', stopped=None, delayed='2030-01-01T00:00:05', purpose='update',
                                  retries=1, success=False, failure=False, message='unicode: ☃ "quoted"', subrefs=None)
    for hid in ('fn', 'fn/sub.field', 'a' * 70):
        p = patches.Patch(); cfg['progress'].store(key=hid, record=rec, body=B, patch=p); cfg['progress'].flush()
        yield f'store:{hid[:8]}', dict(p)
        p = patches.Patch(); cfg['progress'].purge(key=hid, body=B, patch=p); cfg['progress'].flush()
        yield f'purge:{hid[:8]}', dict(p)
    p = patches.Patch(); cfg['progress'].touch(body=B, patch=p, value='2030-01-01T00:00:07'); yield 'touch', dict(p)
    p = patches.Patch(); cfg['progress'].touch(body=B, patch=p, value=None); yield 'untouch', dict(p)
    p = patches.Patch(); cfg['diffbase'].store(body=B, patch=p, essence=essence(cfg, body)); yield 'lasthandled', dict(p)
    p = patches.Patch(); cfg['diffbase'].store(body=B, patch=p, essence={'spec': {'old': True}}); yield 'lasthandled-other', dict(p)
    yield 'result', {'status': {'fn': {'result': 1}}}
    b2 = copy.deepcopy(body); finalizers.block_deletion(b2, finalizer='kopf.zalando.org/KopfFinalizerMarker'); yield 'fin-add', ('body', b2)
    b3 = copy.deepcopy(b2); finalizers.allow_deletion(b3, finalizer='kopf.zalando.org/KopfFinalizerMarker'); yield 'fin-del', ('body', b3)
    b4 = copy.deepcopy(body); b4['metadata'].update(resourceVersion='6', generation=3, managedFields=[]); yield 'system-metadata', ('body', b4)


def visible_edits(body: dict[str, Any]):
    b = copy.deepcopy(body); b.setdefault('spec', {}); b['spec']['newfield'] = 'v'; yield 'spec-add', b
    if body.get('spec'):
        b = copy.deepcopy(body); k = sorted(b['spec'])[0]; b['spec'][k] = 'changed!'; yield 'spec-change', b
        b = copy.deepcopy(body); k = sorted(b['spec'])[0]
        if b['spec'][k] is not None:      # removing a null-valued key is the F4 family of the diff, not of the essence
            del b['spec'][k]; yield 'spec-remove', b
    b = copy.deepcopy(body); b['data'] = {'k': 'v'}; yield 'payload-add', b
    b = copy.deepcopy(body); b['metadata'].setdefault('labels', {})['new'] = 'l'; yield 'label-add', b
    b = copy.deepcopy(body); b['metadata'].setdefault('annotations', {})['plain'] = 'a'; yield 'annotation-add', b
    b = copy.deepcopy(body); b['metadata'].setdefault('annotations', {})['example.com/their'] = 'a'; yield 'annotation-add-prefixed', b
    if (body['metadata'].get('annotations') or {}).get('user'):
        b = copy.deepcopy(body); b['metadata']['annotations']['user'] = 'u2'; yield 'annotation-change', b
        b = copy.deepcopy(body); del b['metadata']['annotations']['user']; yield 'annotation-remove', b


def build_essence_records(quick: bool, seed: int) -> list[dict[str, Any]]:
    cfgs = configs()
    bodies_ = small_bodies()
    rnd = random.Random(seed)
    if quick:
        bodies_ = rnd.sample(bodies_, 90)
    recs: list[dict[str, Any]] = []
    for name in ('default', 'myop', 'status', 'multi'):
        cfg = cfgs[name]
        for body in bodies_:
            before = essence(cfg, body)
            for extra in ([], [('status',)] if name in ('status', 'multi') else [('spec',)]):
                recs.append({'kind': 'essence', 'cfg': name, 'body': enc(body), 'impl': enc(essence(cfg, body, extra)),
                             'x': {'own': cfg['own'], 'kinfo': kinfo(body), 'statusfields': cfg['statusfields'],
                                   'extra': [list(p) for p in extra]}})
            if body is bodies_[0]:
                # handler-declared extra fields outside the default essence (e.g. field='status.flag'): every value that is there counts,
                # the falsy ones too
                for flag in (None, False, True, 0, 2, '', 'x', [], {}, [0]):
                    b2 = copy.deepcopy(body); b2.setdefault('status', {})['other'] = 1
                    if flag is not None or True:
                        b2['status']['flag'] = flag
                    for extra in ([('status', 'flag')], [('status', 'flag'), ('status', 'absent')], [('metadata', 'generation')]):
                        recs.append({'kind': 'essence', 'cfg': name, 'body': enc(b2), 'impl': enc(essence(cfg, b2, extra)),
                                     'x': {'own': cfg['own'], 'kinfo': kinfo(b2), 'statusfields': cfg['statusfields'],
                                           'extra': [list(p_) for p_ in extra]}})
            for wname, w in own_writes(cfg, body):
                after_body = w[1] if isinstance(w, tuple) else k8s_apply(body, w)
                recs.append({'kind': 'own', 'cfg': name, 'write': wname, 'before': enc(before), 'after': enc(essence(cfg, after_body)),
                             'body': enc(body) if len(recs) % 50 == 0 else enc({})})
                # a handler declared on field=metadata.annotations makes all annotations "extra fields": the storages' own
                # cleaning is then the only thing between the framework's records and the essence
                xf = [('metadata', 'annotations')]
                recs.append({'kind': 'own', 'cfg': name + '+annotations-field', 'write': wname, 'before': enc(essence(cfg, body, xf)),
                             'after': enc(essence(cfg, after_body, xf)), 'body': enc({})})
            # the echo of the framework's own last-handled write: what is fetched back from the patched object is the essence of
            # that object -- stored, hence "handled before", and no difference (empty and falsy essences included)
            from kopf._cogs.structs import bodies as _bodies, patches as _patches
            p_ = _patches.Patch(); cfg['diffbase'].store(body=_bodies.Body(copy.deepcopy(body)), patch=p_, essence=before)
            echoed = k8s_apply(body, dict(p_))
            old_ = cfg['diffbase'].fetch(body=_bodies.Body(copy.deepcopy(echoed)))
            recs.append({'kind': 'echo', 'cfg': name, 'hasold': old_ is not None, 'old': enc(old_ if old_ is not None else {}),
                         'new': enc(essence(cfg, echoed))})
            # ... also for the next operator process (a storage that has served nothing yet): what this one wrote is found by that one
            fresh = configs()[name]
            old2 = fresh['diffbase'].fetch(body=_bodies.Body(copy.deepcopy(echoed)))
            recs.append({'kind': 'echo', 'cfg': name + '+restart', 'hasold': old2 is not None, 'old': enc(old2 if old2 is not None else {}),
                         'new': enc(essence(fresh, echoed))})
            for ename, b2 in visible_edits(body):
                recs.append({'kind': 'visible', 'cfg': name, 'write': ename, 'before': enc(before), 'after': enc(essence(cfg, b2))})
    # another Kopf-based operator writes; this operator (default configuration) must not see it
    viewer = cfgs['default']
    for wname in ('myop', 'status', 'kopfdev'):
        writer = cfgs[wname]
        for body in (bodies_ if not quick else bodies_[:40]):
            before = essence(viewer, body)
            for n, w in own_writes(writer, body):
                if isinstance(w, tuple) or n in ('result',) or n.startswith('fin'):
                    continue
                recs.append({'kind': 'foreign', 'cfg': f'{wname}->default', 'write': n, 'before': enc(before),
                             'after': enc(essence(viewer, k8s_apply(body, w))), 'unmarked_kopf_prefix': wname == 'kopfdev'})
    return recs


def docs_small() -> list[Any]:
    leaves = [1, 'x', None, {}, [1], True]
    t1 = leaves + [dict(zip('pq', vs)) for vs in itertools.product(leaves[:4], repeat=2)] + [{'p': v} for v in leaves]
    t2 = [{}] + [{'p': v} for v in t1] + [{'p': a, 'q': b} for a, b in itertools.product(t1[:8], t1[:8])]
    return t2


def build_diff_records(quick: bool, seed: int) -> list[dict[str, Any]]:
    from kopf._cogs.structs import diffs
    rnd = random.Random(seed)
    docs = docs_small()
    pairs = list(itertools.product(docs, docs))
    pairs = rnd.sample(pairs, min(len(pairs), 2500 if quick else 20000))
    # hypothesis: larger documents (nesting, unicode keys, nulls)
    from hypothesis import HealthCheck, given, settings, strategies as st
    leaf = st.one_of(st.none(), st.booleans(), st.integers(-5, 5), st.text(max_size=3))
    doc = st.recursive(leaf, lambda c: st.one_of(st.lists(c, max_size=2), st.dictionaries(st.sampled_from(['a', 'b', 'é', 'p/q', '']), c, max_size=3)),
                       max_leaves=8)
    more: list[tuple[Any, Any]] = []

    @settings(max_examples=300 if quick else 3000, derandomize=True, database=None, deadline=None,
              suppress_health_check=list(HealthCheck))
    @given(st.dictionaries(st.sampled_from(['a', 'b', 'c']), doc, max_size=3), st.dictionaries(st.sampled_from(['a', 'b', 'c']), doc, max_size=3))
    def collect(a, b):
        more.append((a, b))
    collect()
    recs = []
    for a, b in pairs + more:
        items = [{'op': str(i.op), 'path': list(i.field), 'old': enc(i.old), 'new': enc(i.new)} for i in diffs.diff(a, b)]
        recs.append({'kind': 'diff', 'old': enc(a), 'new': enc(b), 'items': items})
        for path in (['p'], ['a'], ['p', 'q'], ['a', 'b']):
            if rnd.random() < 0.25:
                red = diffs.reduce(diffs.diff(a, b), tuple(path))
                recs.append({'kind': 'reduce', 'old': enc(a), 'new': enc(b), 'path': path,
                             'items': [{'op': str(i.op), 'path': list(i.field), 'old': enc(i.old), 'new': enc(i.new)} for i in red]})
    # the old / new values a handler narrowed to a field gets (ResourceHandler.adjust_cause), also when nothing has changed at all
    import logging
    from kopf._cogs.structs import bodies, ephemera, patches, references
    from kopf._core.engines import indexing
    from kopf._core.intents import causes, handlers as khandlers
    res_ = references.Resource('example.com', 'v1', 'things', namespaced=True)
    log = logging.getLogger('c04')
    same = [(d_, d_) for d_ in docs]
    for a, b in same + rnd.sample(pairs, 300 if quick else 3000) + more[:100 if quick else 1000]:
        if not isinstance(a, dict) or not isinstance(b, dict):
            continue
        for path, reason in itertools.product((['p'], ['a'], ['p', 'q'], ['a', 'b']), ('update', 'resume', 'delete', 'create')):
            if rnd.random() < (0.5 if a is b else 0.15):
                old = None if reason == 'create' else a
                h = khandlers.ChangingHandler(fn=lambda **_: None, id='h', param=None, errors=None, timeout=None, retries=None, backoff=None,
                                              selector=references.Selector('example.com', 'v1', 'things'), labels=None, annotations=None, when=None,
                                              field=tuple(path), value=None, old=None, new=None, field_needs_change=False, initial=None, deleted=None,
                                              requires_finalizer=None, reason=causes.Reason(reason))
                c = causes.ChangingCause(reason=causes.Reason(reason), initial=reason == 'resume', old=old, new=b, diff=diffs.diff(old, b), resource=res_,
                                         indices=indexing.OperatorIndexers().indices, logger=log, patch=patches.Patch(),
                                         body=bodies.Body({'metadata': {'name': 'o', 'uid': 'u'}}), memo=ephemera.Memo())
                n = h.adjust_cause(c)
                recs.append({'kind': 'narrow', 'hasold': old is not None, 'old': enc(a), 'new': enc(b), 'path': path, 'reason': reason,
                             'nold': enc(n.old), 'nnew': enc(n.new)})
    # ... and what the functions are GIVEN when several handlers narrowed to different fields run in one cycle (lifecycle all_at_once, through the
    # real execute_handlers_once): each one gets the values of ITS field, whatever ran before it
    import asyncio
    from kopf._cogs.configs import configuration
    from kopf._core.actions import execution, lifecycles, progression
    settings_ = configuration.OperatorSettings()
    for a, b in rnd.sample(pairs, 120 if quick else 1500) + more[:60 if quick else 600]:
        if not isinstance(a, dict) or not isinstance(b, dict):
            continue
        paths = rnd.sample((['p'], ['a'], ['p', 'q'], ['a', 'b']), rnd.randint(2, 4))
        given: dict[str, Any] = {}

        def mkfn(hid_: str):
            async def fn(old, new, **_):
                given[hid_] = (old, new)
            return fn
        hs_ = [khandlers.ChangingHandler(fn=mkfn(f'h{k_}'), id=f'h{k_}', param=None, errors=None, timeout=None, retries=None, backoff=None,
                                         selector=references.Selector('example.com', 'v1', 'things'), labels=None, annotations=None, when=None,
                                         field=tuple(path), value=None, old=None, new=None, field_needs_change=False, initial=None, deleted=None,
                                         requires_finalizer=None, reason=causes.Reason('update')) for k_, path in enumerate(paths)]
        c = causes.ChangingCause(reason=causes.Reason('update'), initial=False, old=a, new=b, diff=diffs.diff(a, b), resource=res_,
                                 indices=indexing.OperatorIndexers().indices, logger=log, patch=patches.Patch(),
                                 body=bodies.Body({'metadata': {'name': 'o', 'uid': 'u'}}), memo=ephemera.Memo())
        async def once_() -> None:
            await execution.execute_handlers_once(lifecycle=lifecycles.all_at_once, settings=settings_, handlers=hs_, cause=c,
                                                  state=progression.State.from_scratch().with_handlers(hs_))
        asyncio.run(once_())
        for k_, path in enumerate(paths):
            if f'h{k_}' in given:
                recs.append({'kind': 'narrow', 'hasold': True, 'old': enc(a), 'new': enc(b), 'path': path, 'reason': 'update',
                             'nold': enc(given[f'h{k_}'][0]), 'nnew': enc(given[f'h{k_}'][1]), 'nth': k_})
            else:
                recs.append({'kind': 'narrow', 'hasold': True, 'old': enc(a), 'new': enc(b), 'path': path, 'reason': 'update', 'nold': enc('NOT-INVOKED'), 'nnew': enc(None), 'nth': k_})
    return recs


def run(ctx, rep) -> None:
    rep.rule = ('(A) TLC enumerates all pairs of small bodies and checks the diff laws on the reference; (B) records of the real essence/'
                'diff functions (bounded-exhaustive bodies x own/foreign/visible writes x 4 storage configurations; sampled and '
                'hypothesis-generated document pairs) judged by Essence!ClassifyC04; non-trivial = distinct record whose write or diff '
                'is not empty')
    r = tlc.run('MC_Essence', 'MC_Essence_q.cfg' if ctx.quick else 'MC_Essence.cfg', timeout=3000)
    rep.add_tlc('MC_Essence', r)
    if not r.ok:
        rep.violation(f'reference diff laws violated: {r.violated}', files={'tlc.out': r.out[-100000:]})
        return
    recs = build_essence_records(ctx.quick, ctx.seed) + build_diff_records(ctx.quick, ctx.seed)
    bad = records.judge('Rec_Essence', recs, rep=rep, shard=4000)
    rep.evaluations += len(recs); rep.traces += len(recs)
    for rec in recs:
        if rec['kind'] in ('own', 'foreign', 'visible', 'narrow') or rec.get('items'):
            rep.nontrivial(rec)
    kinds: dict[str, int] = {}
    for rec in recs:
        kinds[rec['kind']] = kinds.get(rec['kind'], 0) + 1
    rep.extra['records_by_kind'] = kinds
    # (C) closed loop: a change made while the framework's own write is in flight (views older than that write arrive first) still
    # counts against what was stored as handled -- also for an operator that has nothing to call on creation; histories of the
    # `consistency` profile on the real operator, every trace a behaviour of Handling.tla (Trace_Handling)
    from vf import handling as H
    from vf.props import _family
    _family.run_traces(rep, H.gen_scenarios(ctx.seed + 5, 60 if ctx.quick else 1500, 'consistency'), 'consistency', nontrivial=lambda f: 'inconsistent-view' in f)
    for k in ('own', 'diff'):
        rep.sample(next(r_ for r_ in recs if r_['kind'] == k and (k != 'own' or r_['body']['v'])))
    for i, label in sorted(bad.items()):
        rec = recs[i]
        rep.classified(label if label.startswith('F') else '', f'{label}: {json.dumps(rec)[:600]}', payload=rec)
