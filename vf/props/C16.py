"""C16 - persistence storages round-trip, isolate and produce valid annotation names.

(A) MC_Keys: on all ids of length 1..4 over the character classes of the statement, a key of the reference shape is a
    valid Kubernetes annotation name unless the id is in family F7.
(B) the REAL key-forming functions and storages, judged by Keys!ClassifyC16 in TLC:
    key / key1   make_keys (V2 and V1, with and without the ReplicaSet-of-Deployment mark) for ids over
                 [A-Za-z0-9_./<>-]: exhaustive for lengths 1..3, boundary lengths 40..70 / 200 / 300 with every class in
                 first and last position, hypothesis-generated ids up to 300 characters;
    stable       the same id gives the same key in a second interpreter with another PYTHONHASHSEED;
    distinct     long ids sharing a 63+ character prefix get different keys;
    roundtrip / purge   store -> (independent RFC 7386 merge) -> fetch gives the record back; purge removes every key
                 of that id (V1 and V2); records of other ids, keys of other prefixes and user data are untouched.
"""
from __future__ import annotations

import copy
import itertools
import json
import os
import random
import subprocess
import sys
from typing import Any

from vf import records, tlc
from vf.jv import enc, merge_patch

ALPHABET = 'Aa0_./<>-'
FULL = 'ABCXYZabcxyz0189_./<>-'


def cps(s: str) -> list[int]:
    return [ord(c) for c in s]


def gen_ids(quick: bool, seed: int) -> list[str]:
    rnd = random.Random(seed)
    ids = [''.join(t) for n in (1, 2, 3) for t in itertools.product(ALPHABET, repeat=n)]
    if quick:
        ids = [i for i in ids if len(i) < 3] + rnd.sample([i for i in ids if len(i) == 3], 150)
    for n in ([45, 46, 47, 55, 62, 63, 64, 65, 70] + ([] if quick else [40, 48, 54, 56, 61, 66, 200, 300])):
        for first, last in itertools.product(ALPHABET, ALPHABET):
            if quick and rnd.random() < 0.6: continue
            mid = ''.join(rnd.choice(FULL) for _ in range(n - 2))
            ids.append(first + mid + last)
    from hypothesis import HealthCheck, given, settings, strategies as st
    more: list[str] = []

    @settings(max_examples=150 if quick else 3000, derandomize=True, database=None, deadline=None, suppress_health_check=list(HealthCheck))
    @given(st.text(alphabet=FULL, min_size=1, max_size=300))
    def collect(s): more.append(s)
    collect()
    # realistic handler ids: sub-handler paths and field suffixes
    ids += ['create_fn', 'create_fn/sub1', 'update/spec.field', 'parent/child/grandchild', 'fn/<lambda>', 'a' * 63, 'a' * 64] + more
    return ids


def storages():
    import kopf
    return {
        'ann-default': (kopf.AnnotationsProgressStorage(), kopf.AnnotationsDiffBaseStorage(), 'kopf.zalando.org'),
        'ann-myop': (kopf.AnnotationsProgressStorage(prefix='my-op.example.com'), kopf.AnnotationsDiffBaseStorage(prefix='my-op.example.com', key='last'), 'my-op.example.com'),
        'ann-v2only': (kopf.AnnotationsProgressStorage(prefix='my-op.example.com', v1=False), kopf.AnnotationsDiffBaseStorage(prefix='my-op.example.com', v1=False), 'my-op.example.com'),
        'status': (kopf.StatusProgressStorage(), kopf.StatusDiffBaseStorage(), None),
        'smart': (kopf.SmartProgressStorage(), kopf.MultiDiffBaseStorage([kopf.AnnotationsDiffBaseStorage(), kopf.StatusDiffBaseStorage()]), 'kopf.zalando.org'),
    }


def second_process_keys(ids: list[str], repo: str) -> dict[str, list[str]]:
    code = ("import sys, json; sys.path.insert(0, %r)\nimport kopf\n"
            "s = kopf.AnnotationsProgressStorage(prefix='my-op.example.com')\n"
            "ids = json.load(sys.stdin)\nprint(json.dumps({i: list(s.make_keys(i)) for i in ids}))\n" % repo)
    env = dict(os.environ, PYTHONHASHSEED='12345')
    p = subprocess.run([sys.executable, '-c', code], input=json.dumps(ids), stdout=subprocess.PIPE, stderr=subprocess.PIPE, text=True, env=env)
    if p.returncode != 0:
        raise RuntimeError(p.stderr[-2000:])
    return json.loads(p.stdout)


def build_records(quick: bool, seed: int, repo: str) -> list[dict[str, Any]]:
    import kopf
    from kopf._cogs.configs import progress
    from kopf._cogs.structs import bodies, patches
    ids = gen_ids(quick, seed)
    recs: list[dict[str, Any]] = []
    conv = kopf.AnnotationsProgressStorage(prefix='my-op.example.com')
    rs_body = bodies.Body({'kind': 'ReplicaSet', 'metadata': {'ownerReferences': [{'kind': 'Deployment', 'name': 'd'}]}})
    for i in ids:
        recs.append({'kind': 'key', 'id': cps(i), 'prefix': cps(conv.prefix), 'key': cps(conv.make_v2_key(i)), 'marked': False})
        recs.append({'kind': 'key1', 'id': cps(i), 'prefix': cps(conv.prefix), 'key': cps(conv.make_v1_key(i))})
        marked = conv.mark_key(i, body=rs_body)      # "<id>-ofDRS": the id as the convention sees it for such ReplicaSets
        ks = list(conv.make_keys(i, body=rs_body))       # V2 key first, then the V1 key if it differs
        recs.append({'kind': 'key', 'id': cps(marked), 'prefix': cps(conv.prefix), 'key': cps(ks[0]), 'marked': True})
        for k in ks[1:]:
            recs.append({'kind': 'key1', 'id': cps(marked), 'prefix': cps(conv.prefix), 'key': cps(k)})
    # stability across processes
    sample = ids[::7][:400] if quick else ids[::3]
    other = second_process_keys(sample, repo)
    for i in sample:
        recs.append({'kind': 'stable', 'id': cps(i), 'key': [cps(k) for k in conv.make_keys(i)], 'key2': [cps(k) for k in other[i]]})
    # distinctness of long ids with a common prefix
    rnd = random.Random(seed)
    for _ in range(150 if quick else 3000):
        base = ''.join(rnd.choice(FULL) for _ in range(rnd.choice([63, 64, 80, 120])))
        a, b = base + 'x' + 'q' * rnd.randint(0, 5), base + 'y' + 'q' * rnd.randint(0, 5)
        recs.append({'kind': 'distinct', 'id': cps(a), 'key': cps(conv.make_v2_key(a)), 'key2': cps(conv.make_v2_key(b))})
    # ... and long ids that differ ONLY in characters which the name-making step maps to the same character ('/' and '.', '<' '>' and '_')
    for _ in range(60 if quick else 1200):
        base = ''.join(rnd.choice(FULL) for _ in range(rnd.choice([64, 70, 90])))
        tail = ''.join(rnd.choice('abcxyz019') for _ in range(rnd.randint(1, 6)))
        x, y = rnd.choice([('/', '.'), ('<', '_'), ('>', '_'), ('.', '/')])
        k = rnd.randint(1, len(base) - 1)
        a, b = base[:k] + x + base[k:] + tail, base[:k] + y + base[k:] + tail
        recs.append({'kind': 'distinct', 'id': cps(a), 'key': cps(conv.make_v2_key(a)), 'key2': cps(conv.make_v2_key(b))})
    # round trip / purge / isolation through every storage
    record_variants = [
        progress.ProgressRecord(started='2030-01-01T00:00:00', stopped=None, delayed=None, purpose='create', retries=0, success=False,
                                failure=False, message=None, subrefs=None),
        progress.ProgressRecord(started='2030-01-01T00:00:00', stopped='2030-01-01T00:00:09', delayed=None, purpose='update', retries=3,
                                success=False, failure=True, message='ünïcödé ☃ "quotes" \\ and\nnewline', subrefs=['a/b', 'a/c']),
    ]
    rt_ids = [i for i in ids if len(i) in (1, 2, 46, 47, 63, 64, 65, 70, 200)][::(9 if quick else 2)] + ['fn', 'fn/sub', 'a' * 64]
    for sname, (pst, dst, prefix) in storages().items():
        for i in rt_ids:
            for rec, drs in [(r_, d_) for r_ in record_variants for d_ in (False, True)]:
                base = {'metadata': {'name': 'o', 'annotations': {'user': 'u', 'other.example.com/kopf-managed': 'yes', 'other.example.com/fn': '{"retries":7}'}},
                        'status': {'user': 1}}
                if drs:      # a ReplicaSet owned by a Deployment: the convention marks the ids ("-ofDRS") so that they do not collide
                    base['kind'] = 'ReplicaSet'; base['metadata']['ownerReferences'] = [{'kind': 'Deployment', 'name': 'd'}]
                B = bodies.Body(copy.deepcopy(base))
                p0 = patches.Patch(); pst.store(key='neighbour', record=record_variants[1], body=B, patch=p0); pst.flush()
                body1 = merge_patch(base, json.loads(json.dumps(dict(p0))))
                B1 = bodies.Body(copy.deepcopy(body1))
                p = patches.Patch(); pst.store(key=i, record=rec, body=B1, patch=p); pst.flush()
                body2 = merge_patch(body1, json.loads(json.dumps(dict(p))))
                B2 = bodies.Body(copy.deepcopy(body2))
                own_keys = set(kopf.AnnotationsProgressStorage(prefix=prefix).make_keys(i, body=bodies.Body(base))) if prefix else set()

                def others(b):
                    o = copy.deepcopy(b)
                    for k in own_keys:
                        o.get('metadata', {}).get('annotations', {}).pop(k, None)
                    if prefix:
                        o.get('metadata', {}).get('annotations', {}).pop(f'{prefix}/kopf-managed', None)
                    for field in (('status', 'kopf', 'progress', i),):
                        d = o
                        for f in field[:-1]:
                            d = d.get(f, {}) if isinstance(d, dict) else {}
                        if isinstance(d, dict): d.pop(field[-1], None)
                    return {'ann': o.get('metadata', {}).get('annotations', {}), 'status_user': o.get('status', {}).get('user'),
                            'neighbour': pst.fetch(key='neighbour', body=bodies.Body(b))}
                recs.append({'kind': 'roundtrip', 'storage': sname + ('+drs' if drs else ''), 'id': cps(i), 'record': enc(dict(rec)), 'fetched': enc(pst.fetch(key=i, body=B2)),
                             'others_before': enc(others(body1)), 'others_after': enc(others(body2))})
                pp = patches.Patch(); pst.purge(key=i, body=B2, patch=pp); pst.flush()
                body3 = merge_patch(body2, json.loads(json.dumps(dict(pp))))
                B3 = bodies.Body(copy.deepcopy(body3))
                leftover = len([k for k in body3.get('metadata', {}).get('annotations', {}) if k in own_keys])
                recs.append({'kind': 'purge', 'storage': sname + ('+drs' if drs else ''), 'id': cps(i), 'fetched_after': enc(pst.fetch(key=i, body=B3)),
                             'others_before': enc(others(body2)), 'others_after': enc(others(body3)), 'leftover': leftover})
    # the last-handled state: whatever essence is stored is read back identically from the patched object (empty and falsy ones too),
    # also when an older state is on the object already; user data and other operators' annotations are untouched
    essences = [{}, {'spec': {}}, {'spec': {'x': 1}}, {'metadata': {'labels': {'a': 'b'}}, 'spec': {'x': [1, {'y': 'ü☃'}], 'z': ''}},
                {'spec': {'x': 0, 'f': False, 'e': '', 'l': [], 'd': {}}}, {'metadata': {}}, {'data': {'k': 'v' * 300}}]
    for sname, (pst, dst, prefix) in storages().items():
        for ess, prev, drs in itertools.product(essences, [None, {'spec': {'old': True}}, {}], (False, True)):
            base = {'metadata': {'name': 'o', 'annotations': {'user': 'u', 'other.example.com/kopf-managed': 'yes', 'other.example.com/last-handled-configuration': '{"spec":{"theirs":1}}\n'}},
                    'status': {'user': 1}}
            if drs:
                base['kind'] = 'ReplicaSet'; base['metadata']['ownerReferences'] = [{'kind': 'Deployment', 'name': 'd'}]
            body = base
            if prev is not None:
                p0 = patches.Patch(); dst.store(body=bodies.Body(copy.deepcopy(base)), patch=p0, essence=copy.deepcopy(prev))
                body = merge_patch(base, json.loads(json.dumps(dict(p0))))
            p = patches.Patch(); dst.store(body=bodies.Body(copy.deepcopy(body)), patch=p, essence=copy.deepcopy(ess))
            after = merge_patch(body, json.loads(json.dumps(dict(p))))
            # the names written by this long-lived storage (it has served other objects before) vs by a storage fresh from its constructor
            pf = patches.Patch(); storages()[sname][1].store(body=bodies.Body(copy.deepcopy(body)), patch=pf, essence=copy.deepcopy(ess))
            names = lambda q: sorted(((dict(q).get('metadata') or {}).get('annotations') or {}).keys())
            foreign = lambda b: {k: v for k, v in b.get('metadata', {}).get('annotations', {}).items() if not (prefix and k.startswith(prefix + '/'))}
            recs.append({'kind': 'lasthandled', 'storage': sname + ('+drs' if drs else ''), 'essence': enc(ess), 'had': prev is not None,
                         'names': names(p), 'names_fresh': names(pf),
                         'fetched': enc(dst.fetch(body=bodies.Body(copy.deepcopy(after)))),
                         'others_before': enc({'ann': foreign(body), 'status_user': body.get('status', {}).get('user')}),
                         'others_after': enc({'ann': foreign(after), 'status_user': after.get('status', {}).get('user')})})
    # several operations on one patch for one id; the object may already carry one of the records
    for sname, (pst, dst, prefix) in storages().items():
        for i in ['fn', 'a' * 64, 'fn/sub']:
            for drs in (False, True):
                for pre, ops in itertools.product([None, 0, 1], [['purge', 0], ['purge', 1], [1, 0], [0, 1, 0], ['purge', 0, 'purge'], [0, 'purge', 0], [1, 'purge', 1]]):
                    base = {'metadata': {'name': 'o', 'annotations': {'user': 'u'}}, 'status': {'user': 1}}
                    if drs:
                        base['kind'] = 'ReplicaSet'; base['metadata']['ownerReferences'] = [{'kind': 'Deployment', 'name': 'd'}]
                    body = base
                    if pre is not None:        # the record is on the object already
                        p0 = patches.Patch(); pst.store(key=i, record=record_variants[pre], body=bodies.Body(copy.deepcopy(base)), patch=p0); pst.flush()
                        body = merge_patch(base, json.loads(json.dumps(dict(p0))))
                    p = patches.Patch(); B = bodies.Body(copy.deepcopy(body)); expected = None if pre is None else dict(record_variants[pre])
                    for op in ops:
                        if op == 'purge': pst.purge(key=i, body=B, patch=p); expected = None
                        else: pst.store(key=i, record=record_variants[op], body=B, patch=p); expected = dict(record_variants[op])
                    pst.flush()
                    after = merge_patch(body, json.loads(json.dumps(dict(p))))
                    recs.append({'kind': 'sequence', 'storage': sname + ('+drs' if drs else ''), 'id': cps(i), 'ops': [str(o) for o in ops], 'pre': -1 if pre is None else pre,
                                 'fetched': enc(pst.fetch(key=i, body=bodies.Body(copy.deepcopy(after)))), 'expected': enc(expected)})
    return recs


def run(ctx, rep) -> None:
    rep.rule = ('(A) TLC enumerates ids of length 1..4 over 9 character classes on the reference; (B) real make_v1_key/make_v2_key/'
                'make_keys and real storages on bounded-exhaustive, boundary-length and hypothesis-generated ids, judged by '
                'Keys!ClassifyC16; non-trivial = distinct record')
    r = tlc.run('MC_Keys', 'MC_Keys.cfg')
    rep.add_tlc('MC_Keys', r)
    if not r.ok:
        rep.violation(f'reference laws of Keys violated: {r.violated}', files={'tlc.out': r.out[-100000:]})
        return
    recs = build_records(ctx.quick, ctx.seed, ctx.repo)
    bad = records.judge('Rec_Keys', recs, rep=rep, shard=3000)
    rep.evaluations += len(recs); rep.traces += len(recs)
    kinds: dict[str, int] = {}
    for rec in recs:
        kinds[rec['kind']] = kinds.get(rec['kind'], 0) + 1
        rep.nontrivial(rec)
    rep.extra['records_by_kind'] = kinds
    rep.sample({k: (''.join(map(chr, v)) if k in ('id', 'key', 'prefix') else v) for k, v in recs[40].items()})
    rep.sample(next(r_ for r_ in recs if r_['kind'] == 'roundtrip'))
    for i, label in sorted(bad.items()):
        rec = recs[i]
        txt = {k: (''.join(map(chr, v)) if k in ('id', 'key', 'prefix') and v and isinstance(v[0], int) else v) for k, v in rec.items()}
        rep.classified(label if label.startswith('F') else '', f'{label}: {json.dumps(txt)[:400]}', payload=rec)
