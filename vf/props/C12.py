"""C12 - infrastructure errors are retried, then contained per object, never fatal.

(A) MC_Infra: laws of the retry reference (Infra!RetryPlan) over all fault words up to length 4 x 4 backoff
    configurations x enforce_retry_after: attempt count, gaps >= backoff / Retry-After, non-retryable errors at once.
(B) records of the REAL code in virtual time, judged by Infra!ClassifyC12:
    retry     api.request (through @authenticated and a real Vault) against the fake session answering with every fault
              word; attempt instants and outcome must equal RetryPlan exactly;
    throttle  the full operator, two objects; object A's processing raises (a raising when= callback, or PATCHes that
              exhaust the retry budget) per an error word; A's processing instants obey the error delays (growing per
              consecutive error, reset by a success), B is processed at its arrival instants, the operator stays
              alive and A recovers;
    vault     the full operator, N objects patched concurrently while the server invalidates the credentials: one
              re-authentication, every blocked request proceeds with fresh credentials, invalidated ones not reused.
(C) Vault.tla: the implementation-shaped model of re-authentication (credentials.Vault, @authenticated, the retry on the same
    context, the authenticator; asyncio's Lock and Condition as they behave) model-checked over all interleavings of 2-3
    requesters x 1-2 keys x revocations x faults x login outcomes (NoReuse, SingleReauth, ReauthOnlyOnRevocation, NoCrash,
    NoLeak, LockDiscipline; thorough: termination under fairness), with a negative variant that must fail;
    step conformance: the real Vault / authenticated / api.request / authenticator observed from outside (the vault's own
    Condition and Lock replaced by recording subclasses) in seeded-random schedules of requests, revocations, faults, login
    outcomes and close() latencies, every event validated by TLC against Trace_Vault.tla.
"""
from __future__ import annotations

import asyncio
import itertools
import logging
import random
from concurrent.futures import ProcessPoolExecutor
from typing import Any

from vf import records, tlc

FAULTS = [('ok', 0), ('conn', 0), ('timeout', 0), ('5xx', 0), ('403', 0), ('429', 0), ('429', 1), ('429', 5), ('404', 0), ('422', 0)]
BACKOFFS = [[], [2], [1, 2], [3, 3, 3], [0, 0]]


def retry_records(quick: bool, seed: int) -> list[dict[str, Any]]:
    import kopf
    from kopf._cogs.clients import api, auth
    from kopf._cogs.structs import credentials
    from sim.fakek8s import Fault, Plan
    from sim.opsim import Sim
    rnd = random.Random(seed)
    words = [list(w) for n in range(0, 4) for w in itertools.product(FAULTS, repeat=n)]
    if quick:
        words = [w for w in words if len(w) <= 2] + rnd.sample([w for w in words if len(w) == 3], 150)
    cases = [(w, b, e) for w in words for b in BACKOFFS for e in (False, True)]
    if quick:
        cases = rnd.sample(cases, 900)
    recs = []
    sim = Sim(wall_budget=0)
    loop = sim.world.new_loop('client')
    log = logging.getLogger('c12')

    def fault_of(f):
        k, ra = f
        if k == 'ok': return None
        if k == 'conn': return Fault('conn')
        if k == 'timeout': return Fault('timeout')
        code = {'5xx': 503, '403': 403, '429': 429, '404': 404, '422': 422}[k]
        return Fault('status', code=code, retry_after=ra if ra else None)

    for word, backoffs, enforce in cases:
        from sim.fakek8s import FakeSession
        sess = FakeSession(sim.srv, 'client')
        attempt = {'n': 0}
        times: list[float] = []

        def policy(req, word=word, attempt=attempt, times=times):
            attempt['n'] += 1
            times.append(sim.now)
            f = word[attempt['n'] - 1] if attempt['n'] <= len(word) else ('ok', 0)
            return Plan(fault=fault_of(f))
        sim.srv.policy = policy
        settings = kopf.OperatorSettings()
        settings.networking.error_backoffs = list(backoffs)
        settings.networking.enforce_retry_after = enforce
        settings.networking.request_timeout = None
        result: dict[str, Any] = {}

        async def call():
            vault = credentials.Vault()
            await vault.populate({'id': credentials.AiohttpSession(aiohttp_session=sess, server='http://fake')})
            auth.vault_var.set(vault)
            try:
                await api.get('/version', settings=settings, logger=log)
                result['outcome'] = 'ok'
            except Exception as e:
                result['outcome'] = 'raised'; result['exc'] = type(e).__name__
        t_start = sim.now
        task = loop.spawn(call())
        sim.world.run_until(sim.now + 200, stop=lambda: task.done())
        recs.append({'kind': 'retry', 'word': [{'k': k, 'ra': ra} for k, ra in word], 'backoffs': list(backoffs), 'enforce': enforce,
                     'times': [int(t - t_start) for t in times], 'outcome': result.get('outcome', 'hung'), 'exc': result.get('exc', '')})
    sim.close()
    return recs


def observe_throttling(sim: Any) -> tuple[dict[int, list[dict[str, Any]]], Any]:
    """Observe (never alter) throttlers.throttled: every entry, what it yields, how the body ends, the return -- per throttler."""
    import contextlib
    from kopf._core.actions import throttlers
    orig = throttlers.throttled
    traces: dict[int, list[dict[str, Any]]] = {}
    keep: list[Any] = []
    ms = lambda x: -1 if x is None else int(round(x * 1000))

    @contextlib.asynccontextmanager
    async def traced(*, throttler: Any, **kw: Any):
        if all(throttler is not k for k in keep):
            keep.append(throttler)
        tr = traces.setdefault([i for i, k in enumerate(keep) if k is throttler][0], [])
        snap = lambda: {'t': ms(sim.now), 'until': ms(throttler.active_until), 'last': ms(throttler.last_used_delay)}
        w = kw.get('wakeup')
        tr.append({'ev': 'enter', 'preset': bool(w is not None and w.is_set()), **snap()})
        cm = orig(throttler=throttler, **kw)
        run = await cm.__aenter__()
        tr.append({'ev': 'yield', 'run': bool(run), **snap()})
        try:
            yield run
        except BaseException as e:
            if not isinstance(e, Exception):
                tr.append({'ev': 'cut', **snap()})
                raise
            tr.append({'ev': 'exit', 'outcome': 'err' if run else 'raise', **snap()})
            if not await cm.__aexit__(type(e), e, e.__traceback__):
                tr.append({'ev': 'cut', **snap()})
                raise
        else:
            tr.append({'ev': 'exit', 'outcome': 'ok' if run else 'skip', **snap()})
            await cm.__aexit__(None, None, None)
        tr.append({'ev': 'leave', **snap()})
    throttlers.throttled = traced
    return traces, (lambda: setattr(throttlers, 'throttled', orig))


def throttle_case(sc: dict[str, Any]) -> dict[str, Any]:
    import kopf
    from sim.fakek8s import Fault, Plan
    from sim.opsim import GROUP, PLURAL, VERSION, Sim
    sim = Sim(wall_budget=20)
    ttraces, restore = observe_throttling(sim)
    try:
        reg = sim.registry()
        errs = list(sc['errors'])            # per processing of object A: True = raise
        runs: list[dict[str, Any]] = []
        others: list[dict[str, Any]] = []
        state = {'b_arrived': []}

        twin = None
        if sc.get('twin'):      # the other object is A's namesake of another kind (same plural, another group, same namespace and name)
            from sim.fakek8s import ResDef
            from vf.handling import TWIN_GROUP
            twin = sim.srv.add_resource(ResDef(TWIN_GROUP, VERSION, PLURAL, 'Thing', namespaced=True))

        def when(name, resource, **_):
            if name == 'a' and resource.group == GROUP:
                bad = errs.pop(0) if errs else False
                runs.append({'t': int(sim.now), 'ok': not bad})
                if bad and sc['mode'] == 'when':
                    raise ValueError('scripted unexpected error inside the processing of object a')
                state['fail_patch'] = bad and sc['mode'] == 'patch'
            else:
                others.append({'ran': int(sim.now), 'arrived': state['b_arrived'].pop(0) if state['b_arrived'] else -1})
            return True
        n_patch = {'n': 0}

        async def ev(name, spec, **_):
            if name == 'a' and sc['mode'] == 'patch' and _['resource'].group == GROUP:
                return {'seen': spec.get('x')}        # every change of A makes the framework send a PATCH
            return None
        kopf.on.event(GROUP, VERSION, PLURAL, registry=reg, id='ev', when=when)(ev)
        if twin is not None:
            kopf.on.event(twin.group, VERSION, PLURAL, registry=reg, id='ev', when=when)(ev)
        bname, bkw = ('a', {'res': twin}) if twin is not None else ('b', {})

        def policy(req):
            if req.route.get('kind') == 'patch' and req.route.get('name') == 'a' and req.route.get('group') == GROUP and state.get('fail_patch'):
                return Plan(fault=Fault('status', code=500))
            return None
        sim.srv.policy = policy
        settings = sim.settings(queueing__error_delays=list(sc['delays']), networking__error_backoffs=list(sc.get('ebackoffs', [])))
        op = sim.operator('op1', reg, settings)
        gone_at = sc.get('a_gone_at')
        sim.world.at(1, lambda: sim.create('a', {'x': 0}, **({'metadata': {'finalizers': ['other/x']}} if gone_at else {})), 1)
        sim.world.at(1, lambda: (state['b_arrived'].append(1), sim.create(bname, {'x': 0}, **bkw)), 1)
        if gone_at:      # in the middle of A's error pause A is marked for deletion and released by its (foreign) finalizer at once:
            def gone():  # two events of A, one right behind the other -- they wait the pause out like any other event
                sim.delete('a')
                if sim.obj('a') is not None:
                    sim.edit('a', lambda o: o['metadata'].update(finalizers=[]))
            sim.world.at(gone_at, gone, 1)
        x = {'a': 0, 'b': 0}
        for t in sc['a_edits']:
            sim.world.at(t, lambda: (x.__setitem__('a', x['a'] + 1), sim.set_spec('a', x=x['a'])), 1)
        for t in sc['b_edits']:
            sim.world.at(t, lambda t=t: (state['b_arrived'].append(t), x.__setitem__('b', x['b'] + 1),
                                         sim.edit(bname, lambda o: o.setdefault('spec', {}).update(x=x['b']), **bkw)), 1)
        sim.run(sc['end'])
        alive = not op.done
        # recovery: once the error word is over, one more edit of A must be processed normally
        n_before = len(runs)
        errs.clear()                      # the faults stop here
        sim.world.at(sim.now + 700, lambda: sim.set_spec('a', x=999) if sim.obj('a') is not None else sim.create('a', {'x': 999}), 1)
        sim.run(sim.now + 760)
        recovered = len(runs) > n_before and runs[-1]['ok']
        op.finish()
        return {'kind': 'throttle', 'id': sc['id'], 'delays': list(sc['delays']), 'runs': runs[:n_before], 'others': others,
                'alive': alive and not op.killed, 'recovered': recovered, 'scenario': sc,
                'ttraces': [{'id': f'{sc["id"]}/{k}', 'delays': [int(d * 1000) for d in sc['delays']], 'events': ev} for k, ev in sorted(ttraces.items())]}
    finally:
        restore()
        sim.close()


def throttle_scenarios(seed: int, n: int) -> list[dict[str, Any]]:
    rnd = random.Random(f'throttle-{seed}')
    out = []
    for i in range(n):
        delays = rnd.choice([[], [2], [1, 3], [1, 2, 4], [5, 5], [1, 3, 6], [2, 4, 8]])
        errors = [rnd.random() < 0.75 for _ in range(rnd.randint(1, 7))]
        a_edits = sorted(rnd.sample(range(2, 30), rnd.randint(2, 12)))
        b_edits = sorted(rnd.sample(range(2, 40), rnd.randint(1, 5)))
        out.append({'id': f'throttle-{seed}-{i}', 'mode': rnd.choice(['when', 'when', 'patch']), 'delays': delays, 'errors': errors,
                    'a_edits': a_edits, 'b_edits': b_edits, 'end': 60})
        if i % 3 == 0:      # the bystander is A's namesake of another kind: what is kept per object is kept per object, not per name
            out[-1]['twin'] = True
        if i % 4 == 1:      # the failing cycle takes time before its error escalates (the PATCH is retried first): the pause counts from the failure
            r3 = random.Random(f'throttle-slow-{seed}-{i}')
            out[-1].update(mode='patch', ebackoffs=r3.choice([[1], [1, 1], [2]]))
        if i % 5 == 2:      # A disappears (marked for deletion, then released) in the middle of its error pause, and processing fails again
            r2 = random.Random(f'throttle-gone-{seed}-{i}')
            d0 = r2.choice([3, 4, 6])
            out[-1].update(mode='when', delays=[d0] + [d + d0 for d in delays[1:]], errors=[True, True, True] + errors[3:],
                           a_gone_at=1 + r2.randint(1, d0 - 1), a_edits=[])
    return out


def vault_case(sc: dict[str, Any]) -> dict[str, Any]:
    import kopf
    from sim.fakek8s import Plan
    from sim.opsim import GROUP, PLURAL, VERSION, Sim
    sim = Sim(wall_budget=20)
    try:
        reg = sim.registry()
        kopf.on.event(GROUP, VERSION, PLURAL, registry=reg, id='ev')(sim.handler('ev', kind='event', default=('ok', {'n': 1})))
        sim.srv.valid_gens = set()
        sim.srv.close_latency = sc.get('close', 0)
        # `slow`: the first PATCH of object o0 at t=10 is answered 503, so that request sleeps in its backoff (1 s) and retries while
        # another request's 401 has the old session in the middle of closing (close() takes `close` seconds)
        from sim.fakek8s import Fault
        first = {'o0': bool(sc.get('slow'))}

        ssl = {'left': 1 if sc.get('ssl') else 0}

        def policy(req):
            # `ssl`: the TLS stream dies under one request (a PATCH, or the watch request that re-opens the stream of the handled kind) while
            # the credentials are perfectly valid: the session is unusable, the framework re-authenticates and the request proceeds
            if ssl['left'] and sim.now >= 10 and req.route.get('plural') == PLURAL and req.route.get('kind') == sc['ssl']:
                ssl['left'] -= 1
                return Plan(fault=Fault('sslclosed'))
            if req.route.get('kind') != 'patch':
                return None
            if first['o0'] and req.route.get('name') == 'o0' and sim.now >= 10:
                first['o0'] = False
                return Plan(fault=Fault('status', code=503))
            return Plan(pre=sc['latency'])
        sim.srv.policy = policy
        op = sim.operator('op1', reg, sim.settings(networking__error_backoffs=[1, 1]))
        names = [f'o{k}' for k in range(sc['n'])]
        for nm in names:
            sim.world.at(1, lambda nm=nm: sim.create(nm, {'x': 0}), 1)
        # all objects are edited at once, and right after the requests left the credentials are revoked
        if sc.get('ssl'):
            sim.srv.valid_gens = None          # (nothing is revoked in these runs)
            if sc['ssl'] == 'watch':
                sim.world.at(10, lambda: [w.end('eof') for w in list(sim.srv.watches) if w.res.plural == PLURAL], 1)
            sim.world.at(12, lambda: [sim.set_spec(nm, x=1) for nm in names], 1)
        else:
            sim.world.at(10, lambda: [sim.set_spec(nm, x=1) for nm in names], 1)
            sim.world.at(10, lambda: sim.srv.valid_gens.clear(), 1)
        sim.run(60)
        reqs = [{'t': int(e['t']), 'sent': int(e.get('sent', e['t'])), 'gen': e['gen'], 'code': e['code']} for e in sim.recorder.events
                if e['ev'] == 'srv.req' and e.get('kind') == 'patch' and e['t'] >= 10]
        logins = [e for e in sim.recorder.events if e['ev'] == 'op.login' and e['t'] >= 10]
        done = all((sim.obj(nm) or {}).get('status', {}).get('ev', {}).get('n') == 1 and
                   int((sim.obj(nm) or {})['metadata']['resourceVersion']) > 0 for nm in names)
        patched_after = {e['name'] for e in sim.recorder.events if e['ev'] == 'srv.req' and e.get('kind') == 'patch' and e['t'] >= 10 and e['code'] == 200}
        op.finish()
        return {'kind': 'vault', 'id': sc['id'], 'logins': len(logins), 'expected_logins': 1, 'reqs': reqs,
                'relogin_t': int(logins[0]['t']) if logins else 0, 'all_done': len(patched_after) == len(names) and done, 'scenario': sc}
    finally:
        sim.close()


def timer_case(sc: dict[str, Any]) -> dict[str, Any]:
    """Timers on two objects; the PATCH of the timer's result of object a is answered 503 during [t1, t2] (retries exhausted)."""
    import kopf
    from sim.fakek8s import Fault, Plan
    from sim.opsim import GROUP, PLURAL, VERSION, Sim
    sim = Sim(wall_budget=20)
    try:
        reg = sim.registry()
        runs: dict[str, list[int]] = {'a': [], 'b': []}

        async def tick(name, **_):
            runs[name].append(int(sim.now))
            return {'n': len(runs[name])}          # a result: the framework PATCHes the status after every run
        kopf.timer(GROUP, VERSION, PLURAL, registry=reg, id='tick', interval=sc['interval'])(tick)
        kopf.on.create(GROUP, VERSION, PLURAL, registry=reg, id='noop')(sim.handler('noop'))      # so that a diff-base exists

        def policy(req):
            if req.route.get('kind') == 'patch' and req.route.get('name') == 'a' and sc['t1'] <= sim.now < sc['t2']:
                return Plan(fault=Fault('status', code=503))
            return None
        sim.srv.policy = policy
        op = sim.operator('op1', reg, sim.settings(networking__error_backoffs=list(sc['backoffs'])))
        sim.world.at(1, lambda: sim.create('a', {'x': 0}), 1)
        sim.world.at(1, lambda: sim.create('b', {'x': 0}), 1)
        sim.run(sc['t2'] + 40)
        alive = not op.done
        op.finish()
        return {'kind': 'timer', 'id': sc['id'], 'alive': alive, 'runs_before': len([t for t in runs['a'] if t < sc['t1']]),
                'runs_after': len([t for t in runs['a'] if t > sc['t2'] + 2]),
                'other_runs_during': len([t for t in runs['b'] if sc['t1'] <= t <= sc['t2']]), 'scenario': sc}
    finally:
        sim.close()


def judge_throttle(traces: list[dict[str, Any]], rep: Any) -> dict[str, str]:
    import json, os, re, shutil, tempfile
    from vf.evidence import MachineryFailure
    if not traces:
        return {}
    scratch = tempfile.mkdtemp(prefix='vf-thr-')
    try:
        path = os.path.join(scratch, 'traces.json')
        with open(path, 'w') as f:
            json.dump([{'id': t['id'], 'delays': t['delays'] or [], 'events': t['events']} for t in traces], f)
        cfg = 'SPECIFICATION TSpec\nCONSTANTS\n  Delays <- D0\n  Horizon = 0\n  MaxCalls = 1000000\nCONSTRAINT Book\nPOSTCONDITION Verdicts\nCHECK_DEADLOCK FALSE\n'
        r = tlc.run('Trace_Throttle', cfg_text=cfg, workers=1, deque=True, env={'TRACE_FILE': path}, timeout=900)
    finally:
        shutil.rmtree(scratch, ignore_errors=True)
    if not r.ok:
        raise MachineryFailure(f'Trace_Throttle failed: {r.violated} {r.errors}\n{r.out[-3000:]}')
    rep.add_tlc('Trace_Throttle', r)
    got = {int(m.group(1)): m for m in re.finditer(r'<<\s*"VERDICT",\s*(\d+),\s*"([^"]*)",\s*(-?\d+),\s*(\d+)\s*>>', r.out)}
    if len(got) != len(traces):
        raise MachineryFailure(f'Trace_Throttle printed {len(got)} verdicts for {len(traces)} traces')
    res = {}
    for i, t in enumerate(traces, start=1):
        done, n = int(got[i].group(3)), int(got[i].group(4))
        res[t['id']] = 'accepted' if done >= n else f'rejected at event {done + 1} of {n}: {t["events"][done]} (after {t["events"][max(0, done - 3):done]})'
    return res


def vault_stage(ctx, rep) -> None:
    """(C) Vault.tla: model checking and step conformance of the real re-authentication machinery."""
    from vf import vault
    cfgs = (['MC_Vault_k1.cfg', 'MC_Vault_k2q.cfg', 'MC_Vault_expq.cfg'] if ctx.quick else
            ['MC_Vault_k1.cfg', 'MC_Vault_k2.cfg', 'MC_Vault_k2all.cfg', 'MC_Vault_exp.cfg', 'MC_Vault_big.cfg', 'MC_Vault_live.cfg'])
    for cfg in cfgs:
        r = tlc.run('MC_Vault', cfg, timeout=3600)
        rep.add_tlc(cfg[:-4], r)
        if not r.ok:
            rep.violation(f'the model of re-authentication (Vault.tla, {cfg}) violates {r.violated}', files={'tlc.out': r.out[-100000:]})
            return
    r = tlc.run('MC_Vault', 'MC_Vault_neg.cfg')
    rep.add_tlc('MC_Vault_neg', r)
    if ('invariant', 'ReauthOnlyOnRevocation') not in r.violated:
        from vf.evidence import MachineryFailure
        raise MachineryFailure(f'the negative variant of Vault.tla (invalidate by key) must violate ReauthOnlyOnRevocation: {r.violated}')
    r = tlc.run('MC_Vault', 'MC_Vault_f37.cfg')
    rep.add_tlc('MC_Vault_f37', r)
    if ('invariant', 'NoCrash') not in r.violated and ('invariant', 'NoLeak') not in r.violated:
        from vf.evidence import MachineryFailure
        raise MachineryFailure(f'the code before the repair F37 (Variant = "f37") must violate NoCrash / NoLeak under expiration: {r.violated}')
    rep.extra['negative_config_vault'] = ('MC_Vault_neg (Variant = "bykey"): ReauthOnlyOnRevocation violated, as it must be; MC_Vault_f37 (the code before the '
                                          'repair F37): NoCrash / NoLeak violated when credentials expire while requests take turns at the lock')
    scs = vault.crafted() + vault.scenarios(ctx.seed, 400 if ctx.quick else 6000)
    with ProcessPoolExecutor(16) as ex:
        traces = list(ex.map(vault.run_case, scs, chunksize=8))
    verdicts = {}
    for i in range(0, len(traces), 1500):
        verdicts.update(vault.judge(traces[i:i + 1500], rep))
    rep.traces += len(traces); rep.evaluations += sum(len(t['events']) for t in traces)
    feats: dict[str, int] = {}
    for t in traces:
        v = verdicts[t['id']]['verdict']
        evs = {e['ev'] for e in t['events']}
        for f in ('lock.queue', 'send.closed', 'retry', 'sel.fail', 'flush.b', 'cond.wake', 'expire'):
            feats[f] = feats.get(f, 0) + (f in evs)
        feats[t['mode']] = feats.get(t['mode'], 0) + 1
        feats[f'keys={t["nkeys"]}'] = feats.get(f'keys={t["nkeys"]}', 0) + 1
        if any(e['ev'] in ('flush.b', 'sel.fail', 'retry') for e in t['events']):
            rep.nontrivial([(e['ev'], e['task']) for e in t['events']])
        payload = {'scenario': t['scenario'], 'events': t['events'], 'outcomes': t['outcomes']}
        if v != 'accepted':
            rep.violation(f'{t["id"]}: re-authentication does not follow Vault.tla: {v}', payload)
        elif t['pending']:
            rep.violation(f'{t["id"]}: blocked_request_never_proceeded: {t["pending"]} still wait(s) at the end of the run', payload)
        elif t['auth_died']:
            rep.violation(f'{t["id"]}: the authenticator died: {t["auth_died"]}', payload)
        elif any(o.startswith('crash') for os_ in t['outcomes'].values() for o in os_):
            rep.violation(f'{t["id"]}: a request ended with an unexpected error: {t["outcomes"]}', payload)
        elif verdicts[t['id']].get('noted'):
            rep.violation(f'{t["id"]}: {verdicts[t["id"]]["noted"]}: credentials that have left the vault were revived for a request (a context made for them / a request sent with them)', payload)
    rep.extra['vault_trace_features'] = feats
    rep.sample({'vault_trace': traces[0]['id'], 'events': traces[0]['events'][:40]})


def run(ctx, rep) -> None:
    logging.disable(logging.CRITICAL)
    if ctx.only == {'vault'}:          # development aid
        vault_stage(ctx, rep)
        return
    rep.rule = ('(A) TLC enumerates fault words x backoff configurations on the reference; (B) the real api.request on every fault word '
                '(attempt instants exact), throttling and re-authentication scenarios on the full operator, judged by Infra!ClassifyC12; '
                'non-trivial = a record with at least one fault / error / 401')
    r = tlc.run('MC_Infra', 'MC_Infra.cfg')
    rep.add_tlc('MC_Infra', r)
    if not r.ok:
        rep.violation(f'reference laws of Infra violated: {r.violated}', files={'tlc.out': r.out[-100000:]})
        return
    recs = retry_records(ctx.quick, ctx.seed)
    tscs = throttle_scenarios(ctx.seed, 240 if ctx.quick else 4000)
    vscs = [{'id': f'vault-{n}-{lat}', 'n': n, 'latency': lat} for n in (1, 2, 3, 5) for lat in (0, 1, 2)]
    vscs += [{'id': f'vault-{n}-ssl-{k}', 'n': n, 'latency': 0, 'ssl': k} for n in (1, 3) for k in ('patch', 'watch')]
    vscs += [{'id': f'vault-{n}-{lat}-close{c}-slow', 'n': n, 'latency': lat, 'close': c, 'slow': True} for n in (2, 3) for lat in (0, 1) for c in (0, 1, 2, 3)]
    with ProcessPoolExecutor(16) as ex:
        recs += list(ex.map(throttle_case, tscs, chunksize=2))
        recs += list(ex.map(vault_case, vscs, chunksize=1))
        recs += list(ex.map(timer_case, [{'id': f'timer-{iv}-{len(b)}', 'interval': iv, 'backoffs': b, 't1': 10, 't2': 10 + d}
                                          for iv in (2, 3) for b in ([], [1], [1, 1]) for d in (6, 12)], chunksize=1))
    # step conformance of the error pause: every call of throttlers.throttled of every object of the throttle scenarios against Throttle.tla
    for d in ('D0', 'D1', 'D3'):
        r = tlc.run('MC_Throttle', f'MC_Throttle_{d}.cfg')
        rep.add_tlc(f'MC_Throttle_{d}', r)
        if not r.ok:
            rep.violation(f'Throttle.tla ({d}): {r.violated}', files={'tlc.out': r.out[-50000:]})
    ttr = [t for r_ in recs if r_['kind'] == 'throttle' for t in r_.pop('ttraces', [])]
    for t in ttr:          # a trace ends where the processing was cut (a cancellation): what follows belongs to another life
        cut = next((i for i, e in enumerate(t['events']) if e['ev'] == 'cut'), None)
        if cut is not None:
            t['events'] = t['events'][:max(0, max([i for i, e in enumerate(t['events'][:cut]) if e['ev'] == 'leave'] or [-1]) + 1)]
    ttr = [t for t in ttr if t['events']]
    tv = judge_throttle(ttr, rep)
    rep.traces += len(ttr); rep.evaluations += sum(len(t['events']) for t in ttr)
    for t in ttr:
        if any(e['ev'] == 'exit' and e['outcome'] == 'err' for e in t['events']):
            rep.nontrivial(t['events'])
        if tv[t['id']] != 'accepted':
            rep.violation(f'{t["id"]}: the error pause does not follow Throttle.tla: {tv[t["id"]]}', payload=t)
    bad = records.judge('Rec_Infra', [{k: v for k, v in r_.items() if k not in ('scenario', 'ttraces')} for r_ in recs], rep=rep, shard=5000)
    rep.evaluations += len(recs); rep.traces += len(recs)
    for rec in recs:
        if (rec['kind'] == 'retry' and rec['word']) or rec['kind'] != 'retry':
            rep.nontrivial({k: v for k, v in rec.items() if k != 'scenario'})
    rep.sample(recs[17]); rep.sample(next(r_ for r_ in recs if r_['kind'] == 'throttle')); rep.sample(next(r_ for r_ in recs if r_['kind'] == 'vault'))
    for i, label in sorted(bad.items()):
        rep.classified(label if label.startswith('F') else '', f'{label}: {str(recs[i])[:500]}', payload=recs[i])
    vault_stage(ctx, rep)
    # the error pauses (and every other interruptible sleep of the framework) are aiotime.sleep: the real coroutine against Kits.tla
    from vf import kits
    kits.stage(ctx, rep, 'the error pause (aiotime.sleep)')
    # posting Kubernetes events is auxiliary: a refused request loses that event and nothing else, the poster goes on (Posting.tla)
    from vf import posting
    posting.stage(ctx, rep)
