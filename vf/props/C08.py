"""C08 - accumulated patches are delivered completely, atomically and exactly once.

(A) MC_Patching: the reference (Patching.tla over JV.tla) cross-checked by TLC on small documents: the plan of requests for
    every patch content x transformation list x subresource, one foreign writer at every position, conflicts carried
    forward over cycles: nothing computed from a stale state is written, the effect is there exactly once.
(B) the REAL patching.patch_obj (through api.request, a real Vault and the fake session) against the stateful fake API:
    patch contents (body / status / both / none) x transformation lists (finalizer add / remove, a state-checking list append,
    a status edit) x resources with and without the status subresource x initial objects x one foreign write (spec,
    another controller's finalizer, status, disappearance, delete-and-recreate under the same name) at every position
    relative to the up to four requests and before the call (stale view); conflicts are carried into further cycles.
    Every request (endpoint, content type, payload / decoded ops), response code and the server object after it is
    replayed by TLC against the reference (Patching!ClassifyC08).
(D) daemons and timers: the real operator with several timers / daemons on one object, every invocation accumulating a status
    field and a transformation in its own patch while the others work: each invocation's content is in exactly one request
    and, once the handlers have stopped accumulating and the object is at rest, the effect of its transformation is on the
    object exactly once (the handlers' own writes conflict with each other: 422s and re-evaluations are part of the runs).
(C) closed loop: the real operator with a handler that adds a non-idempotent transformation per handled change, foreign
    writes between the event and the JSON-patch (422), and a following cycle that fails: at rest the effect of every
    handled change is on the object exactly once.
"""
from __future__ import annotations

import copy
import itertools
import logging
import random
from typing import Any

from vf import records, tlc
from vf.jv import enc, pointer_tokens

ABSENT = {'t': 'absent'}
KFIN = 'kopf/fin'
CONTENTS = [{}, {'metadata': {'annotations': {'a': 'v'}}}, {'spec': {'f': 1}, 'status': {'s': 1}}, {'status': {'s': 1}}, {'status': {'s': None, 'n': {'m': 2}}}]
FNS = [[], ['addfin'], ['delfin'], ['tag'], ['addfin', 'tag'], ['stat'], ['tag', 'stat'], ['delfin', 'stat']]
INITS = [[], ['other/x'], ['other/x', KFIN], [KFIN]]
FOREIGN = ['spec', 'fin', 'status', 'vanish', 'recreate']


def _fn(name: str):
    def addfin(body):
        fins = body.setdefault('metadata', {}).setdefault('finalizers', [])
        if KFIN not in fins: fins.append(KFIN)
    def delfin(body):
        fins = body.get('metadata', {}).get('finalizers') or []
        if KFIN in fins: fins.remove(KFIN)
    def tag(body):        # state-checking, as docs/patches.rst asks of transformation functions
        tags = body.setdefault('spec', {}).setdefault('tags', [])
        if 't' not in tags: tags.append('t')
    def stat(body):
        body.setdefault('status', {})['t'] = 1
    f = {'addfin': addfin, 'delfin': delfin, 'tag': tag, 'stat': stat}[name]
    f.verif_name = name
    return f


def build_runs(quick: bool, seed: int) -> list[dict[str, Any]]:
    from kopf._cogs.clients import auth, patching
    from kopf._cogs.structs import bodies, credentials, patches, references
    import kopf
    from sim.fakek8s import FakeSession, ResDef
    from sim.opsim import GROUP, VERSION, Sim
    rnd = random.Random(seed)
    cases = []
    for content, fns, init, sub in itertools.product(range(len(CONTENTS)), range(len(FNS)), range(len(INITS)), (False, True)):
        if not CONTENTS[content] and not FNS[fns]:
            continue
        cases.append((content, fns, init, sub, None, None))
        for kind in FOREIGN:
            for pos in ('pre', 0, 1, 2, 3):
                cases.append((content, fns, init, sub, kind, pos))
    if quick:
        cases = rnd.sample(cases, 1400)
    sim = Sim(wall_budget=0)
    loop = sim.world.new_loop('client')
    log = logging.getLogger('c08')
    rdefs = {False: sim.srv.add_resource(ResDef(GROUP, VERSION, 'plains', 'Plain', namespaced=True, status_sub=False)),
             True: sim.srv.add_resource(ResDef(GROUP, VERSION, 'widgets', 'Widget', namespaced=True, status_sub=True))}
    kres = {s: references.Resource(GROUP, VERSION, rdefs[s].plural, kind=rdefs[s].kind, namespaced=True,
                                   subresources=frozenset(['status']) if s else frozenset()) for s in (False, True)}
    sim.srv.keep_bodies.update({'plains', 'widgets'})
    sim.srv.projector = lambda res, o: copy.deepcopy(o) if res.plural in ('plains', 'widgets') else None
    settings = kopf.OperatorSettings()
    settings.networking.error_backoffs = []
    settings.networking.request_timeout = None
    runs = []
    n = 0
    for content, fnsi, init, sub, fkind, fpos in cases:
        n += 1
        name = f'o{n}'
        rdef = rdefs[sub]
        body0: dict[str, Any] = {'spec': {'z': 0, 'tags': ['u']}, 'status': {'s': 0, 'keep': 1}}
        if INITS[init]:
            body0['metadata'] = {'finalizers': list(INITS[init])}
        sim.srv.create(rdef, 'ns', name, body0)
        sess = FakeSession(sim.srv, 'client')
        current = lambda: sim.srv.get(rdef, 'ns', name)
        nreq = {'n': 0}
        fired = {'done': False}

        def foreign() -> None:
            fired['done'] = True
            o = current()
            if o is None:
                return
            if fkind == 'spec': sim.srv.edit(rdef, 'ns', name, lambda b: b['spec'].update(z=b['spec']['z'] + 1), actor='ext')
            elif fkind == 'fin':
                sim.srv.edit(rdef, 'ns', name, lambda b: b.setdefault('metadata', {}).update(
                    finalizers=[f for f in b['metadata'].get('finalizers', []) if f != 'other/x'] or ['added/y']), actor='ext')
            elif fkind == 'status': sim.srv.edit(rdef, 'ns', name, lambda b: b.setdefault('status', {}).update(f=2), actor='ext')
            elif fkind in ('vanish', 'recreate'):
                sim.srv.objs.pop((rdef.key, 'ns', name), None)
                if fkind == 'recreate':
                    sim.srv.create(rdef, 'ns', name, {'spec': {'z': 100, 'tags': []}})
            o2 = current()
            sim.rec('env.foreign', after=copy.deepcopy(o2))

        def policy(req: Any) -> Any:
            if req.route.get('kind') == 'patch' and req.route.get('name') == name:
                if fkind is not None and fpos == nreq['n'] and not fired['done']:
                    foreign()
                nreq['n'] += 1
            return None
        sim.srv.policy = policy
        calls = []
        remaining_fns = [_fn(x) for x in FNS[fnsi]]
        merge = copy.deepcopy(CONTENTS[content])
        tags0 = 1 if False else 0      # the initial list holds "u", never "t"
        result_last: dict[str, Any] = {}
        for cycle in range(4):
            view = copy.deepcopy(current())
            if view is None:
                break
            if cycle == 0 and fkind is not None and fpos == 'pre':
                foreign()              # the event is older than the object: a stale view
            srv0 = copy.deepcopy(current())
            mark = len(sim.recorder.events)
            nreq['n'] = 0
            patch = patches.Patch(copy.deepcopy(merge), body=bodies.Body(view), fns=list(remaining_fns))
            out: dict[str, Any] = {}

            async def call(patch=patch, out=out):
                vault = credentials.Vault()
                await vault.populate({'id': credentials.AiohttpSession(aiohttp_session=sess, server='http://fake')})
                auth.vault_var.set(vault)
                try:
                    out['res'] = await patching.patch_obj(settings=settings, resource=kres[sub], namespace='ns', name=name, patch=patch, logger=log)
                except Exception as e:       # noqa
                    out['exc'] = f'{type(e).__name__}: {e}'
            task = loop.spawn(call())
            sim.world.run_until(sim.now + 50, stop=lambda: task.done())
            steps = []
            for e in sim.recorder.events[mark:]:
                if e['ev'] == 'env.foreign' and not (cycle == 0 and fpos == 'pre'):
                    steps.append({'kind': 'foreign', 'after': enc(e['after']) if e.get('after') is not None else ABSENT})
                elif e['ev'] == 'srv.req' and e.get('kind') == 'patch' and e.get('name') == name:
                    after = e.get('proj') if e.get('code') == 200 else None
                    if e.get('code') != 200:
                        cur = current()
                        after = copy.deepcopy(cur)
                    js = e.get('ptype') == 'json'
                    pb = e.get('pbody')
                    if pb is None:
                        pb = _body_of(sim, e)
                    steps.append({'kind': 'req', 'ptype': 'json' if js else 'merge', 'onstatus': e.get('sub') == 'status',
                                  'payload': enc(pb) if not js else {'t': 'n'},
                                  'ops': [{'op': o['op'], 'path': pointer_tokens(o['path']), 'value': enc(o['value']) if 'value' in o else {'t': 'n'},
                                           'from': pointer_tokens(o['from']) if 'from' in o else []} for o in (pb or [])] if js else [],
                                  'code': e['code'], 'resp': enc(after) if e['code'] == 200 else ABSENT,
                                  'after': enc(after) if after is not None else ABSENT})
            res = out.get('res')
            rem = None if res is None else res[1]
            calls.append({'sub': sub, 'orig': enc(view), 'srv0': enc(srv0) if srv0 is not None else ABSENT, 'patch': enc(merge),
                          'fns': [f.verif_name for f in remaining_fns], 'steps': steps,
                          'result': {'gone': res is None or res[0] is None, 'hasrem': rem is not None,
                                     'remaining': [f.verif_name for f in rem.fns] if rem is not None else [], 'exc': out.get('exc', '')}})
            result_last = calls[-1]['result']
            if rem is None or res is None:
                break
            remaining_fns = list(rem.fns); merge = {}
        final = current()
        runs.append({'kind': 'calls', 'calls': calls, 'final': enc(final) if final is not None else ABSENT,
                     'settled': bool(calls) and not result_last['hasrem'] and not result_last['gone'] and not result_last['exc'],
                     'tagged': 'tag' in FNS[fnsi], 'tags0': 0,
                     'wantfin': 'add' if 'addfin' in FNS[fnsi] else 'del' if 'delfin' in FNS[fnsi] else '',
                     'case': {'content': CONTENTS[content], 'fns': FNS[fnsi], 'init': INITS[init], 'sub': sub, 'foreign': fkind, 'pos': fpos}})
        sim.srv.objs.pop((rdef.key, 'ns', name), None)
        del sim.recorder.events[:]
    sim.close()
    return runs


def loop_case(sc: dict[str, Any]) -> dict[str, Any]:
    """The real operator; every handled change adds a (state-checking) transformation; conflicts and failing cycles are injected."""
    import kopf
    from sim.fakek8s import Fault, Plan
    from sim.opsim import GROUP, PLURAL, VERSION, Sim
    sim = Sim(wall_budget=20)
    try:
        reg = sim.registry()
        handled: list[str] = []

        def extra(patch, spec, **_):
            tag = f'tag-{spec.get("x")}'

            def add(body, tag=tag):
                tags = body.setdefault('spec', {}).setdefault('tags', [])
                if tag not in tags: tags.append(tag)
            # docs/patches.rst: parametrised transformations are given as functools.partial; plain functions work too
            import functools
            patch.fns.append(functools.partial(add, tag=tag) if sc.get('partial') else add)
            handled.append(tag)
        kopf.on.create(GROUP, VERSION, PLURAL, registry=reg, id='a')(sim.handler('a', extra=extra))
        kopf.on.update(GROUP, VERSION, PLURAL, registry=reg, id='a', field='spec.x')(sim.handler('a', extra=extra))
        state = {'conflicts': sc['conflicts'], 'fails': 0, 'arm_fail': sc['fail_after_conflict']}

        def policy(req):
            r = req.route
            if r.get('kind') != 'patch' or r.get('name') != 'o1':
                return None
            if state['fails'] > 0:
                state['fails'] -= 1
                return Plan(fault=Fault('status', code=500))
            if r.get('ptype') == 'json' and state['conflicts'] > 0:
                state['conflicts'] -= 1
                sim.edit('o1', lambda o: o['spec'].update(z=o['spec'].get('z', 0) + 1))       # a foreign write right before the JSON-patch
                if state['arm_fail']:
                    state['fails'] = sc['fail_after_conflict']; state['arm_fail'] = 0
            return None
        sim.srv.policy = policy
        op = sim.operator('op1', reg, sim.settings(networking__error_backoffs=[], queueing__error_delays=[1, 1]))
        sim.world.at(1, lambda: sim.create('o1', {'x': 1}), 1)
        for k, t in enumerate(sc['edits'], start=2):
            sim.world.at(t, lambda k=k: sim.set_spec('o1', x=k), 1)
        # whatever was carried forward is re-evaluated in the next cycle: make sure there is one (an unrelated foreign change)
        sim.world.at(sc['end'] - 20, lambda: sim.edit('o1', lambda o: o['spec'].update(nudge=1)), 1)
        sim.run(sc['end'])
        o = sim.obj('o1') or {}
        op.finish()
        return {'kind': 'loop', 'handled': sorted(set(handled)), 'tags': list(o.get('spec', {}).get('tags', [])),
                'last': f'tag-{o.get("spec", {}).get("x")}', 'case': sc}
    finally:
        sim.close()


def dloop_case(sc: dict[str, Any]) -> dict[str, Any]:
    """The real operator with several timers / daemons on ONE object: every invocation accumulates a status field and a
    transformation of its own in ITS patch, then works for a scripted time. No foreign writers, no faults: whatever an
    invocation accumulated must reach the server in exactly one request, and its transformation must be evaluated once."""
    import asyncio
    import kopf
    from sim.opsim import GROUP, PLURAL, VERSION, Sim
    sim = Sim(wall_budget=20)
    try:
        reg = sim.registry()
        accum: list[str] = []
        fncalls: list[str] = []

        def make(hid: str, durs: list[int], daemon: bool):
            n = [0]

            async def fn(patch, stopped=None, **_):
                n[0] += 1
                if sim.now < sc['quiet']:
                    m = f'{hid}-{n[0]}'
                    patch.status[m] = 1

                    def add(body, m=m):        # NOT state-checking on purpose: a transformation computed from a stale state is never
                        fncalls.append(m)      # written (422), so re-evaluating it on the fresh state must still give the effect once
                        body.setdefault('spec', {}).setdefault('tags', []).append(m)
                    patch.fns.append(add)
                    accum.append(m)
                await asyncio.sleep(durs[(n[0] - 1) % len(durs)])
                if daemon:
                    raise kopf.TemporaryError('again', delay=1)
            fn.__name__ = fn.__qualname__ = hid
            return fn
        for hid, kind, durs in sc['handlers']:
            if kind == 'timer':
                kopf.timer(GROUP, VERSION, PLURAL, registry=reg, id=hid, interval=sc['interval'])(make(hid, durs, False))
            else:
                kopf.daemon(GROUP, VERSION, PLURAL, registry=reg, id=hid)(make(hid, durs, True))
        op = sim.operator('op1', reg, sim.settings(watching__reconnect_backoff=1))
        sim.world.at(1, lambda: sim.create('o1', {'x': 1}), 1)
        sim.run(sc['end'])
        sent = []
        for e in sim.recorder.events:
            if e['ev'] == 'srv.req' and e.get('kind') == 'patch' and e.get('plural') == PLURAL and e.get('loop') == 'op1' and e.get('ptype') == 'merge':
                body = _body_of(sim, e) or {}
                ms = sorted(k for k, v in (body.get('status') or {}).items() if v == 1 and '-' in k)
                if ms: sent.append(ms)
        tags = list(((sim.obj('o1') or {}).get('spec') or {}).get('tags') or [])
        op.finish()
        return {'kind': 'dloop', 'accum': accum, 'sent': sent, 'tags': tags, 'nfn': len(fncalls), 'case': sc}
    finally:
        sim.close()


def _body_of(sim: Any, e: dict[str, Any]) -> Any:
    for r in sim.srv.requests:
        if getattr(r, 'id', None) == e.get('req'):
            return copy.deepcopy(r.body)
    return None


def run(ctx, rep) -> None:
    logging.disable(logging.CRITICAL)
    rep.rule = ('(A) TLC exhaustive on MC_Patching (48 configurations x foreign writes at every position x 3 cycles) + negative model; (B) the real patch_obj on patch contents x transformations x subresource x initial objects x one foreign write at every '
                'position, carried over cycles; every request and the server object after it replayed by TLC (Patching!ClassifyC08); '
                'non-trivial = a run with a transformation or a foreign write')
    r = tlc.run('MC_Patching', 'MC_Patching.cfg')
    rep.add_tlc('MC_Patching', r)
    if not r.ok:
        rep.violation(f'reference check of Patching violated: {r.violated}', files={'tlc.out': r.out[-100000:]})
        return
    rn = tlc.run('MC_Patching', 'MC_Patching_neg.cfg')
    if rn.ok:
        from vf.evidence import MachineryFailure
        raise MachineryFailure('negative configuration MC_Patching_neg (ops from the event body) violated nothing')
    rep.extra['negative_config'] = f'MC_Patching_neg (ops computed from the body of the event): {rn.violated} violated, as required'
    runs = build_runs(ctx.quick, ctx.seed)
    from concurrent.futures import ProcessPoolExecutor
    lscs = [{'id': f'loop-{c}-{f}-{len(e)}-{int(pt)}', 'conflicts': c, 'fail_after_conflict': f, 'edits': e, 'end': 80, 'partial': pt}
            for c in (0, 1, 2) for f in (0, 1, 2) for e in ([], [10], [10, 11], [10, 25]) for pt in (False, True)]
    rnd = random.Random(f'dloop-{ctx.seed}')
    dscs = [{'id': f'dloop-{ctx.seed}-{k}', 'interval': rnd.choice([2, 3, 5]), 'quiet': 20, 'end': 45,
             'handlers': [(f'h{j}', rnd.choice(['timer', 'timer', 'daemon']), [rnd.choice([0, 1, 2, 3, 4]) for _ in range(3)]) for j in range(rnd.choice([2, 2, 3]))]}
            for k in range(24 if ctx.quick else 400)]
    with ProcessPoolExecutor(16) as ex:
        runs += list(ex.map(loop_case, lscs))
        runs += list(ex.map(dloop_case, dscs))
    bad = records.judge('Rec_Patching', [{k: v for k, v in r.items() if k != 'case'} for r in runs], rep=rep, shard=700)
    rep.evaluations += len(runs); rep.traces += len(runs)
    for r in runs:
        if r['kind'] in ('loop', 'dloop') or r['case']['fns'] or r['case']['foreign']:
            rep.nontrivial(r['case'])
    rep.sample({'case': runs[7]['case'], 'requests': [[(s.get('ptype'), s.get('onstatus'), s.get('code')) for s in c['steps'] if s['kind'] == 'req'] for c in runs[7]['calls']]})
    for i, label in sorted(bad.items()):
        r = runs[i]
        if r['kind'] == 'loop':
            rep.classified('', f'{label}: {r["case"]} handled={r["handled"]} tags={r["tags"]}', payload=r)
            continue
        if r['kind'] == 'dloop':
            rep.classified('', f'{label}: {r["case"]} accumulated={r["accum"]} sent={r["sent"]} tags={r["tags"]}', payload=r)
            continue
        rep.classified(label if label.startswith('F') else '', f'{label}: {r["case"]} requests='
                       f'{[[(s.get("ptype"), s.get("onstatus"), s.get("code")) for s in c["steps"] if s["kind"] == "req"] for c in r["calls"]]}', payload=r)
