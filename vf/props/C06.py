"""C06 - the finalizer is never released early, always released eventually.

(A) Handling.tla model-checked exhaustively on the configurations named below (plus negative configurations that must
fail, to show the invariants are not vacuous); (B) seeded random closed-loop scenarios of the profile(s) below run on
the REAL kopf.operator() in the world simulator, every trace judged by TLC against Trace_Handling.tla (all invariants
of the module are evaluated on every state of the explaining behaviour, and time is bound by urgency). The configuration
`mixed_q` and the scenarios of profile `mixed` have daemons beside the change handlers on the same object: the finalizer is
held for a mandatory deletion handler AND for every live, entitled daemon.
"""
from vf.props import _family

PROFILES = "finalizer".split(',')
CFGS = "finalizer,mixed_q".split(',')
NEGATIVES = {'mixed_w': 'NoHeldByDaemon', 'neg_f38': 'NoF38'}       # witness: a state in which the daemon alone holds the object is reachable
FEATURES = set("finalizer-write,conflict-422,delete,foreign-finalizer".split(','))


def run(ctx, rep) -> None:
    from vf import handling as H
    rep.rule = ('(A) TLC exhaustive on MC_Handling_{%s}; (B) seeded random scenarios of profile(s) %s on the real operator, '
                'judged by Trace_Handling; non-trivial = the trace shows one of %s; distinct = by abstract trace'
                % (','.join(CFGS), PROFILES, sorted(FEATURES)))
    _family.model_check(rep, CFGS, NEGATIVES, ctx)
    n = 120 if ctx.quick else 2500
    scs = []
    for p in PROFILES:
        scs += H.gen_scenarios(ctx.seed, n // len(PROFILES), p)
    # the histories in which F30 was found (a finalizer removal decided on an unmatched view, 422, carried into a matching one)
    scs += [sc_ for sc_ in H.gen_scenarios(0, 1700, 'finalizer') if sc_['id'] in ('finalizer-0-577', 'finalizer-0-1641')]
    # the history in which F38 was found (thorough tier of C02): a removal decided on an older, unmatched view goes out behind a merge-patch
    # of the same cycle, whose answer -- not the view -- is what the JSON-patch's version test compares with (known finding)
    scs += [dict(sc_, id='crafted-f38') for sc_ in H.gen_scenarios(0, 700, 'progress') if sc_['id'] == 'progress-0-670']
    # change handlers AND daemons on the same object: the finalizer is held for both (Handling.tla with conf.dh)
    scs += H.gen_scenarios(ctx.seed, 60 if ctx.quick else 1200, 'mixed')
    _family.run_traces(rep, scs, '+'.join(PROFILES), nontrivial=lambda f: bool(f & FEATURES))
    # daemons and timers hold the finalizer too: the daemon histories of C09, judged by DaemonMonitor.tla
    # (clause: the finalizer is not withdrawn under a live matching daemon before backoff + timeout have passed)
    from concurrent.futures import ProcessPoolExecutor
    from vf import daemons as D
    dscs = D.crafted() + D.gen_scenarios(ctx.seed, 260 if ctx.quick else 3000)
    # leg C: configurations and histories drawn by TLC itself (-simulate on Sim_Spawning) replayed into the real operator
    tl = D.tlc_scenarios(ctx.seed + 1, 60 if ctx.quick else 600)
    rep.extra['tlc_generated_daemon_histories'] = len(tl)
    dscs += tl
    with ProcessPoolExecutor(16) as ex:
        dtraces = list(ex.map(D.run_scenario, dscs, chunksize=4))
    dv = D.judge(dtraces, rep, focus='finalizer_released_while_daemon_alive')
    rep.evaluations += len(dtraces); rep.traces += len(dtraces)
    for t in dtraces:
        if any(e['ev'] == 'released' for e in t['events']):
            rep.nontrivial([t['conf'], [{k: v for k, v in e.items() if k != 't'} for e in t['events']]])
        if dv[t['id']] == 'finalizer_released_while_daemon_alive':
            rep.violation(f'{t["id"]}: the finalizer was released while a matching daemon was alive and not yet abandoned', payload=t)
    # ... and step conformance with Spawning.tla (Trace_Spawning): every write of the finalizer must be the one the specification
    # makes in that state and at that instant; its invariant FinalizerHeld is evaluated in every state
    sv = D.judge_spawning(dtraces, rep)
    for t in dtraces:
        v = sv[t['id']]['verdict']
        if v == 'FinalizerHeld' or (v.startswith('rejected') and "'ev': 'json'" in v):
            rep.violation(f'{t["id"]}: {v}', payload=t['spawning'])
    # a timer whose function takes a while, next to stuck or obedient daemons with backoffs and timeouts of their own: the object is held while
    # the function runs, and the function is never cancelled (TickMonitor.tla)
    kscs = D.tick_scenarios(ctx.seed, 60 if ctx.quick else 1200)
    with ProcessPoolExecutor(16) as ex:
        ktraces = list(ex.map(D.run_scenario, kscs, chunksize=4))
    kv = D.judge_ticks(ktraces, rep)
    from vf.evidence import MachineryFailure
    if any(not any(e['ev'] == 'tick' for e in t['events']) for t in ktraces if not t['stall']):
        raise MachineryFailure('a tick scenario without a single run of the timer: the operator of that run did not work')
    rep.evaluations += len(ktraces); rep.traces += len(ktraces)
    for t in ktraces:
        if any(e['ev'] == 'released' for e in t['events']):
            rep.nontrivial([t['conf'], [{k: v for k, v in e.items() if k != 't'} for e in t['events'] if e['ev'].startswith('tick') or e['ev'] == 'released']])
        if t['stall']:
            rep.violation(f'{t["id"]}: the event loop stalled', payload=t)
        elif kv[t['id']] != 'ok':
            rep.violation(f'{t["id"]}: {kv[t["id"]]}', payload={k: v for k, v in t.items() if k != 'spawning'})
