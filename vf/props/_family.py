"""Shared runner of the Handling family (C02, C03, C06, C07, C11, C14 and the system-level parts of C05, C15)."""
from __future__ import annotations

from concurrent.futures import ProcessPoolExecutor
from typing import Any

from vf import handling as H
from vf import tlc
from vf.evidence import MachineryFailure


def model_check(rep: Any, cfgs: list[str], negatives: dict[str, str], ctx: Any) -> None:
    """(A): exhaustive configurations must hold; negative/witness configurations must fail on the named invariant."""
    for c in cfgs:
        r = tlc.run('MC_Handling', f'MC_Handling_{c}.cfg', coverage=False, timeout=3000)
        rep.add_tlc(f'MC_Handling_{c}', r)
        if not r.ok:
            acts = [s['action'] for s in r.trace]
            rep.violation(f'design check MC_Handling_{c}: {r.violated} after {acts[-15:]}', files={'tlc.out': r.out[-200000:]})
    neg = {}
    for c, inv in negatives.items():
        r = tlc.run('MC_Handling', f'MC_Handling_{c}.cfg', timeout=3000)
        rep.add_tlc(f'MC_Handling_{c} (negative)', r)
        if r.ok or (r.violated and r.violated[0][1] != inv):
            raise MachineryFailure(f'negative configuration {c} should violate {inv}, got {r.violated}')
        neg[c] = f'{inv} violated in {len(r.trace)} steps, as required'
    if neg:
        rep.extra['negative_configs'] = neg


def run_traces(rep: Any, scenarios: list[dict[str, Any]], label: str, nontrivial: Any = None) -> tuple[list[dict[str, Any]], dict[str, Any]]:
    """(B): run scenarios on the real operator, have TLC judge the traces; violations are recorded in rep."""
    # ... some of them once more in a crowd: a second kind of the same plural in another group (objects o1 -- the namesake of the main
    # object -- and o2, handlers and a daemon of its own, the daemon under the id of the main object's) and a second object of the main
    # kind, all created, edited, deleted and re-created on a schedule of their own; the main object must behave as if it were alone
    crowd = [dict(sc_, crowd=True, id=sc_['id'] + '-crowd') for sc_ in scenarios
             if sc_.get('profile') in ('progress', 'converge', 'resume', 'finalizer', 'consistency', 'mixed', 'errors', 'timeouts', 'stealth', 'subs')
             and not sc_.get('drs') and all(not (e_[2] in ('stop', 'kill') and e_[0] <= 2) for e_ in sc_.get('env', []))]
    scenarios = list(scenarios) + crowd[:max(12, len(crowd) // 6)]
    with ProcessPoolExecutor(16) as ex:
        traces = list(ex.map(H.run_scenario, scenarios, chunksize=4))
    verdicts = H.judge(traces, rep, f'Trace_Handling[{label}]')
    rep.evaluations += len(traces); rep.traces += len(traces)
    for t in traces:
        v = verdicts[t['id']]
        feats = features(t)
        if nontrivial is None or nontrivial(feats):
            rep.nontrivial([[{k: x for k, x in e.items() if k != 't'} for e in t['events']], t['conf']])
        for f in feats:
            rep.extra.setdefault('scenario_features', {}).setdefault(f, 0)
            rep.extra['scenario_features'][f] += 1
        if t['stall'] and t.get('livelock') and v['verdict'] == 'accepted' and v.get('excuse') == 'F9':
            rep.classified('F9', f'{t["id"]}: the operator never comes to rest: the deletion handlers are run again and again while the object is held '
                                 f'for a daemon that is still stopping ({sum(1 for e in t["events"] if e["ev"] == "inv")} invocations in the kept prefix)',
                           payload={k: t[k] for k in ('id', 'scenario')})
        elif not t['stall'] and v['verdict'] == 'invariant F38 violated':
            rep.classified('F38', f'{t["id"]}: the finalizer was removed from a matching object whose mandatory deletion handler had not finished: decided on an '
                                  f'older view in which the object did not match, sent behind a merge-patch of the same cycle (the version test of the '
                                  f'JSON-patch is taken from the merged body)', payload=t)
        elif t['stall']:
            rep.violation(f'{t["id"]}: event loop stalled' + (f' (livelock; prefix: {v["verdict"]}, {v.get("excuse")})' if t.get('livelock') else ''), payload=t)
        elif v['verdict'] != 'accepted':
            rep.violation(f'{t["id"]}: {v["verdict"]}', payload=t)
    # the orchestrator of every run, too, against Orchestration.tla (one watcher per served pair, started once, gone at the end)
    from vf import orchestration
    ots = [t['orch'] for t in traces if t.get('orch')]
    ov = orchestration.judge(ots, rep)
    rep.evaluations += len(ots); rep.traces += len(ots)
    for ot in ots:
        if ov[ot['id']]['verdict'] != 'accepted':
            rep.violation(f'{ot["id"]}: the orchestrator is not a behaviour of Orchestration.tla: {ov[ot["id"]]["verdict"]}', payload=ot)
    # ... and what each operator process remembered about the objects, against Inventory.tla
    from vf import inventory
    mts = [m for t in traces for m in t.get('mem', [])]
    mv = inventory.judge(mts, rep)
    rep.evaluations += len(mts); rep.traces += len(mts)
    for m in mts:
        if mv.get(m['id'], 'accepted') != 'accepted':
            rep.violation(f'{m["id"]}: the memories of the operator are not a behaviour of Inventory.tla: {mv[m["id"]]}', payload=m)
    if traces:
        t = traces[len(traces) // 2]
        rep.sample({'scenario': t['scenario'], 'trace_head': t['events'][:12]})
    return traces, verdicts


def features(t: dict[str, Any]) -> set[str]:
    evs = t['events']; f = set()
    invs = [e for e in evs if e['ev'] == 'inv']
    if any(e['retry'] > 0 for e in invs): f.add('retry')
    if any(e['k'] != 'ok' for e in invs): f.add('failure')
    if any(e['ev'] == 'kill' for e in evs): f.add('kill')
    if any(e['ev'] == 'stop' for e in evs): f.add('stop')
    if sum(1 for e in evs if e['ev'] == 'list') > 0: f.add('restart-or-relist')
    if any(e['ev'] == 'json' and e['code'] == 422 for e in evs): f.add('conflict-422')
    if any(e['ev'] == 'json' and e['code'] == 200 for e in evs): f.add('finalizer-write')
    if any(e['ev'] == 'delete' for e in evs): f.add('delete')
    if any(e['ev'] == 'fin' for e in evs): f.add('foreign-finalizer')
    if any(e['ev'] == 'merge' and e.get('dummy') for e in evs): f.add('touch')
    if any(e['ev'] == 'begin' and e['ctime'] for e in evs): f.add('inconsistent-view')
    if any(e['ev'] == 'inv' and e['reason'] == 'resume' for e in evs): f.add('resume')
    if any(e['ev'] == 'edit' and not e['match'] for e in evs) or not t['init']['match']: f.add('unmatched')
    if len({e['reason'] for e in invs}) > 1: f.add('several-reasons')
    return f
