"""C15 - exactly the handlers whose declared criteria hold are invoked.

(A) MC_Filters: sanity laws of the reference reading (Filters.tla, an executable reading of docs/filters.rst) over the
    whole declaration x state space, enumerated by TLC.
(B) every declaration of the criteria alphabet is registered through the REAL kopf.on.* decorator on a fresh registry;
    every state becomes real old/new essences and a real cause; the real registry's get_handlers() decides; the
    (declaration, state, invoked) records are judged by Filters!ClassifyC15 in TLC (families F10, F11 are TLA+
    predicates). De-duplication records: one function registered twice under one id.
(C) stealth, end to end: closed-loop runs with objects that match no handler (Trace_Handling: Stealth invariant and
    conformance of every PATCH).
"""
from __future__ import annotations

import itertools
import random
import logging
from typing import Any

from vf import records, tlc

R = ('example.com', 'v1', 'things')
KINDS = ['create', 'update', 'delete', 'resume', 'field', 'event', 'daemon', 'timer', 'index']
LABS = ['none', 'eq', 'present', 'absent', 'cb']
VALS = ['none', 'field', 'eq1', 'eq3', 'present', 'absent', 'cb_eq1', 'cb_none']       # eq3: the literal False (a falsy criterion)
OLDNEW = ['none', 'eq1', 'eq2', 'eq3', 'present', 'absent']
WHENS = ['none', 'T', 'F']


def cb_is_x(v, **_): return v == 'x'
def cb_eq1(v, **_): return v == 1
def cb_none(v, **_): return v is None
def when_t(**_): return True
def when_f(**_): return False


def build_records(quick: bool) -> list[dict[str, Any]]:
    import kopf
    from kopf._cogs.structs import bodies, diffs, ephemera, patches, references
    from kopf._core.engines import indexing
    from kopf._core.intents import causes
    res = references.Resource(*R, namespaced=True)
    lab_of = {'none': None, 'eq': {'a': 'x'}, 'present': {'a': kopf.PRESENT}, 'absent': {'a': kopf.ABSENT}, 'cb': {'a': cb_is_x}}
    val_of = {'eq1': 1, 'eq3': False, 'present': kopf.PRESENT, 'absent': kopf.ABSENT, 'cb_eq1': cb_eq1, 'cb_none': cb_none}
    on_of = {'none': None, 'eq1': 1, 'eq2': 2, 'eq3': False, 'present': kopf.PRESENT, 'absent': kopf.ABSENT}
    when_of = {'none': None, 'T': when_t, 'F': when_f}
    dec_of = {'create': kopf.on.create, 'update': kopf.on.update, 'delete': kopf.on.delete, 'resume': kopf.on.resume,
              'field': kopf.on.field, 'event': kopf.on.event, 'daemon': kopf.daemon, 'timer': kopf.timer, 'index': kopf.index}

    def body_of(la, f, deleting=False, lb='-'):
        b = {'metadata': {'name': 'o', 'namespace': 'ns', 'uid': 'u'}, 'spec': {}}
        if la != '-': b['metadata']['labels'] = {'a': la}
        if lb != '-': b['metadata'].setdefault('labels', {})['b'] = lb
        if f: b.setdefault('status', {})['f'] = FVAL[f]
        if deleting: b['metadata'].update(deletionTimestamp='t', finalizers=['kopf.zalando.org/KopfFinalizerMarker'])
        return b

    # the field of the criteria lives outside the default essence (status.f): it gets into the old/new states only as a
    # handler-declared extra field, through the REAL diff-base builder; value 3 is a present but falsy value (False)
    FVAL = {1: 1, 2: 2, 3: False}
    dbs = kopf.AnnotationsDiffBaseStorage()

    def ess(la, f, lb='-'):
        return dict(dbs.build(body=bodies.Body(body_of(la, f, lb=lb)), extra_fields={('status', 'f')}))

    recs = []
    log = logging.getLogger('c15')
    for kind in KINDS:
        upd = kind in ('update', 'field')
        for lab, lab2, val, when in itertools.product(LABS, ['none', 'eq', 'absent'], VALS, WHENS):
            if lab2 != 'none' and (lab == 'none' or (quick and (val not in ('none', 'eq1') or when != 'none'))):
                continue
            for old_c, new_c in (itertools.product(OLDNEW, OLDNEW) if upd else [('none', 'none')]):
                if val != 'none' and (old_c != 'none' or new_c != 'none'):
                    continue        # value= and old=/new= are mutually exclusive by the decorators
                if quick and upd and (old_c, new_c) != ('none', 'none') and (lab not in ('none', 'eq') or when != 'none'):
                    continue
                labels = dict(lab_of[lab]) if lab_of[lab] else None
                if lab2 != 'none':
                    labels['b'] = 'y' if lab2 == 'eq' else kopf.ABSENT        # listed AFTER the criterion on label a
                kw: dict[str, Any] = dict(registry=None, id='h', labels=labels, when=when_of[when])
                if val != 'none' or old_c != 'none' or new_c != 'none':
                    kw['field'] = 'status.f'
                    if val in val_of: kw['value'] = val_of[val]
                if upd: kw.update(old=on_of[old_c], new=on_of[new_c])
                if kind == 'field' and 'field' not in kw:
                    continue
                reg = kopf.OperatorRegistry(); kw['registry'] = reg
                try:
                    dec_of[kind](*R, **kw)(lambda **_: None)
                except Exception:
                    continue        # the decorator refuses the combination
                decl = {'kind': kind, 'lab': lab, 'lab2': lab2, 'val': val, 'old': old_c, 'new': new_c, 'when': when}
                reasons = ['create', 'update', 'delete', 'resume'] if kind in ('create', 'update', 'delete', 'resume', 'field') else ['-']
                for reason in reasons:
                    if kind == 'field' and reason != 'update':
                        continue    # @kopf.on.field on non-update causes is outside the judged space (see DESIGN.md)
                    for la, lb, fo, fn in itertools.product(['-', 'x', 'y'], ['-', 'y'] if lab2 != 'none' else ['-'], [0, 1, 2, 3], [0, 1, 2, 3]):
                        if reason in ('create', '-') and fo: continue
                        if reason == 'resume' and fo != fn: continue
                        if reason == 'update' and fo == fn: continue
                        body = bodies.Body(body_of(la, fn, deleting=(reason == 'delete'), lb=lb))
                        common = dict(resource=res, indices=indexing.OperatorIndexers().indices, logger=log, patch=patches.Patch(),
                                      body=body, memo=ephemera.Memo())
                        if reason == '-':
                            if kind == 'event':
                                c = causes.WatchingCause(type='MODIFIED', event={'type': 'MODIFIED', 'object': dict(body)}, **common)
                                got = reg._watching.get_handlers(c)
                            elif kind == 'index':
                                got = reg._indexing.get_handlers(causes.IndexingCause(**common))
                            else:
                                got = reg._spawning.get_handlers(causes.SpawningCause(reset=False, **common))
                        else:
                            o = None if reason == 'create' else ess(la, fo, lb); n = ess(la, fn, lb)
                            c = causes.ChangingCause(reason=causes.Reason(reason), initial=(reason == 'resume'), old=o, new=n,
                                                     diff=diffs.diff(o, n), **common)
                            got = reg._changing.get_handlers(c)
                        recs.append({'kind': 'match', 'decl': decl, 'state': {'reason': reason, 'la': la, 'lb': lb, 'fo': fo, 'fn': fn},
                                     'invoked': bool(got)})
    # de-duplication: one function under one id, registered by two decorators / twice
    for twice_kind in ('create+resume', 'create+create', 'two-ids'):
        reg = kopf.OperatorRegistry()
        def fn(**_): pass
        if twice_kind == 'create+resume':
            kopf.on.create(*R, registry=reg, id='h')(fn); kopf.on.resume(*R, registry=reg, id='h')(fn); expected = 1
        elif twice_kind == 'create+create':
            kopf.on.create(*R, registry=reg, id='h', labels={'a': 'x'})(fn); kopf.on.create(*R, registry=reg, id='h')(fn); expected = 1
        else:
            kopf.on.create(*R, registry=reg, id='h1')(fn); kopf.on.create(*R, registry=reg, id='h2')(fn); expected = 2
        body = bodies.Body(body_of('x', 1))
        # a cause that is both a creation and a first sight: CREATE keeps `initial` false, so use an update with initial
        for reason, initial in (('create', False), ('update', True)):
            if twice_kind != 'create+resume' and reason == 'update': continue
            c = causes.ChangingCause(reason=causes.Reason(reason), initial=initial, old=None if reason == 'create' else ess('x', 2), new=ess('x', 1),
                                     diff=diffs.diff(None if reason == 'create' else ess('x', 2), ess('x', 1)),
                                     resource=res, indices=indexing.OperatorIndexers().indices, logger=log, patch=patches.Patch(),
                                     body=body, memo=ephemera.Memo())
            got = reg._changing.get_handlers(c)
            exp = expected if reason == 'create' else 1
            recs.append({'kind': 'dedup', 'how': f'{twice_kind}/{reason}', 'invocations': len(got), 'expected': exp})
    recs += selector_records()
    return recs


def sel_fn_true(resource): return True
def sel_fn_plural(resource): return resource.plural == 'things'


def selector_records() -> list[dict[str, Any]]:
    """The resource-selector criterion: every way of naming resources (docs/resources.rst) against a small cluster with two
    versions of one kind (one preferred), a namesake in another group, another kind sharing a category, and the two kinds of
    Kubernetes events; the real Selector.check() and the real registry decide, Filters!SelMatches is the reference."""
    import kopf
    from kopf._cogs.structs import bodies, ephemera, patches, references
    from kopf._core.engines import indexing
    from kopf._core.intents import causes
    log = logging.getLogger('c15')
    RES = [
        dict(group='example.com', version='v1', plural='things', kind='Thing', singular='thing', shortcuts=['th'], categories=['catx'], preferred=True),
        dict(group='example.com', version='v1beta1', plural='things', kind='Thing', singular='thing', shortcuts=['th'], categories=['catx'], preferred=False),
        dict(group='other.io', version='v1', plural='things', kind='Thing', singular='thing', shortcuts=[], categories=[], preferred=True),
        dict(group='example.com', version='v1', plural='widgets', kind='Widget', singular='widget', shortcuts=['wd'], categories=['catx'], preferred=True),
        dict(group='', version='v1', plural='events', kind='Event', singular='event', shortcuts=['ev'], categories=[], preferred=True),
        dict(group='events.k8s.io', version='v1', plural='events', kind='Event', singular='event', shortcuts=['ev'], categories=[], preferred=True),
        dict(group='', version='v1', plural='pods', kind='Pod', singular='pod', shortcuts=['po'], categories=['all'], preferred=True),
    ]
    # ... and the same kinds as the cluster describes them after their definitions were edited while the operator runs (a kind left its
    # category, lost its shortcut, got another preferred version, joined a category): the criterion is about the resource as it is NOW
    RES = RES + [dict(RES[0], categories=[], preferred=False), dict(RES[1], preferred=True, shortcuts=[]), dict(RES[2], categories=['catx'], shortcuts=['th']),
                 dict(RES[3], categories=['all'], kind='Thing', singular='thing'), dict(RES[6], categories=[], shortcuts=['th'])]
    names = [('plural', 'things'), ('kind', 'Thing'), ('singular', 'thing'), ('shortcut', 'th'), ('category', 'catx'), ('category', 'all'),
             ('any', 'things'), ('any', 'Thing'), ('any', 'thing'), ('any', 'th'), ('any', 'catx'), ('any', 'pods'), ('any', 'events'),
             ('everything', ''), ('fn', 'true'), ('fn', 'plural')]
    recs = []
    for g, v, (nt, nm) in itertools.product([None, 'example.com', 'other.io', ''], [None, 'v1', 'v1beta1'], names):
        if nt == 'fn' and (g is not None or v is not None):
            continue           # a callable stands alone
        kw: dict[str, Any] = {}
        if g is not None: kw['group'] = g
        if v is not None: kw['version'] = v
        if nt == 'any': args, kws = (nm,), kw
        elif nt == 'everything': args, kws = (kopf.EVERYTHING,), kw
        elif nt == 'fn': args, kws = ({'true': sel_fn_true, 'plural': sel_fn_plural}[nm],), {}
        else: args, kws = (), dict(kw, **{nt: nm})
        try:
            if nt in ('any', 'everything') and kw:         # positional forms: (group, version, name) / (group, name)
                pos = [x for x in (g, v) if x is not None] + list(args)
                if g is None:
                    continue       # a version without a group cannot be given positionally
                sel = references.Selector(*pos)
            else:
                sel = references.Selector(*args, **kws)
        except TypeError:
            continue
        for r_ in RES:
            res = references.Resource(group=r_['group'], version=r_['version'], plural=r_['plural'], kind=r_['kind'], singular=r_['singular'],
                                      shortcuts=frozenset(r_['shortcuts']), categories=frozenset(r_['categories']), preferred=r_['preferred'], namespaced=True)
            reg = kopf.OperatorRegistry()
            def fn(**_): pass
            try:
                if nt in ('any', 'everything') and kw:
                    kopf.on.event(*pos, registry=reg, id='h')(fn)
                else:
                    kopf.on.event(*args, registry=reg, id='h', **kws)(fn)
            except TypeError:
                continue
            cause = causes.WatchingCause(resource=res, indices=indexing.OperatorIndexers().indices, logger=log, patch=patches.Patch(),
                                         body=bodies.Body({'metadata': {'name': 'o', 'uid': 'u'}}), memo=ephemera.Memo(), type='MODIFIED', event={'type': 'MODIFIED', 'object': {}})
            invoked = len(reg._watching.get_handlers(cause)) == 1
            recs.append({'kind': 'selector', 'sel': {'group': 'any' if g is None else g, 'version': 'any' if v is None else v, 'nt': nt, 'name': nm},
                         'res': {k: r_[k] for k in ('group', 'version', 'plural', 'kind', 'singular', 'shortcuts', 'categories', 'preferred')},
                         'checked': bool(sel.check(res)), 'invoked': invoked})
    return recs


def run(ctx, rep) -> None:
    logging.disable(logging.CRITICAL)
    rep.rule = ('(A) TLC enumerates declarations x states and checks laws on the reference; (B) bounded-exhaustive declarations '
                '(9 kinds x label x value x old/new x when) x states through the real decorators and registries, judged by '
                'Filters!ClassifyC15; (C) closed-loop stealth scenarios; non-trivial = a record whose declaration has at least one '
                'criterion, or a stealth trace with an unmatched object')
    r = tlc.run('MC_Filters', 'MC_Filters.cfg')
    rep.add_tlc('MC_Filters', r)
    if not r.ok:
        rep.violation(f'reference laws of Filters violated: {r.violated}', files={'tlc.out': r.out[-100000:]})
        return
    recs = build_records(ctx.quick)
    bad = records.judge('Rec_Filters', recs, rep=rep, shard=25000)
    rep.evaluations += len(recs); rep.traces += len(recs); rep.exhaustive = not ctx.quick
    for rec in recs:
        if rec['kind'] in ('dedup', 'selector') or any(rec['decl'][k] != 'none' for k in ('lab', 'lab2', 'val', 'old', 'new', 'when')):
            rep.nontrivial(rec)
    rep.sample(recs[len(recs) // 3]); rep.sample(recs[-1])
    for i, label in sorted(bad.items()):
        rep.classified(label if label.startswith('F') else '', f'{label}: {recs[i]}', payload=recs[i])
    loop_stage(ctx, rep)
    from vf import handling as H
    from vf.props import _family
    scs = H.gen_scenarios(ctx.seed, 60 if ctx.quick else 1500, 'stealth')
    # the object stops matching while the echo of the operator's own PATCH is still under way, the stream breaks, and the re-listing
    # shows the unmatched object within the consistency window: the finalizer goes in that cycle (nothing else will come)
    for k_, (t_tog, t_rel) in enumerate(((6, 6), (6, 7), (5, 6))):
        scs.append({'id': f'stealth-crafted-stale-{k_}', 'handlers': {'a': H.hdl(['create', 'update'], []), 'd': H.hdl(['delete'], [])}, 'order': ['a', 'd'],
                    'lifecycle': 'asap', 'ctimeout': 5, 'init': {'x': 1, 'on': True},
                    'env': [(5, 1, 'edit', 2), (5, 1, 'hold'), (t_tog, 1, 'toggle'), (t_rel, 1, 'relist'), (30, 1, 'release')],
                    'end': 110, 'tail_from': 90, 'profile': 'stealth', 'sync': '', 'drs': False})
    _family.run_traces(rep, scs, 'stealth', nontrivial=lambda f: 'unmatched' in f)
    # spawned handlers (timers) under a label filter that the object leaves and re-enters -- also in the middle of a run: the function is
    # invoked only while the object matches, by one instance at a time (Timers.tla: Unmatch / Rematch / Respawn), judged by Trace_Timers
    from concurrent.futures import ProcessPoolExecutor
    from vf import timers as T
    tscs = [sc_ for sc_ in T.gen_scenarios(ctx.seed, 360 if ctx.quick else 6000) if sc_.get('toggles')]
    # crafted: a run is under way when the object stops matching, and the object matches again before that run has ended
    for k_, (dur, off, on) in enumerate(((6, 3, 5), (8, 2, 3), (5, 4, 8), (7, 2, 6))):
        tscs.append({'id': f'timer-crafted-rematch-{k_}', 'conf': {'interval': 2, 'sharp': False, 'idle': 0, 'initdelay': 0, 'backoff': 1},
                     'runs': [(dur, 'ok', 0)] + [(0, 'ok', 0)] * 10, 'changes': [], 'relist_changes': [], 'delete_at': None, 'end': 40, 'sync': False,
                     'toggles': [(1 + off, False), (1 + on, True), (25, False)]})
    with ProcessPoolExecutor(16) as ex:
        ttraces = list(ex.map(T.run_scenario, tscs, chunksize=2))
    tv = T.judge(ttraces, rep)
    rep.evaluations += len(ttraces); rep.traces += len(ttraces)
    for t in ttraces:
        if any(e['ev'] == 'rematch' for e in t['events']):
            rep.nontrivial([{k: v for k, v in e.items() if k != 't'} for e in t['events']])
        if t['stall']:
            rep.violation(f'{t["id"]}: the event loop stalled', payload=t)
        elif tv[t['id']]['verdict'] != 'accepted':
            rep.violation(f'{t["id"]}: a filtered timer is not invoked exactly while its criteria hold: {tv[t["id"]]["verdict"]}', payload=t)


# ---------------------------------------------------------------------------------------------------------------------
# The criteria in the closed loop: the real operator with several update handlers of DIFFERENT criteria on one object (a label value, a label's
# absence, an old/new transition of a field outside the essence, none), one of which fails temporarily when it is first called; the object is
# edited at rest (a label, the field) -- and sometimes once more while the failed handler sleeps, so that its criteria stop holding in
# mid-cycle.  For every edit made at rest and every handler: "was it invoked before the next edit" is one more record of the kind judged above
# (Filters!Matches on the declaration and the old / new state): exactly the handlers whose criteria hold.
LOOP_DECLS = {'hA': {'kind': 'update', 'lab': 'eq', 'lab2': 'none', 'val': 'none', 'old': 'none', 'new': 'none', 'when': 'none'},
              'hB': {'kind': 'update', 'lab': 'none', 'lab2': 'none', 'val': 'none', 'old': 'none', 'new': 'none', 'when': 'none'},
              'hC': {'kind': 'update', 'lab': 'none', 'lab2': 'none', 'val': 'none', 'old': 'eq1', 'new': 'eq2', 'when': 'none'},
              'hD': {'kind': 'update', 'lab': 'absent', 'lab2': 'none', 'val': 'none', 'old': 'none', 'new': 'none', 'when': 'none'}}


def loop_case(sc: dict[str, Any]) -> dict[str, Any]:
    import kopf
    from sim.opsim import GROUP, PLURAL, VERSION, Sim, Stall
    sim = Sim(wall_budget=20)
    sim.world.max_steps = 400_000
    try:
        reg = sim.registry()
        calls: list[tuple[float, str]] = []
        failed = {'hA': 0}

        def mk(hid: str):
            async def fn(**_: Any) -> None:
                calls.append((sim.now, hid))
                if hid == 'hA' and sc.get('afails') and failed['hA'] < sc['afails']:
                    failed['hA'] += 1
                    raise kopf.TemporaryError('scripted', delay=sc.get('adelay', 6))
            fn.__name__ = fn.__qualname__ = hid
            return fn
        kopf.on.update(GROUP, VERSION, PLURAL, registry=reg, id='hA', labels={'a': 'x'})(mk('hA'))
        kopf.on.update(GROUP, VERSION, PLURAL, registry=reg, id='hB')(mk('hB'))
        kopf.on.update(GROUP, VERSION, PLURAL, registry=reg, id='hC', field='status.f', old=1, new=2)(mk('hC'))
        kopf.on.update(GROUP, VERSION, PLURAL, registry=reg, id='hD', labels={'a': kopf.ABSENT})(mk('hD'))
        op = sim.operator('op1', reg, sim.settings())
        cur = {'la': sc['la0'], 'f': sc['f0']}
        FV = {1: 1, 2: 2, 3: False}

        def apply(o: dict[str, Any]) -> None:
            labs = o['metadata'].setdefault('labels', {})
            if cur['la'] == '-': labs.pop('a', None)
            else: labs['a'] = cur['la']
            st = o.setdefault('status', {})
            if cur['f']: st['f'] = FV[cur['f']]
            else: st.pop('f', None)
        sim.world.at(1, lambda: sim.create('o1', {'x': 1}, labels=({'a': cur['la']} if cur['la'] != '-' else None),
                                           **({'status': {'f': FV[cur['f']]}} if cur['f'] else {})), 1)
        marks: list[dict[str, Any]] = []

        def edit(what: str, val: Any, rest: bool) -> None:
            old = dict(cur)
            cur['la' if what == 'la' else 'f'] = val
            sim.edit('o1', apply)
            marks.append({'t': sim.now, 'rest': rest, 'old': old, 'new': dict(cur)})
        for (t, what, val, rest) in sc['edits']:
            sim.world.at(t, (lambda what=what, val=val, rest=rest: edit(what, val, rest)), 1)
        stall = False
        try:
            sim.run(sc['end'])
            op.finish()
        except Stall:
            stall = True
        recs = []
        for k, m in enumerate(marks):
            if not m['rest']:
                continue
            t1 = marks[k + 1]['t'] if k + 1 < len(marks) else sc['end']
            for hid, decl in LOOP_DECLS.items():
                recs.append({'kind': 'match', 'decl': decl, 'state': {'reason': 'update', 'la': m['new']['la'], 'lb': '-', 'fo': m['old']['f'], 'fn': m['new']['f']},
                             'invoked': any(hh == hid and m['t'] <= tt < t1 for tt, hh in calls), 'loop': sc['id'], 'edit': k, 'handler': hid})
        return {'id': sc['id'], 'records': recs, 'stall': stall, 'scenario': sc, 'calls': calls}
    finally:
        sim.close()


def loop_scenarios(seed: int, n: int) -> list[dict[str, Any]]:
    rnd = random.Random(f'c15-loop-{seed}')
    out = [{'id': 'loop-crafted-0', 'la0': 'x', 'f0': 1, 'afails': 1, 'adelay': 6,
            'edits': [(10, 'f', 2, True), (13, 'la', 'y', False), (40, 'f', 3, True), (70, 'la', '-', True), (100, 'f', 1, True), (130, 'f', 2, True)], 'end': 160}]
    for i in range(n):
        la, f = rnd.choice(['x', 'x', 'y', '-']), rnd.choice([0, 1, 2])
        edits: list[tuple] = []; t = 10
        cla, cf = la, f
        for _ in range(rnd.randint(3, 7)):
            before = cla
            if rnd.random() < 0.5:
                cla = rnd.choice([v for v in ('x', 'y', '-') if v != cla]); edits.append((t, 'la', cla, True))
            else:
                cf = rnd.choice([v for v in (0, 1, 2, 3) if v != cf]); edits.append((t, 'f', cf, True))
            if rnd.random() < 0.4:      # once more while a failed handler may be asleep: its criteria stop (or start) holding in mid-cycle
                t += rnd.choice([1, 3, 5])      # (never back to the label of the last-handled state: A -> B -> A in mid-cycle is the known family F20 of C03)
                cla = rnd.choice([v for v in ('x', 'y', '-') if v != cla and (v != before or cla == before)]); edits.append((t, 'la', cla, False))
            t += 30
        out.append({'id': f'loop-{seed}-{i}', 'la0': la, 'f0': f, 'afails': rnd.choice([0, 1, 1, 2]), 'adelay': rnd.choice([2, 6, 10]), 'edits': edits, 'end': t + 10})
    return out


def loop_stage(ctx, rep) -> None:
    from concurrent.futures import ProcessPoolExecutor
    scs = loop_scenarios(ctx.seed, 40 if ctx.quick else 800)
    with ProcessPoolExecutor(16) as ex:
        runs = list(ex.map(loop_case, scs, chunksize=2))
    recs = [r for run_ in runs for r in run_['records']]
    bad = records.judge('Rec_Filters', [{k: v for k, v in r.items() if k in ('kind', 'decl', 'state', 'invoked')} for r in recs], rep=rep, shard=25000, name='Rec_Filters[loop]')
    rep.evaluations += len(recs); rep.traces += len(runs)
    for run_ in runs:
        if run_['stall']:
            rep.violation(f'{run_["id"]}: the event loop stalled', payload=run_['scenario'])
        if any(not e[3] for e in run_['scenario']['edits']):
            rep.nontrivial([run_['scenario']['edits'], [(r['handler'], r['edit'], r['invoked']) for r in run_['records']]])
    for i, label in sorted(bad.items()):
        r = recs[i]
        rep.classified(label if label.startswith('F') else '', f'{label}: {r["loop"]}: after the edit #{r["edit"]} made at rest ({r["state"]}) the handler {r["handler"]} '
                       f'was {"" if r["invoked"] else "not "}invoked', payload=r)
    rep.extra['criteria_loop'] = {'runs': len(runs), 'records': len(recs)}
