"""C07 - no change handler on a view older than the own last write.

(A) Handling.tla model-checked exhaustively on the configurations named below (plus negative configurations that must
fail, to show the invariants are not vacuous); (B) seeded random closed-loop scenarios of the profile(s) below run on
the REAL kopf.operator() in the world simulator, every trace judged by TLC against Trace_Handling.tla (all invariants
of the module are evaluated on every state of the explaining behaviour, and time is bound by urgency).

(M) FreshMonitor.tla: the statement itself as a property automaton, evaluated by TLC over runs of the real operator with a
raw-event handler whose result is patched on every event (so every cycle has a non-empty patch), a change handler, foreign
edits and a watch stream that is late by L seconds (views older than the own last PATCH arrive before its echo):
no change handler on a view older than an own patch within the consistency timeout; raw-event handlers see every line at once.
"""
from vf.props import _family


def fresh_case(sc):
    import kopf
    from sim.opsim import GROUP, PLURAL, VERSION, Sim
    sim = Sim(wall_budget=20)
    try:
        sim.srv.keep_bodies.add(PLURAL)
        reg = sim.registry()
        mirror = sc['mirror']
        rec_w = sim.handler('w', kind='event')

        async def w(**kw):
            await rec_w(**kw)
            return {'seen': kw['spec'].get('x')} if mirror else None      # a result is patched into the status: a non-empty patch
        kopf.on.event(GROUP, VERSION, PLURAL, registry=reg, id='w')(w)
        ha = sim.handler('a', list(sc.get('ascript') or []))      # (`ascript`: the change handler fails temporarily a few times: C11's DelayMonitor)
        kopf.on.create(GROUP, VERSION, PLURAL, registry=reg, id='a')(ha)
        kopf.on.update(GROUP, VERSION, PLURAL, registry=reg, id='a')(ha)
        conflict = sc.get('conflict')
        if conflict:
            # `conflict` = t: the object is deleted at t; its (slow) deletion handler is still running when a foreign edit is made (that
            # older view queues up behind); the cycle then sends a merge-patch AND the finalizer's JSON-patch, and another foreign write
            # lands exactly between the two: the JSON-patch is refused (422), the merge-patch was applied -- the barrier is for IT
            kopf.on.delete(GROUP, VERSION, PLURAL, registry=reg, id='a')(sim.handler('a', duration=2, default=('ok', {'bye': 1})))      # (a result: the cycle has a merge-patch)
            hit = {'done': False}

            def cpolicy(req):
                r_ = req.route
                if r_.get('plural') == PLURAL and r_.get('kind') == 'patch' and r_.get('ptype') == 'json' and sim.now >= conflict and not hit['done']:
                    hit['done'] = True
                    if sim.obj('o1') is not None:
                        sim.edit('o1', lambda o: o.setdefault('spec', {}).update(z=1), actor='foreign')
                return None
            sim.srv.policy = cpolicy
            sim.world.at(conflict, lambda: sim.delete('o1') if sim.obj('o1') is not None else None, 1)
            sim.world.at(conflict + 1, lambda: sim.edit('o1', lambda o: o.setdefault('spec', {}).update(y=1), actor='foreign') if sim.obj('o1') is not None else None, 1)
        L = sc['lag']

        def watch_policy(wt, line):
            if wt.res.plural != PLURAL or L == 0:
                return True
            sim.world.at(sim.now + L, lambda wt=wt: wt.release(1), 0)
            return False
        sim.srv.watch_policy = watch_policy
        # `stale` = (t, P, D): at t the object is edited, the stream is cut and its version compacted away, so the operator re-lists;
        # the own PATCH of the cycle that handles the edit takes P seconds to be applied, and the answer to the listing (a snapshot
        # taken BEFORE that patch) takes D > P seconds: a listed view older than the own write arrives while the barrier is up
        stale = sc.get('stale')
        if stale:
            from sim.fakek8s import Plan, ResDef
            others = sim.srv.add_resource(ResDef(GROUP, VERSION, 'others', 'Other'))
            used = {'list': False}

            def policy(req):
                if req.route.get('plural') != PLURAL:
                    return None
                if req.route.get('kind') == 'patch' and stale[0] <= sim.now < stale[0] + 1:
                    return Plan(pre=stale[1])
                if req.route.get('kind') == 'list' and sim.now >= stale[0] and not used['list']:
                    used['list'] = True
                    return Plan(post=stale[2])
                return None
            sim.srv.policy = policy

            def cut():
                sim.set_spec('o1', x=100)
                sim.srv.create(others, 'default', 'bump', {'spec': {}})
                sim.srv.compact(sim.things)
                for wt in [w_ for w_ in sim.srv.watches if w_.res.plural == PLURAL]: wt.end('eof')
            sim.world.at(stale[0], cut, 1)
        tune = {'queueing__idle_timeout': sc['idle']} if sc.get('idle') else {}      # idle workers retire sooner than the barrier lasts
        op = sim.operator('op1', reg, sim.settings(persistence__consistency_timeout=sc['timeout'], watching__reconnect_backoff=1, **tune))
        sim.world.at(1, lambda: sim.create('o1', {'x': 0}), 1)
        for k, t in enumerate(sc['edits'], start=1):
            sim.world.at(t, lambda k=k: sim.set_spec('o1', x=k), 1)
        sim.run(sc['end'])
        events = []
        busy_until = -1
        # a line that arrives while a (slow) handler of the object is running waits for it: per-object processing is serial
        busy: list[tuple[float, float]] = []
        opened: dict[str, float] = {}
        for e in sim.recorder.events:
            if e['ev'] == 'h.enter' and e.get('id') == 'a': opened['a'] = e['t']
            elif e['ev'] == 'h.exit' and e.get('id') == 'a' and 'a' in opened: busy.append((opened.pop('a'), e['t']))
        for e in sim.recorder.events:
            if e['ev'] == 'srv.req' and e.get('kind') == 'patch' and e.get('plural') == PLURAL and e.get('loop') == 'op1' and e.get('code') == 200 and e.get('changed'):
                ann_ = ((e.get('pbody') or {}).get('metadata') or {}).get('annotations') or {} if isinstance(e.get('pbody'), dict) else {}
                events.append({'ev': 'patch', 't': e['t'], 'rv': e['rv_after'], 'lh': bool(ann_.get('kopf.zalando.org/last-handled-configuration'))})
            elif e['ev'] == 'h.enter' and e.get('id') == 'a':
                sc_ = e.get('script')
                events.append({'ev': 'inv', 't': e['t'], 'rv': e.get('rv') or 0, 'retry': e.get('retry') or 0, 'reason': e.get('reason') or '',
                               'k': sc_ if isinstance(sc_, str) else (sc_[0] if sc_ else 'ok'), 'd': 0 if isinstance(sc_, str) or not sc_ or sc_[0] != 'temp' else sc_[1]})
            elif e['ev'] == 'h.enter' and e.get('id') == 'w':
                events.append({'ev': 'winv', 't': e['t'], 'rv': e.get('rv') or 0})
            elif e['ev'] == 'srv.watch.line' and e.get('res') == PLURAL and e.get('loop') == 'op1' and e.get('rv') is not None:
                events.append({'ev': 'line', 't': e['t'], 'rv': e['rv'], 'idle': not any(b0 <= e['t'] <= b1 and b1 > b0 for b0, b1 in busy)})
        # a line finds the worker idle unless the worker is inside the consistency wait / a sleep of an earlier cycle at that instant
        # (the wait is woken by the arrival, so the raw handler still runs in the same instant)
        op.finish()
        return {'id': sc['id'], 'timeout': sc['timeout'], 'events': events, 'scenario': sc}
    finally:
        sim.close()


def fresh_scenarios(seed, n):
    import random
    rnd = random.Random(f'fresh-{seed}')
    out = []
    for k in range(n):
        edits = sorted(rnd.sample(range(3, 40), rnd.randint(1, 8)))
        out.append({'id': f'fresh-{seed}-{k}', 'lag': rnd.choice([0, 1, 1, 2, 3, 6]), 'timeout': rnd.choice([2, 5, 5]), 'mirror': rnd.random() < 0.7,
                    'edits': edits, 'end': 70})
        if k % 8 == 2:          # a 422 between the merge-patch and the JSON-patch of the deleting cycle, an older view queued behind
            r2 = random.Random(f'fresh-conflict-{seed}-{k}')
            tc = r2.randint(6, 40)
            out[-1].update(lag=0, timeout=r2.choice([5, 8]), conflict=tc, edits=[e_ for e_ in edits if e_ < tc - 2], mirror=False)
        if k % 4 == 1:          # the echo is slower than the idle timeout of the workers: the barrier must outlive an idle worker
            r2 = random.Random(f'fresh-idle-{seed}-{k}')
            out[-1].update(idle=r2.choice([1, 2]), lag=r2.choice([3, 4, 6]), timeout=r2.choice([5, 8]))
        if k % 4 == 3:          # a re-listing whose snapshot predates the own patch and is delivered after it
            r2 = random.Random(f'fresh-stale-{seed}-{k}')
            ts = r2.randint(4, 45); P = r2.choice([1, 2]); D = P + r2.choice([1, 2, 3])
            out[-1].update(lag=0, timeout=r2.choice([5, 8]), stale=(ts, P, D), edits=[e_ for e_ in edits if abs(e_ - ts) > 1])
    return out


def judge_fresh(traces, rep):
    import json, os, re, shutil, tempfile
    from vf import tlc
    from vf.evidence import MachineryFailure
    scratch = tempfile.mkdtemp(prefix='vf-fresh-')
    try:
        path = os.path.join(scratch, 'traces.json')
        with open(path, 'w') as f:
            json.dump([{'id': t['id'], 'timeout': t['timeout'], 'events': t['events']} for t in traces], f)
        r = tlc.run('FreshMonitor', cfg_text='SPECIFICATION Spec\nCONSTRAINT Book\nPOSTCONDITION Verdicts\nCHECK_DEADLOCK FALSE\n', workers=1,
                    env={'TRACE_FILE': path}, timeout=1200)
    finally:
        shutil.rmtree(scratch, ignore_errors=True)
    if not r.ok:
        raise MachineryFailure(f'FreshMonitor failed: {r.violated} {r.errors}\n{r.out[-3000:]}')
    rep.add_tlc('FreshMonitor', r)
    got = {int(m.group(1)): m.group(3) for m in re.finditer(r'<<\s*"MONITOR",\s*(\d+),\s*"([^"]*)",\s*"([^"]*)"\s*>>', r.out)}
    if len(got) != len(traces) or 'incomplete' in got.values():
        raise MachineryFailure(f'FreshMonitor: {len(got)} verdicts for {len(traces)} traces')
    return {t['id']: got[i] for i, t in enumerate(traces, start=1)}

PROFILES = "consistency".split(',')
CFGS = "nodoors,restart".split(',')
NEGATIVES = dict(x.split(':') for x in "-".split(',') if ':' in x)
FEATURES = set("inconsistent-view".split(','))


def run(ctx, rep) -> None:
    from vf import handling as H
    rep.rule = ('(A) TLC exhaustive on MC_Handling_{%s}; (B) seeded random scenarios of profile(s) %s on the real operator, '
                'judged by Trace_Handling; non-trivial = the trace shows one of %s; distinct = by abstract trace'
                % (','.join(CFGS), PROFILES, sorted(FEATURES)))
    _family.model_check(rep, CFGS, NEGATIVES, ctx)
    n = 120 if ctx.quick else 2500
    scs = []
    for p in PROFILES:
        scs += H.gen_scenarios(ctx.seed, n // len(PROFILES), p)
    _family.run_traces(rep, scs, '+'.join(PROFILES), nontrivial=lambda f: bool(f & FEATURES))
    from concurrent.futures import ProcessPoolExecutor
    fscs = fresh_scenarios(ctx.seed, 120 if ctx.quick else 2500)
    with ProcessPoolExecutor(16) as ex:
        ftr = list(ex.map(fresh_case, fscs, chunksize=4))
    fv = judge_fresh(ftr, rep)
    rep.evaluations += len(ftr); rep.traces += len(ftr)
    for t in ftr:
        if t['scenario']['lag'] and any(e['ev'] == 'patch' for e in t['events']):
            rep.nontrivial(t['events'])
        if fv[t['id']] != 'ok':
            rep.violation(f'{t["id"]}: {fv[t["id"]]} {t["scenario"]}', payload=t)
