"""C03 - level-triggered convergence across changes, restarts and downtime.

(A) Handling.tla: TerminalConverged (a terminal state of the bounded model is a converged one) on the configurations
without doors, with kills/stops/restarts/relists, and with finalizers; Termination (<>[] no operator step enabled)
under weak fairness; witness configurations show that the three known families of non-convergence (F20, F21, F22)
and F8 (FinalStateSeen) are reachable in the design. (B) seeded random histories (profile `converge`: edits, deletes,
kills, graceful stops, downtimes with edits, failure scripts with finitely many failures) run on the real operator to
quiescence over a long virtual horizon; TLC judges each trace, the final `quiet` event must find the specification in
a Converged state (or in one excused by a known family, reported as KNOWN-FINDING), and the harness counts the
framework's PATCHes in the tail window (must be 0). Crafted histories reproduce the known families on the real code.
"""
from vf import handling as H
from vf.props import _family

FEATURES = {'retry', 'failure', 'kill', 'stop', 'restart-or-relist', 'delete', 'touch', 'unmatched'}


def crafted():
    return [
        # F20: an edit back to the last-handled essence while a retry is pending leaves progress records for good,
        # and the next change is not seen by the handler that had already succeeded
        {'id': 'known-F20', 'handlers': {'a': H.hdl(['create', 'update'], ['ok', 'ok', 'ok']), 'b': H.hdl(['create', 'update'], ['ok', ('temp', 5), 'ok'])},
         'lifecycle': 'all', 'env': [(10, 1, 'edit', 2), (12, 1, 'edit', 1)], 'end': 90, 'tail_from': 40},
        # F22: the object stops matching in the middle of a cycle: the records stay
        # F8: an edit lands while b waits for its retry; a has completed against the older state; the cycle closes on the newer one
        {'id': 'known-F8', 'handlers': {'a': H.hdl(['create', 'update'], ['ok']), 'b': H.hdl(['create', 'update'], [('temp', 3), 'ok'])},
         'lifecycle': 'asap', 'env': [(2, 1, 'edit', 2)], 'end': 90, 'tail_from': 40},
        # the stream breaks and the operator re-lists while the worker sleeps for the handler's delay; the object is unchanged: the listed
        # state wakes the sleeper and is processed like any other event, the handler is retried in time
        *[{'id': f'relist-while-sleeping-{d}-{tr}', 'handlers': {'a': H.hdl(['create', 'update'], [('temp', d), 'ok'])},
           'lifecycle': 'asap', 'env': [(tr, 1, 'relist')], 'end': 90, 'tail_from': 40} for d, tr in ((6, 3), (4, 2), (8, 5), (6, 6))],
        # a raw-event handler whose result does not change: the cycle's patch is a no-op (F35: the retry of a sibling change handler was
        # not slept for; F36: the version such a patch returns was expected for good, an edit made meanwhile was not handled)
        *[{'id': f'noop-patch-retry-{d}-{int(ss)}', 'handlers': {'a': H.hdl(['create', 'update'], [('temp', d), 'ok'])}, 'res': {'ssub': ss, 'ev': ev},
           'lifecycle': 'asap', 'env': [], 'end': 60, 'tail_from': 30} for d, ss, ev in ((3, False, True), (3, True, 'const'), (7, False, 'const'))],
        *[{'id': f'noop-patch-edit-{te}-{int(ss)}', 'handlers': {'a': H.hdl(['create', 'update'], ['ok', 'ok', 'ok'])}, 'res': {'ssub': ss, 'ev': 'const'},
           'lifecycle': 'asap', 'env': [(te, 1, 'edit', 2)], 'end': 60, 'tail_from': 30} for te, ss in ((3, False), (2, True), (5, False), (9, False))],
        {'id': 'known-F22', 'handlers': {'a': H.hdl(['create', 'update'], [('temp', 5), 'ok'])},
         'lifecycle': 'asap', 'env': [(3, 1, 'toggle')], 'end': 90, 'tail_from': 40},
    ]


def run(ctx, rep) -> None:
    rep.rule = ('(A) TLC exhaustive on MC_Handling_{nodoors,restart,live,res_ev} + witness configs; (B) seeded random histories of profile '
                '`converge` run to quiescence on the real operator, judged by Trace_Handling (final state Converged unless excused by a '
                f'known family) + no PATCH in the tail window; non-trivial = the trace shows one of {sorted(FEATURES)}')
    _family.model_check(rep, ['nodoors', 'restart'] + ([] if ctx.quick else ['finalizer']) + ['live', 'res_ev'],
                        {'neg_f8': 'FinalStateSeen', 'neg_f20': 'Witness_F20', 'neg_f21': 'Witness_F21', 'neg_f22': 'Witness_F22',
                         # the code before the fixes F35 / F36 (NoopSleeps <- FALSE, NoopExpects <- TRUE): handling does not terminate
                         'res_ev_f35': 'TerminalConverged', 'res_ev_f36': 'TerminalConverged'}, ctx)
    scs = crafted() + H.gen_scenarios(ctx.seed, 150 if ctx.quick else 3000, 'converge')
    # histories with late echoes of the own patch and with deletions under foreign finalizers run to quiescence, too
    scs += H.gen_scenarios(ctx.seed, 40 if ctx.quick else 1500, 'consistency') + H.gen_scenarios(ctx.seed, 40 if ctx.quick else 1500, 'finalizer')
    # sub-handlers (their records are purged with the parent's cycle -- also when the parent gives up before every one of them has run)
    scs += H.gen_scenarios(ctx.seed, 60 if ctx.quick else 1500, 'subs')
    scs += [sc_ for sc_ in H.gen_scenarios(0, 1600, 'finalizer') if sc_['id'] == 'finalizer-0-1507']        # the history in which F31 was found
    scs += [sc_ for sc_ in H.gen_scenarios(4, 40, 'consistency') if sc_['id'] == 'consistency-4-32']          # ... and F21
    tl = H.tlc_scenarios(ctx.seed + 2, 40 if ctx.quick else 800)     # histories and handler outcomes drawn by TLC (-simulate on Sim_Handling)
    rep.extra['tlc_generated_histories'] = len(tl)
    scs += tl
    traces, verdicts = _family.run_traces(rep, scs, 'converge', nontrivial=lambda f: bool(f & FEATURES))
    tail = 0
    for t in traces:
        v = verdicts[t['id']]
        if v['verdict'] != 'accepted':
            continue
        if v['excuse'] == 'unconverged':
            rep.violation(f'{t["id"]}: final state not converged (no known family): {t["final"]}', payload=t)
        elif v['excuse'] != 'none':
            rep.classified(v['excuse'], f'{t["id"]}: final state not converged: {t["final"]}', payload=t)
        if t['patches_tail']:
            tail += 1
            rep.violation(f'{t["id"]}: {t["patches_tail"]} PATCH request(s) in the tail window: the framework keeps writing', payload=t)
    rep.extra['traces_with_tail_writes'] = tail
    # sub-handlers of sub-handlers (two levels and a sibling leaf), failing leaves, edits at rest, a restart with an edit in between: at rest no
    # record of any level remains, the last-handled state is the final one, every handler of every level has succeeded on it (ConvergeMonitor.tla)
    from vf import nested
    nested.stage(ctx, rep, 'C03')
    # convergence with user transformations in play (conflicts carried forward, failing cycles): the last change is handled
    from concurrent.futures import ProcessPoolExecutor
    from vf import records
    from vf.props import C08
    lscs = [{'id': f'loop-{c}-{f}-{len(e)}', 'conflicts': c, 'fail_after_conflict': f, 'edits': e, 'end': 80}
            for c in (0, 1, 2) for f in (0, 1) for e in ([10], [10, 11], [10, 25])]
    with ProcessPoolExecutor(16) as ex:
        lruns = list(ex.map(C08.loop_case, lscs))
    lbad = records.judge('Rec_Patching', [{k: v for k, v in r.items() if k != 'case'} for r in lruns], rep=rep, name='Rec_Patching[loop]')
    rep.evaluations += len(lruns); rep.traces += len(lruns)
    for i, label in sorted(lbad.items()):
        rep.violation(f'{label}: {lruns[i]["case"]} handled={lruns[i]["handled"]} tags={lruns[i]["tags"]}', payload=lruns[i])
