"""C17 - in-memory indices mirror the cluster; handling waits for the initial index.

(B) the REAL operator with two @kopf.index handlers (one label-filtered, one not) over three objects with colliding
    index keys; scripted results per call (mapping, scalar, None, temporary / permanent / arbitrary error); random
    histories of adds, edits, label toggles and deletes. After every processed event an @kopf.on.event handler dumps the
    indices through the read-only kwarg views. The recorded steps are replayed by TLC through the reference state
    machine Indexing.tla, which predicts which index handlers run and the full contents of every index after each step.
    Gate: operators started over pre-existing objects of two indexed kinds whose listings are delayed differently; no
    change handler may start before both kinds are listed and every listed object is indexed (Indexing!GateVerdict);
    worker_limit below the number of listed objects is the known startup deadlock F16.
"""
from __future__ import annotations

import json
import os
import random
import re
import shutil
import tempfile
from concurrent.futures import ProcessPoolExecutor
from typing import Any

from vf import tlc
from vf.evidence import MachineryFailure

IDX = ['byk', 'all']
OBJS = ['a', 'b', 'c']


def run_scenario(sc: dict[str, Any]) -> dict[str, Any]:
    import kopf
    from sim.fakek8s import Plan, ResDef
    from sim.opsim import GROUP, PLURAL, VERSION, Sim, Stall
    sim = Sim(wall_budget=15)
    sim.world.max_steps = 300_000
    try:
        reg = sim.registry()
        table = sc['table']                # {f"{name}:{x}:{idx}": [k, key, val, d]}
        ran: dict[str, list[str]] = {}          # per incarnation (uid): the index handlers invoked since its last dump
        incarnation: dict[str, str] = {}        # uid -> "a1", "a2", ...: a re-created object is another object under the same name
        per_name: dict[str, int] = {}

        def inc(name, uid):
            if uid not in incarnation:
                per_name[name] = per_name.get(name, 0) + 1
                incarnation[uid] = f'{name}{per_name[name]}'
            return incarnation[uid]
        steps: list[dict[str, Any]] = []
        first_change = {'t': 0, 'n': 0}
        index_times: dict[str, float] = {}

        def mk_index(iid):
            async def fn(name, spec, uid, **_):
                ran.setdefault(uid, []).append(iid)
                index_times.setdefault(name, sim.now)
                k, key, val, d = table.get(f'{name}:{spec.get("x")}:{iid}', ['dict', 'k1', 0, 0])
                if k == 'dict': return {key: val}
                if k == 'scalar': return val
                if k == 'none': return None
                if k == 'temp': raise kopf.TemporaryError('scripted', delay=d)
                if k == 'perm': raise kopf.PermanentError('scripted')
                raise ValueError('scripted')
            fn.__name__ = fn.__qualname__ = iid
            return fn
        kopf.index(GROUP, VERSION, PLURAL, registry=reg, id='byk', labels={'ix': 'yes'})(mk_index('byk'))
        kopf.index(GROUP, VERSION, PLURAL, registry=reg, id='all')(mk_index('all'))

        async def dump(name, spec, body, type, byk, all, uid, **_):
            if name not in OBJS:
                return
            import asyncio
            d = {'byk': {('<none>' if k is None else str(k)): sorted(list(v)) for k, v in byk.items()},
                 'all': {('<none>' if k is None else str(k)): sorted(list(v)) for k, v in all.items()}}
            labels = body.get('metadata', {}).get('labels', {}) or {}
            x = spec.get('x')
            none = ['dict', 'k1', 0, 0]
            steps.append({'o': inc(name, uid), 'type': type or 'NONE', 't': int(sim.now), 'match': {'byk': labels.get('ix') == 'yes', 'all': True},
                          'out': {i: dict(zip(['k', 'key', 'val', 'd'], table.get(f'{name}:{x}:{i}', none))) for i in IDX},
                          'ran': list(ran.get(uid, [])), 'dump': d})
            ran[uid] = []
            slow = sc.get('slow')
            if slow and slow['o'] == name and slow['x'] == x:
                await asyncio.sleep(slow['d'])        # this object's worker is busy for a while: its next events queue up behind
        kopf.on.event(GROUP, VERSION, PLURAL, registry=reg, id='dump')(dump)

        async def on_create(**_):
            if not first_change['t']: first_change['t'] = sim.now or 0.5
            first_change['n'] += 1
        kopf.on.create(GROUP, VERSION, PLURAL, registry=reg, id='oncreate')(on_create)
        gate = sc.get('gate')
        listed_at: dict[str, float] = {}
        if gate:
            widgets = sim.srv.add_resource(ResDef(GROUP, VERSION, 'widgets', 'Widget', namespaced=True))

            async def widx(name, **_):
                index_times.setdefault('w:' + name, sim.now); return {'w': name}
            kopf.index(GROUP, VERSION, 'widgets', registry=reg, id='widx')(widx)
            nss = gate.get('namespaces')        # the operator serves these namespaces one by one: a watcher (and a listing) per namespace
            if nss:
                for ns in nss: sim.srv.create(sim.srv.find('namespaces'), None, ns, {})
            for k_, nm in enumerate(gate['things']): sim.create(nm, {'x': 1}, labels={'ix': 'yes'}, **({'ns': nss[k_ % len(nss)]} if nss else {}))
            for nm in gate['widgets']: sim.create(nm, {'x': 1}, res=widgets)
            if gate.get('gadgets'):      # a handled kind WITHOUT an index of its own: its handlers wait for the indices of the others, too
                gadgets = sim.srv.add_resource(ResDef(GROUP, VERSION, 'gadgets', 'Gadget', namespaced=True))
                kopf.on.create(GROUP, VERSION, 'gadgets', registry=reg, id='oncreate_g')(on_create)
                for nm in gate['gadgets']: sim.create(nm, {'x': 1}, res=gadgets)

            def policy(req):
                if req.route.get('kind') == 'list' and req.route.get('plural') in ('things', 'widgets'):
                    d = gate['delay'].get(f"{req.route['plural']}@{req.route.get('ns')}", gate['delay'].get(req.route['plural'], 0))
                    return Plan(pre=d)
                return None
            sim.srv.policy = policy
        settings = sim.settings(queueing__worker_limit=(gate or {}).get('limit') or None)
        op = sim.operator('op1', reg, settings, **(dict(clusterwide=False, namespaces=list(gate['namespaces'])) if gate and gate.get('namespaces') else {}))
        x = {o: 0 for o in OBJS}

        def do(opn, o):
            cur = sim.obj(o)
            if opn == 'add' and cur is None:
                x[o] += 1; sim.create(o, {'x': x[o]}, labels={'ix': 'yes'})
            elif opn == 'edit' and cur is not None:
                x[o] += 1; sim.set_spec(o, x=x[o])
            elif opn == 'toggle' and cur is not None:
                x[o] += 1
                on = cur['metadata'].get('labels', {}).get('ix') == 'yes'
                sim.edit(o, lambda b: (b['spec'].update(x=x[o]), b['metadata'].setdefault('labels', {}).update(ix='no' if on else 'yes')))
            elif opn == 'delete' and cur is not None:
                sim.delete(o)
            elif opn == 'recreate' and cur is not None:        # deleted and created again under the same name at once: another object
                sim.delete(o); x[o] += 1; sim.create(o, {'x': x[o]}, labels={'ix': 'yes'})
        for (t, opn, o) in sc.get('env', []):
            sim.world.at(t, (lambda opn=opn, o=o: do(opn, o)), 1)
        stall = False
        try:
            sim.run(sc['end'])
            op.finish()
        except Stall:
            stall = True
        g = {'listed': 0, 'indexed': 0, 'first': 0, 'expect_handled': False, 'limit': 0, 'nobjects': 0}
        if gate:
            for e in sim.recorder.events:
                if e['ev'] == 'srv.req' and e.get('kind') == 'list' and e.get('plural') in ('things', 'widgets'):
                    listed_at.setdefault(e['plural'], e['t'])
            initial = set(gate['things']) | {'w:' + w for w in gate['widgets']}
            g = {'listed': int(max(listed_at.values()) * 1000) if listed_at else 0,
                 'indexed': int(max([v for k, v in index_times.items() if k in initial] or [0]) * 1000),
                 'first': int(first_change['t'] * 1000), 'expect_handled': True, 'limit': gate.get('limit') or 0,
                 'nobjects': len(gate['things']) + len(gate['widgets'])}
        from vf import inventory
        return {'id': sc['id'], 'steps': steps, 'gate': g, 'stall': stall, 'scenario': sc, 'mem': inventory.traces_of(sim.recorder.events, sc['id'])}
    finally:
        sim.close()


def gen_scenarios(seed: int, n: int) -> list[dict[str, Any]]:
    rnd = random.Random(f'index-{seed}')
    out = []
    for i in range(n):
        table = {}
        env = []; t = 1
        for _ in range(rnd.randint(3, 14)):
            t += rnd.choice([0, 1, 1, 2, 4])
            env.append((t, rnd.choice(['add', 'add', 'edit', 'edit', 'edit', 'toggle', 'delete']), rnd.choice(OBJS)))
        for o in OBJS:
            for xx in range(1, 16):
                for iid in IDX:
                    k = rnd.choices(['dict', 'scalar', 'none', 'temp', 'perm', 'exc'], [10, 2, 2, 2, 1, 2])[0]
                    table[f'{o}:{xx}:{iid}'] = [k, rnd.choice(['k1', 'k2']), xx * 10 + OBJS.index(o), rnd.choice([1, 3]) if k == 'temp' else 0]
        out.append({'id': f'index-{seed}-{i}', 'table': table, 'env': env, 'end': t + 20})
        if i % 4 == 1:      # an object is re-created under its name while the worker of the old one is still busy: DELETED(old) after ADDED(new)
            r2 = random.Random(f'index-re-{seed}-{i}')
            o = r2.choice(OBJS); t0 = r2.randint(2, 6)
            out[-1]['env'] = sorted([e_ for e_ in env if not (e_[2] == o and e_[0] <= t0 + 6)] + [(1, 'add', o), (t0, 'edit', o), (t0 + 1, 'recreate', o)]
                                    + ([(t0 + 2, 'edit', o)] if r2.random() < 0.5 else []), key=lambda e_: e_[0])
            out[-1]['slow'] = {'o': o, 'x': 2, 'd': r2.choice([3, 5])}
    return out


def gate_scenarios() -> list[dict[str, Any]]:
    out = []
    for dt, dw, limit in [(0, 3, 0), (3, 0, 0), (2, 5, 0), (0, 0, 0), (1, 4, 3), (0, 3, 1), (0, 0, 2)]:
        for late in (12, 2):      # a new object arriving on the watch after / while the other kind is still being listed
            out.append({'id': f'gate-{dt}-{dw}-{limit}-{late}', 'table': {}, 'env': [(late, 'add', 'c')], 'end': 40,
                        'gate': {'things': ['a', 'b'], 'widgets': ['w1'], 'delay': {'things': dt, 'widgets': dw}, 'limit': limit}})
        if limit == 0:
            # the operator serves two namespaces: the listing of the indexed kind in one namespace ends long before the other's
            out.append({'id': f'gate-{dt}-{dw}-{limit}-two-namespaces', 'table': {}, 'env': [], 'end': 40,
                        'gate': {'things': ['a', 'b'], 'widgets': [], 'namespaces': ['ns1', 'ns2'],
                                 'delay': {'things@ns1': dt, 'things@ns2': dw + 2, 'widgets': 0}, 'limit': 0}})
            out.append({'id': f'gate-{dt}-{dw}-{limit}-unindexed-kind', 'table': {}, 'env': [], 'end': 40,
                        'gate': {'things': ['a', 'b'], 'widgets': ['w1'], 'gadgets': ['g1'], 'delay': {'things': dt, 'widgets': dw}, 'limit': limit}})
    return out


_RE = re.compile(r'<<\s*"MONITOR",\s*(\d+),\s*"([^"]*)",\s*"([^"]*)"\s*>>')


def judge(traces, rep) -> dict[str, str]:
    scratch = tempfile.mkdtemp(prefix='vf-ix-')
    try:
        path = os.path.join(scratch, 'traces.json')
        with open(path, 'w') as f:
            json.dump([{'id': t['id'], 'steps': t['steps'], 'gate': t['gate']} for t in traces], f)
        objs = sorted({s_['o'] for t in traces for s_ in t['steps']} | {'a1'})
        cfg = ('SPECIFICATION Spec\nCONSTANTS\n  Idx = {"byk", "all"}\n  Objs = {%s}\nCONSTRAINT Book\nPOSTCONDITION Verdicts\nCHECK_DEADLOCK FALSE\n'
               % ', '.join('"%s"' % o for o in objs))
        r = tlc.run('Indexing', cfg_text=cfg, workers=1, env={'TRACE_FILE': path}, timeout=1800)
    finally:
        shutil.rmtree(scratch, ignore_errors=True)
    if not r.ok:
        raise MachineryFailure(f'Indexing failed: {r.violated} {r.errors}\n{r.out[-3000:]}')
    rep.add_tlc('Indexing (trace replay)', r)
    got = {int(m.group(1)): m.group(3) for m in _RE.finditer(r.out)}
    if len(got) != len(traces) or 'incomplete' in got.values():
        raise MachineryFailure(f'Indexing: {len(got)} verdicts for {len(traces)} traces\n{r.out[-1500:]}')
    return {t['id']: got[i] for i, t in enumerate(traces, start=1)}


def run(ctx, rep) -> None:
    rep.rule = ('random histories over 3 objects x 2 indices with scripted results, replayed by TLC through Indexing.tla (handlers that '
                'run + full index contents after every step); gate scenarios with delayed listings of two indexed kinds; non-trivial = a '
                'trace with a key collision, a discard (error / mismatch / delete) or a delayed listing')
    # the readiness gate with the worker limit as a design-level model: handlers only after the initial index, the startup
    # terminates; the witness configuration (limit below the number of listed objects) deadlocks: the known family F16
    from vf import tlc
    from vf.evidence import MachineryFailure
    for c in ('pos', 'pos3'):
        r = tlc.run('Gate', f'MC_Gate_{c}.cfg')
        rep.add_tlc(f'MC_Gate_{c}', r)
        if not r.ok:
            rep.violation(f'Gate design check {c}: {r.violated} {r.errors[:1]}', files={'tlc.out': r.out[-100000:]})
    r = tlc.run('Gate', 'MC_Gate_f16.cfg')
    if r.ok:
        raise MachineryFailure('witness configuration MC_Gate_f16 (limit 2, 3 objects) did not deadlock')
    rep.extra['witness_config'] = 'MC_Gate_f16: with a worker limit below the number of listed objects AllHandled is violated (F16)'
    scs = gen_scenarios(ctx.seed, 150 if ctx.quick else 4000) + gate_scenarios()
    with ProcessPoolExecutor(16) as ex:
        traces = list(ex.map(run_scenario, scs, chunksize=4))
    verdicts = judge(traces, rep)
    rep.evaluations += len(traces); rep.traces += len(traces)
    rep.states = max(rep.states, 1); rep.transitions = max(rep.transitions, 1)
    for t in traces:
        if t['scenario'].get('gate') or any(s['type'] == 'DELETED' or s['out'][i]['k'] in ('temp', 'perm') for s in t['steps'] for i in IDX):
            rep.nontrivial([t['steps'], t['gate']])
        v = verdicts[t['id']]
        if t['stall']:
            rep.violation(f'{t["id"]}: event loop stalled', payload=t)
        elif v != 'ok':
            rep.classified(v if v == 'F16' else '', f'{t["id"]}: {v}', payload={k: t[k] for k in ('id', 'gate', 'scenario')})
    rep.sample({'steps': traces[0]['steps'][:4]}); rep.sample({'gate': traces[-3]['gate'], 'scenario': traces[-3]['scenario']['gate']})
    # what the operator remembered about the objects (several of them, some re-created under their names): one memory per uid, its own
    # indexing memory, forgotten with the DELETED event -- Inventory.tla
    from vf import inventory, tlc as _tlc
    r_ = _tlc.run('MC_Inventory', 'MC_Inventory.cfg'); rep.add_tlc('MC_Inventory', r_)
    if not r_.ok:
        rep.violation(f'Inventory.tla: {r_.violated}')
    mts = [m for t in traces for m in t.get('mem', [])]
    mv = inventory.judge(mts, rep)
    rep.evaluations += len(mts); rep.traces += len(mts)
    for m in mts:
        if len({e['uid'] for e in m['events']}) > 2:
            rep.nontrivial([(e['ev'], e['uid']) for e in m['events']])
        if mv.get(m['id'], 'accepted') != 'accepted':
            rep.violation(f'{m["id"]}: the memories of the operator are not a behaviour of Inventory.tla: {mv[m["id"]]}', payload=m)
    rep.extra['inventory_traces'] = len(mts)
    # the readiness gate is a ToggleSet: the real aiotoggles classes (and aiotime.sleep) against Kits.tla
    from vf import kits
    kits.stage(ctx, rep, 'the readiness gate (aiotoggles)')
