"""C13 - peering: lower-priority operators pause, exactly the top one is active.

(A) Peering.tla / MC_Peering: 2-3 operators, one peering object, every order of starts, graceful exits, kills and foreign
    record writes, stale snapshots in the operators' queues: RenewsInTime, WithdrawsOnExit (invariants), ExactlyTop /
    EventuallyStable and CleansDead (liveness under fairness); the negative configuration (keep-alive period = lifetime)
    must violate RenewsInTime; witness configurations reach the known families F26 and F27.
(B) 1-3 REAL operators, each in its own virtual-time loop, share a ClusterKopfPeering object and a handled resource (with
    daemons) in the fake API; starts, stops, kills, foreign records (live, dead, without lifetime, without lastseen, with
    unknown fields, removal), request latency. Every PATCH of the peering object, every pause decision (peer.eval hook),
    list/watch requests, handler invocations and daemon instances are validated by TLC against Trace_Peering.tla: the
    behaviour must be one of Peering.tla (contents and instants of every write, the dead/higher/same split of every
    evaluation), with the invariants true in every state and the C13/C19 pause clauses on every step.
(D) schedules of starts / graceful exits / kills drawn by TLC itself (`-simulate` on Sim_Peering.tla, a paced MC_Peering) are
    replayed into the real operators and validated like (B): the specification chooses the behaviour, the code must follow.
(C) one real operator serving several namespaces with a namespaced peering in each; foreign records block and free single
    peerings, namespaces disappear and come back; PauseSet.tla (a property automaton in TLC) requires at every rest point
    that the operator's streams are open iff no peering that is still served reports a conflict.
"""
from __future__ import annotations

import logging
from concurrent.futures import ProcessPoolExecutor

from vf import peering as P
from vf import tlc
from vf.evidence import MachineryFailure

QUICK_CFGS = ['q', 'q_tie', 'q_ext']
THOROUGH_CFGS = ['pos', 'tie', 'ext']
NEGATIVES = {'neg_period': 'RenewsInTime', 'neg_f26': 'NoLateTouch', 'neg_f27': 'NoSelfClean'}


def run(ctx, rep) -> None:
    logging.disable(logging.CRITICAL)
    rep.rule = ('(A) TLC exhaustive on MC_Peering (3 positive configurations incl. liveness, 3 negative/witness ones); (B) seeded-random and '
                'crafted multi-operator executions of the real code validated by TLC against Trace_Peering; non-trivial = a trace in which '
                'some operator was paused at least once')
    for c in (QUICK_CFGS if ctx.quick else QUICK_CFGS + THOROUGH_CFGS):
        r = tlc.run('MC_Peering', f'MC_Peering_{c}.cfg', timeout=3000)
        rep.add_tlc(f'MC_Peering_{c}', r)
        if not r.ok:
            rep.violation(f'Peering design check {c}: {r.violated} {r.errors[:1]}', files={'tlc.out': r.out[-100000:]})
    for c, inv in NEGATIVES.items():
        r = tlc.run('MC_Peering', f'MC_Peering_{c}.cfg', timeout=600)
        if r.ok or ('invariant', inv) not in r.violated:
            raise MachineryFailure(f'negative configuration MC_Peering_{c} did not violate {inv}: {r.violated}')
    rep.extra['negative_configs'] = {c: f'{inv} violated, as required' for c, inv in NEGATIVES.items()}
    # (D) schedules drawn by TLC itself (-simulate on Sim_Peering) are replayed into the real operators, too
    tlcs = P.tlc_scenarios(ctx.seed + 1, 40 if ctx.quick else 600)
    rep.extra['tlc_generated_schedules'] = len(tlcs)
    scs = P.crafted() + tlcs + P.gen_scenarios(ctx.seed, 150 if ctx.quick else 3000)
    with ProcessPoolExecutor(16) as ex:
        traces = list(ex.map(P.run_scenario, scs, chunksize=2))
    verdicts = {}
    for k in range(0, len(traces), 400):
        verdicts.update(P.judge(traces[k:k + 400], rep))
    rep.evaluations += len(traces); rep.traces += len(traces)
    for t in traces:
        if any(e['ev'] == 'eval' and e['paused'] for e in t['events']):
            rep.nontrivial([{k: v for k, v in e.items() if k != 'after'} for e in t['events']])
        v = verdicts[t['id']]['verdict']
        if t['stall']:
            rep.violation(f'{t["id"]}: event loop stalled', payload=t)
        elif v != 'ok':
            rep.classified(v if v in ('F26', 'F27') else '', f'{t["id"]}: {v}', payload=t)
    # several peerings at once (one per served namespace): the operator-wide pause is the OR over the served ones
    dscs = P.gen_dims(ctx.seed, 40 if ctx.quick else 800)
    with ProcessPoolExecutor(16) as ex:
        dtraces = list(ex.map(P.run_dims, dscs, chunksize=2))
    dv = P.judge_dims(dtraces, rep)
    rep.evaluations += len(dtraces); rep.traces += len(dtraces)
    for t in dtraces:
        if any(e['ev'] == 'eval' and e['paused'] for e in t['events']):
            rep.nontrivial(t['events'])
        if t['stall']:
            rep.violation(f'{t["id"]}: event loop stalled', payload=t)
        elif dv[t['id']] != 'ok':
            rep.violation(f'{t["id"]}: {dv[t["id"]]}', payload=t)
    # "paused -- watch streams closed ... resumes": the watcher tasks of the handled kind in all the runs above, step by step against
    # Streaming.tla (the stream is closed in the instant the pause reaches the task, nothing is requested while paused, after the pause
    # the task backs off and starts over with a listing)
    from vf import streaming
    segs = [s_ for t in traces + dtraces for s_ in t.get('steps', []) if s_['bindable'] and s_['conf']]
    sv = streaming.judge(segs, rep)
    rep.evaluations += len(segs); rep.traces += len(segs)
    rep.extra['streaming_segments'] = len(segs)
    for s_ in segs:
        if any(e['ev'] == 'pause' for e in s_['events']):
            rep.nontrivial(s_['events'])
        if sv[s_['id']]['verdict'] != 'accepted':
            rep.violation(f'{s_["id"]}: watcher task is not a behaviour of Streaming.tla: {sv[s_["id"]]["verdict"]}', payload=s_)
    rep.sample({'scenario': traces[3]['scenario'], 'events_head': traces[3]['events'][:10]})
    rep.sample(traces[2]['events'][-4:])
