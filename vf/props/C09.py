"""C09 - daemon/timer lifecycle: one instance, started on match, stopped in stages.

(A) Daemons.tla (a transcription of process_spawning_cause / spawn_daemons / match_daemons / stop_daemons / _runner for
    one object and one daemon, reactions obey / needs-cancel / ignores) model-checked: SpawnOnlyWhenFree,
    NoRespawnAfterOwnExit, FinalizerHeldWhileAlive, CancelNotBeforeBackoff hold; the witness configurations show the known
    families F5 (AskedOnDisappear) and F18 (StartOnMatch, StopDriven) in the design itself.
(B) the REAL operator with 1-2 daemons (+ a timer) per object, scripted reactions (obeys the flag after d, needs
    cancellation, swallows cancellation, exits on its own), cancellation_backoff/timeout combinations, and random
    histories of label toggles, edits, graceful deletion, forced finalizer removal and operator exit, in virtual time.
    The recorded execution (object states, processed views, enter / flag seen / cancel / exit of the user functions,
    finalizer releases, watchdog) is judged by the property automaton DaemonMonitor.tla in TLC: at most one instance,
    no restart after an own exit, no respawn before the previous instance ended, flag at the first processing of a
    deleting / mismatching view, cancel not before the backoff, finalizer not released under a live daemon before
    backoff+timeout, every matching object has a live instance at rest, never stalls.
(C) Spawning.tla, the implementation-shaped model (one action per code section of process_spawning_cause / stop_daemons /
    _runner / daemon_killer's exit branch / apply), model-checked (safety for 8 + 6 configurations, the bounded completion
    of a deletion for 96 timed ones, negative and witness configurations) and bound to the SAME executions by step
    conformance (Trace_Spawning.tla): a spawn, a stop flag, a cancellation, a write of the finalizer, a sleep or a touch
    that the specification does not make in that state at that instant is a rejection. Every fourth history runs the operator
    in a cluster peering and pauses it by a foreign record of a higher priority (the pausing branch of the daemon killer).
"""
from concurrent.futures import ProcessPoolExecutor

from vf import daemons as D
from vf import timers as T
from vf import tlc
from vf.evidence import MachineryFailure


def run(ctx, rep) -> None:
    rep.rule = ('(A) TLC exhaustive on Daemons (3 reactions) + witness configs; (B) seeded random daemon histories on the real operator '
                'judged by DaemonMonitor; non-trivial = a trace in which a stop flag was seen, a cancellation happened or an instance '
                'was re-spawned; distinct by abstract trace')
    for c in ['pos', 'pos_cancel', 'pos_ignore']:
        r = tlc.run('Daemons', f'MC_Daemons_{c}.cfg')
        rep.add_tlc(f'MC_Daemons_{c}', r)
        if not r.ok:
            rep.violation(f'Daemons design check {c}: {r.violated}', files={'tlc.out': r.out[-100000:]})
    neg = {}
    for c, inv in [('neg_f5', 'AskedOnDisappear'), ('neg_f18', 'StartOnMatch'), ('neg_f18b', 'StopDriven')]:
        r = tlc.run('Daemons', f'MC_Daemons_{c}.cfg')
        rep.add_tlc(f'MC_Daemons_{c} (witness)', r)
        if r.ok:
            raise MachineryFailure(f'witness configuration {c} should violate {inv}')
        neg[c] = f'{inv} violated in {len(r.trace)} steps (known family)'
    rep.extra['witness_configs'] = neg
    # Spawning.tla: the implementation-shaped model of the same machinery (stages of stop_daemons by the age of the flag, instant
    # exits, the exiting killer, apply's patch | sleep | touch), bound to the code by Trace_Spawning below
    for c in ['q', 'exit', 'timed', 'pause'] + ([] if ctx.quick else ['live']):
        r = tlc.run('MC_Spawning', f'MC_Spawning_{c}.cfg', timeout=3000)
        rep.add_tlc(f'MC_Spawning_{c}', r)
        if not r.ok:
            rep.violation(f'Spawning design check {c}: {r.violated} {r.errors[:1]}', files={'tlc.out': r.out[-100000:]})
    sneg = {}
    for c, inv in [('neg_stuck', 'StuckInTime'), ('neg_tight', 'TooTight'), ('f5', 'NoF5'), ('f18', 'NoF18'), ('f33', 'NoF33')]:
        r = tlc.run('MC_Spawning', f'MC_Spawning_{c}.cfg', timeout=900)
        if r.ok or ('invariant', inv) not in r.violated:
            raise MachineryFailure(f'configuration MC_Spawning_{c} should violate {inv}: {r.violated}')
        sneg[c] = f'{inv} violated, as required'
    rep.extra['spawning_negative_and_witness_configs'] = sneg
    scs = D.crafted() + D.gen_scenarios(ctx.seed, 200 if ctx.quick else 5000)
    # leg C: configurations and histories drawn by TLC itself (-simulate on Sim_Spawning) replayed into the real operator
    tl = D.tlc_scenarios(ctx.seed + 1, 60 if ctx.quick else 600)
    rep.extra['tlc_generated_daemon_histories'] = len(tl)
    scs += tl
    # idle-only timers that are stopped after their first run (the F1 stall, fixed in b6c0de9) and other timer stops
    tscs = [s for s in T.gen_scenarios(ctx.seed + 7, 400 if ctx.quick else 4000) if s['delete_at'] is not None][:60 if ctx.quick else 1200]
    with ProcessPoolExecutor(16) as ex:
        traces = list(ex.map(D.run_scenario, scs, chunksize=4))
        ttraces = list(ex.map(T.run_scenario, tscs, chunksize=4))
    verdicts = D.judge(traces, rep)
    rep.evaluations += len(traces) + len(ttraces); rep.traces += len(traces) + len(ttraces)
    for t in traces:
        evs = {e['ev'] for e in t['events']}
        if evs & {'flagseen', 'cancel'} or sum(1 for e in t['events'] if e['ev'] == 'enter') > len(t['scenario']['handlers']):
            rep.nontrivial([t['conf'], [{k: v for k, v in e.items() if k != 't'} for e in t['events']]])
        v = verdicts[t['id']]
        if v == 'ok':
            continue
        rep.classified(v if v in ('F5', 'F18', 'F33') else '', f'{t["id"]}: {v}', payload=t)
    # step conformance: the same executions must be behaviours of Spawning.tla (every spawn, flag, cancellation, finalizer write, sleep
    # and touch at the instant the specification makes it), its invariants true in every state, the rest-state clauses at `quiet`
    sv = D.judge_spawning(traces, rep)
    for t in traces:
        v = sv[t['id']]['verdict']
        if v != 'ok':
            rep.classified(v if v in ('F5', 'F18') else '', f'{t["id"]}: Trace_Spawning: {v}', payload=t['spawning'])
    # daemons beside change handlers on the same object: the executions must be behaviours of Handling.tla with conf.dh (Trace_Handling)
    from vf import handling as H
    mscs = H.gen_scenarios(ctx.seed, 60 if ctx.quick else 1200, 'mixed')
    with ProcessPoolExecutor(16) as ex:
        mtraces = list(ex.map(H.run_scenario, mscs, chunksize=4))
    mv = H.judge(mtraces, rep, 'Trace_Handling[mixed]')
    rep.evaluations += len(mtraces); rep.traces += len(mtraces)
    for t in mtraces:
        if any(e['ev'] in ('flagseen', 'cancel') for e in t['events']):
            rep.nontrivial([[{k: x for k, x in e.items() if k != 't'} for e in t['events']], t['conf']])
        if t['stall'] and t.get('livelock') and mv[t['id']]['verdict'] == 'accepted' and mv[t['id']].get('excuse') == 'F9':
            rep.classified('F9', f'{t["id"]}: the operator never comes to rest: the deletion handlers are run again and again while the object is held for '
                                 f'a daemon that is still stopping', payload={k: t[k] for k in ('id', 'scenario')})
        elif t['stall']:
            rep.violation(f'{t["id"]}: event loop stalled', payload=t)
        elif mv[t['id']]['verdict'] != 'accepted':
            rep.violation(f'{t["id"]}: Trace_Handling: {mv[t["id"]]["verdict"]}', payload=t)
    for t in ttraces:
        if t['stall']:
            rep.violation(f'{t["id"]}: the event loop stalled while a timer was being stopped', payload=t)
    # the pausing path (peering): daemons that leave only on cancellation, changes sneaking into the workers at the pause;
    # the runs are validated by Trace_Peering, whose clause `daemon_alive_while_paused` is C09's
    from vf import peering as P
    pscs = [sc_ for sc_ in P.crafted() if sc_['id'].startswith('crafted-pause')]
    with ProcessPoolExecutor(16) as ex:
        ptraces = list(ex.map(P.run_scenario, pscs))
    pv = P.judge(ptraces, rep)
    rep.evaluations += len(ptraces); rep.traces += len(ptraces)
    for t in ptraces:
        rep.nontrivial([{k: v for k, v in e.items() if k != 'after'} for e in t['events']])
        if t['stall'] or pv[t['id']]['verdict'] not in ('ok', 'F26', 'F27'):
            rep.violation(f'{t["id"]}: {"event loop stalled" if t["stall"] else pv[t["id"]]["verdict"]}', payload=t)
    rep.sample({'scenario': traces[1]['scenario'], 'trace_head': traces[1]['events'][:16]})
