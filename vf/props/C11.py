"""C11 - handler error policy (change handlers; daemons, timers, activities: see Execution).

(A) Handling.tla model-checked exhaustively on the configurations named below (plus negative configurations that must
fail, to show the invariants are not vacuous); (B) seeded random closed-loop scenarios of the profile(s) below run on
the REAL kopf.operator() in the world simulator, every trace judged by TLC against Trace_Handling.tla (all invariants
of the module are evaluated on every state of the explaining behaviour, and time is bound by urgency).
"""
from vf.props import _family

PROFILES = "errors".split(',')
CFGS = "lim,nodoors".split(',')
NEGATIVES = dict(x.split(':') for x in "-".split(',') if ':' in x)
FEATURES = set("retry,failure".split(','))


def run(ctx, rep) -> None:
    from vf import handling as H
    rep.rule = ('(A) TLC exhaustive on MC_Handling_{%s}; (B) seeded random scenarios of profile(s) %s on the real operator, '
                'judged by Trace_Handling; non-trivial = the trace shows one of %s; distinct = by abstract trace'
                % (','.join(CFGS), PROFILES, sorted(FEATURES)))
    _family.model_check(rep, CFGS, NEGATIVES, ctx)
    n = 120 if ctx.quick else 2500
    scs = []
    for p in PROFILES:
        scs += H.gen_scenarios(ctx.seed, n // len(PROFILES), p)
    _family.run_traces(rep, scs, '+'.join(PROFILES), nontrivial=lambda f: bool(f & FEATURES))
