"""C11 - handler error policy.

(F) Execution.tla: the reference of one invocation (timeout / retries limits before the attempt, look-ahead for temporary and
arbitrary errors, error modes, backoff) with its laws checked by TLC over the whole bounded input space (MC_Execution);
the REAL execution.execute_handler_once is run on configurations x states (incl. runtimes beyond 24 h) x handler
behaviours, for an activity handler and a change handler, in exact virtual time; every record is judged by
Execution!ClassifyC11 in TLC. The three laws of the reference are also proved for all integers by TLAPS (ExecProof.tla).

(A) Handling.tla model-checked exhaustively on the configurations named below (plus negative configurations that must
fail, to show the invariants are not vacuous); (B) seeded random closed-loop scenarios of the profile(s) below run on
the REAL kopf.operator() in the world simulator, every trace judged by TLC against Trace_Handling.tla (all invariants
of the module are evaluated on every state of the explaining behaviour, and time is bound by urgency).
"""
from typing import Any

from vf.props import _family

PROFILES = "errors".split(',')
CFGS = "lim,nodoors,sub,timeout".split(',')
NEGATIVES = dict(x.split(':') for x in "-".split(',') if ':' in x)
FEATURES = set("retry,failure".split(','))


def execution_records(quick: bool, seed: int):
    import datetime
    import itertools
    import logging
    import random
    import kopf
    from kopf._cogs.structs import bodies, diffs, ephemera, patches, references
    from kopf._core.actions import execution, progression
    from kopf._core.engines import indexing
    from kopf._core.intents import causes, handlers as khandlers
    from sim.opsim import Sim
    rnd = random.Random(seed)
    U = -1
    confs = [dict(timeout=t, retries=n, backoff=b, mode=m) for t, n, b, m in itertools.product(
        [U, 5, 60, 100000], [U, 1, 3], [U, 2, 10], ['', 'temporary', 'permanent', 'ignored'])]
    states = [dict(runtime=rt, retries=n) for rt, n in itertools.product([0, 4, 5, 50, 59, 60, 86400 + 2, 90000, 100000, 200000], [0, 1, 2, 3])]
    ress = [dict(kind=k, delay=U) for k in ('ok', 'perm', 'exc')] + [dict(kind='temp', delay=d) for d in (U, 0, 1, 10, 60)]
    cases = list(itertools.product(confs, states, ress, ('activity', 'change')))
    if quick:
        cases = rnd.sample(cases, 3000)
    sim = Sim(wall_budget=0)
    loop = sim.world.new_loop('client')
    log = logging.getLogger('c11')
    settings = kopf.OperatorSettings()
    settings.execution.default_backoff = 60 if hasattr(settings, 'execution') else 60
    defb = int(settings.execution.default_backoff)
    res_ = references.Resource('example.com', 'v1', 'things', namespaced=True)
    body = bodies.Body({'metadata': {'name': 'o', 'namespace': 'ns', 'uid': 'u'}, 'spec': {}})
    recs = []
    base = datetime.datetime(2030, 1, 1, tzinfo=datetime.timezone.utc)
    modes = {'': None, 'temporary': kopf.ErrorsMode.TEMPORARY, 'permanent': kopf.ErrorsMode.PERMANENT, 'ignored': kopf.ErrorsMode.IGNORED}

    async def one(c, s, r, kind):
        called = {'n': 0}

        async def fn(**_):
            called['n'] += 1
            if r['kind'] == 'temp':
                raise kopf.TemporaryError('scripted', delay=None if r['delay'] == U else r['delay'])
            if r['kind'] == 'perm': raise kopf.PermanentError('scripted')
            if r['kind'] == 'exc': raise ValueError('scripted')
        kw = dict(fn=fn, id='h', param=None, errors=modes[c['mode']], timeout=None if c['timeout'] == U else c['timeout'],
                  retries=None if c['retries'] == U else c['retries'], backoff=None if c['backoff'] == U else c['backoff'])
        if kind == 'activity':
            handler = khandlers.ActivityHandler(activity=causes.Activity.STARTUP, _fallback=False, **kw)
            cause = causes.ActivityCause(logger=log, activity=causes.Activity.STARTUP, settings=settings,
                                         indices=indexing.OperatorIndexers().indices, memo=ephemera.Memo())
        else:
            handler = khandlers.ChangingHandler(selector=references.Selector('example.com', 'v1', 'things'), labels=None, annotations=None, when=None,
                                                field=None, value=None, old=None, new=None, field_needs_change=False, initial=None, deleted=None,
                                                requires_finalizer=None, reason=causes.Reason.CREATE, **kw)
            cause = causes.ChangingCause(reason=causes.Reason.CREATE, initial=False, old=None, new={'spec': {}}, diff=diffs.diff(None, {'spec': {}}),
                                         resource=res_, indices=indexing.OperatorIndexers().indices, logger=log, patch=patches.Patch(), body=body,
                                         memo=ephemera.Memo())
        now = base + datetime.timedelta(seconds=sim.now)
        state = progression.HandlerState(active=True, basetime=base, started=now - datetime.timedelta(seconds=s['runtime']), retries=s['retries'])
        o = await execution.execute_handler_once(settings=settings, handler=handler, cause=cause, state=state)
        recs.append({'conf': dict(c, defbackoff=defb), 'state': s, 'res': r, 'kind': kind,
                     'out': {'invoked': called['n'] > 0, 'final': bool(o.final), 'failed': bool(o.final and o.exception is not None),
                             'delay': U if o.delay is None else int(o.delay)}})

    async def all_():
        for c, s, r, kind in cases:
            await one(c, s, r, kind)
    task = loop.spawn(all_())
    sim.world.run_until(sim.now + 10, stop=lambda: task.done())
    if not task.done() or task.exception():
        raise RuntimeError(f'execution harness failed: {task.exception() if task.done() else "not finished"}')
    sim.close()
    return recs


def activity_records(quick: bool, seed: int):
    """Whole activities through the REAL activities.run_activity: two or three handlers whose functions follow scripts (what they do at
    their 1st, 2nd, ... attempt) and so end in different rounds; attempt instants, final verdicts and the activity's own verdict."""
    import itertools
    import logging
    import random
    import kopf
    from kopf._cogs.structs import ephemera
    from kopf._core.actions import lifecycles
    from kopf._core.engines import activities, indexing
    from kopf._core.intents import causes
    from sim.opsim import Sim
    rnd = random.Random(f'act-{seed}')
    U = -1
    T = lambda d: dict(kind='temp', delay=d)
    OK, PERM, EXC = dict(kind='ok', delay=U), dict(kind='perm', delay=U), dict(kind='exc', delay=U)
    scripts = [[OK], [PERM], [T(1), OK], [T(2), T(1), OK], [T(1), PERM], [EXC, OK], [EXC, EXC, OK], [T(3), T(3), T(3), OK], [T(0), OK], [EXC, PERM]]
    confs = [dict(timeout=U, retries=U, backoff=2, mode=''), dict(timeout=U, retries=2, backoff=1, mode=''), dict(timeout=4, retries=U, backoff=2, mode=''),
             dict(timeout=U, retries=U, backoff=1, mode='permanent'), dict(timeout=U, retries=U, backoff=1, mode='ignored'), dict(timeout=U, retries=1, backoff=0, mode='')]
    combos = [list(c) for n in (1, 2, 3) for c in itertools.product(itertools.product(range(len(confs)), range(len(scripts))), repeat=n)]
    combos = rnd.sample(combos, 400 if quick else 6000)
    modes = {'': None, 'temporary': kopf.ErrorsMode.TEMPORARY, 'permanent': kopf.ErrorsMode.PERMANENT, 'ignored': kopf.ErrorsMode.IGNORED}
    sim = Sim(wall_budget=0)
    loop = sim.world.new_loop('client')
    recs = []

    async def one(combo):
        reg = kopf.OperatorRegistry()
        settings = kopf.OperatorSettings()
        t0 = sim.now
        times: dict[str, list[int]] = {}
        hs = []
        for n, (ci, si) in enumerate(combo):
            hid = f'h{n}'
            c = confs[ci]; sc = scripts[si] + [OK] * 3
            times[hid] = []

            def mk(hid=hid, sc=sc):
                async def fn(**_):
                    k = len(times[hid]); times[hid].append(int(sim.now - t0))
                    r = sc[min(k, len(sc) - 1)]
                    if r['kind'] == 'temp': raise kopf.TemporaryError('scripted', delay=r['delay'])
                    if r['kind'] == 'perm': raise kopf.PermanentError('scripted')
                    if r['kind'] == 'exc': raise ValueError('scripted')
                    return {'done': hid}
                fn.__name__ = fn.__qualname__ = hid
                return fn
            kopf.on.startup(registry=reg, id=hid, errors=modes[c['mode']], timeout=None if c['timeout'] == U else c['timeout'],
                            retries=None if c['retries'] == U else c['retries'], backoff=c['backoff'])(mk())
            hs.append({'conf': dict(c, defbackoff=60), 'script': sc})
        raised = False; failed_ids: set[str] = set(); results: dict[str, Any] = {}
        try:
            results = await activities.run_activity(lifecycle=lifecycles.all_at_once, registry=reg, settings=settings, activity=causes.Activity.STARTUP,
                                                    indices=indexing.OperatorIndexers().indices, memo=ephemera.Memo())
        except activities.ActivityError as e:
            raised = True
            failed_ids = {str(k) for k, o in e.outcomes.items() if o.exception is not None}
            results = {k: o.result for k, o in e.outcomes.items() if o.result is not None}
        for n, h in enumerate(hs):
            h.update(times=times[f'h{n}'], failed=(f'h{n}' in failed_ids) if raised else False, result=f'h{n}' in {str(k) for k in results})
        recs.append({'kind': 'actrun', 'handlers': hs, 'raised': raised})

    async def all_():
        for combo in combos:
            await one(combo)
    task = loop.spawn(all_())
    sim.world.run_until(sim.now + 200000, stop=lambda: task.done())
    if not task.done() or task.exception():
        raise RuntimeError(f'activity harness failed: {task.exception() if task.done() else "not finished"}')
    sim.close()
    return recs


def run(ctx, rep) -> None:
    from vf import records, tlc
    r = tlc.run('MC_Execution', 'MC_Execution.cfg')
    rep.add_tlc('MC_Execution', r)
    if not r.ok:
        rep.violation(f'reference laws of Execution violated: {r.violated}', files={'tlc.out': r.out[-100000:]})
        return
    # the same laws for ALL integers (not only the bounded space above): proved by TLAPS (spec/ExecProof.tla)
    import os, re, shutil, subprocess, tempfile
    scratch = tempfile.mkdtemp(prefix='vf-tlaps-')
    try:
        for f in ('Execution.tla', 'ExecProof.tla'):
            shutil.copy(os.path.join(tlc.SPEC, f), scratch)
        pr = subprocess.run(['tlapm', '--threads', '8', 'ExecProof.tla'], cwd=scratch, capture_output=True, text=True, timeout=900)
        m = re.search(r'All (\d+) obligations? proved', pr.stdout + pr.stderr)
        if m is None:
            rep.violation('TLAPS could not prove the laws of Execution for all integers', files={'tlapm.out': (pr.stdout + pr.stderr)[-20000:]})
        else:
            rep.extra['tlaps'] = {'module': 'ExecProof', 'obligations': int(m.group(1)), 'discharged': int(m.group(1)),
                                  'theorems': ['NeverBeyondAll', 'ModesAll', 'RetryWithinAll']}
    finally:
        shutil.rmtree(scratch, ignore_errors=True)
    recs = execution_records(ctx.quick, ctx.seed) + activity_records(ctx.quick, ctx.seed)
    bad = records.judge('Rec_Execution', recs, rep=rep, shard=20000)
    rep.evaluations += len(recs); rep.traces += len(recs)
    for rec in recs:
        if rec['kind'] == 'actrun' or rec['conf']['timeout'] != -1 or rec['conf']['retries'] != -1 or rec['res']['kind'] != 'ok':
            rep.nontrivial(rec)
    for i, label in sorted(bad.items()):
        rep.classified('', f'{label}: {recs[i]}', payload=recs[i])
    # timers under the same policy (retry delays, permanence, sharp / interval / idle): the failing histories of the timers profile,
    # validated against Trace_Timers (PermanentEndsIt, AfterTemp, AfterExc)
    from concurrent.futures import ProcessPoolExecutor
    from vf import timers as T
    tscs = [sc_ for sc_ in T.gen_scenarios(ctx.seed + 3, 600 if ctx.quick else 6000) if any(k != 'ok' for (_d, k, _x) in sc_['runs'])][:120 if ctx.quick else 2500]
    with ProcessPoolExecutor(16) as ex:
        ttr = list(ex.map(T.run_scenario, tscs, chunksize=4))
    tv = T.judge(ttr, rep)
    rep.evaluations += len(ttr); rep.traces += len(ttr)
    for t in ttr:
        rep.nontrivial([t['conf'], [{k: v for k, v in e.items() if k != 't'} for e in t['events']]])
        if t['stall']:
            rep.violation(f'{t["id"]}: the event loop stalled', payload=t)
        elif tv[t['id']]['verdict'] != 'accepted':
            rep.violation(f'{t["id"]}: {tv[t["id"]]["verdict"]}', payload=t)
    # retries under views older than the operator's own progress patch: a raw-event handler patches on every event (the accumulated patch
    # is never empty), foreign edits, a late stream; the change handler fails temporarily: DelayMonitor.tla states the clause
    import json, os, re, shutil, tempfile
    import random as _random
    from vf.evidence import MachineryFailure
    from vf.props import C07
    dscs = []
    for k_ in range(60 if ctx.quick else 1500):
        r_ = _random.Random(f'delay-{ctx.seed}-{k_}')
        edits = sorted(r_.sample(range(3, 40), r_.randint(1, 6)))
        dscs.append({'id': f'delay-{ctx.seed}-{k_}', 'lag': r_.choice([0, 1, 2, 3]), 'timeout': r_.choice([5, 8]), 'mirror': True, 'edits': edits, 'end': 90,
                     'ascript': [('temp', r_.choice([2, 3, 5, 7])) for _ in range(r_.randint(1, 3))] + ['ok', ('temp', 4), 'ok']})
    with ProcessPoolExecutor(16) as ex:
        dtr = list(ex.map(C07.fresh_case, dscs, chunksize=4))
    scratch = tempfile.mkdtemp(prefix='vf-delay-')
    try:
        path = os.path.join(scratch, 'traces.json')
        with open(path, 'w') as f:
            json.dump([{'id': t['id'], 'events': [e for e in t['events'] if e['ev'] == 'inv']} for t in dtr], f)
        rd = tlc.run('DelayMonitor', cfg_text='SPECIFICATION Spec\nCONSTRAINT Book\nPOSTCONDITION Verdicts\nCHECK_DEADLOCK FALSE\n', workers=1,
                     env={'TRACE_FILE': path}, timeout=1200)
    finally:
        shutil.rmtree(scratch, ignore_errors=True)
    if not rd.ok:
        raise MachineryFailure(f'DelayMonitor failed: {rd.violated} {rd.errors}\n{rd.out[-3000:]}')
    rep.add_tlc('DelayMonitor', rd)
    got = {int(m.group(1)): m.group(3) for m in re.finditer(r'<<\s*"MONITOR",\s*(\d+),\s*"([^"]*)",\s*"([^"]*)"\s*>>', rd.out)}
    if len(got) != len(dtr) or 'incomplete' in got.values():
        raise MachineryFailure(f'DelayMonitor: {len(got)} verdicts for {len(dtr)} traces')
    rep.evaluations += len(dtr); rep.traces += len(dtr)
    for i_, t in enumerate(dtr, start=1):
        if sum(1 for e in t['events'] if e['ev'] == 'inv' and e['k'] == 'temp') > 0:
            rep.nontrivial([e for e in t['events'] if e['ev'] == 'inv'])
        if got[i_] != 'ok':
            rep.violation(f'{t["id"]}: {got[i_]} {[(e["t"], e["retry"], e["k"], e["d"]) for e in t["events"] if e["ev"] == "inv"]}', payload=t)
    from vf import handling as H
    rep.rule = ('(A) TLC exhaustive on MC_Handling_{%s}; (B) seeded random scenarios of profile(s) %s on the real operator, '
                'judged by Trace_Handling; non-trivial = the trace shows one of %s; distinct = by abstract trace'
                % (','.join(CFGS), PROFILES, sorted(FEATURES)))
    _family.model_check(rep, CFGS, NEGATIVES, ctx)
    n = 120 if ctx.quick else 2500
    scs = []
    for p in PROFILES:
        scs += H.gen_scenarios(ctx.seed, n // len(PROFILES), p)
    # a handler that registers two sub-handlers whenever it runs (Handling.tla with conf.subs: InvokeSub / ParentEnd)
    scs += H.gen_scenarios(ctx.seed, 50 if ctx.quick else 1000, 'subs')
    # resume handlers that fail and are superseded by an update while they wait for their retry (the record must be carried over)
    scs += H.gen_scenarios(ctx.seed, 60 if ctx.quick else 1200, 'resume')
    # handlers with timeout=T: the record's creation instant is part of the compared state, NoLateAttempt is evaluated in every state
    scs += H.gen_scenarios(ctx.seed, 60 if ctx.quick else 1200, 'timeouts')
    _family.run_traces(rep, scs, '+'.join(PROFILES), nontrivial=lambda f: bool(f & FEATURES))
    # the sleep for a handler's delay is aiotime.sleep; what it returns decides whether the delayed handler is woken up (the touch): the
    # real coroutine against Kits.tla, also from instants and for delays that are no round numbers
    from vf import kits
    kits.stage(ctx, rep, "the sleep for a handler's delay (aiotime.sleep)")
