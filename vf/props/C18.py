"""C18 - admission responses faithfully reflect handler outcomes and requested mutations.

(A) MC_Admission: the JSON-patch / merge-patch reference of JV.tla is cross-checked by TLC on small documents:
    applying `jsonpatch`-style ops derived from a merge equals the merge (sanity of ApplyJsonPatch and MergePatch).
(B) the REAL serve_admission_request with a real registry built through kopf.on.validate / kopf.on.mutate: handler
    sets x review (operation, subresource, webhook hint) x merge-style instructions (set, overwrite, delete, nested
    merge, type change, keys with '/' and '~', list replace) x transformations (finalizer append/remove) x outcome
    combinations (ok / AdmissionError / Permanent / Temporary / arbitrary) x warnings. The response (allowed, status,
    warnings, decoded JSON patch with RFC 6901 pointers tokenised independently) is judged by Admission!ClassifyC18.
"""
from __future__ import annotations

import asyncio
import base64
import copy
import itertools
import json
import logging
import random
from typing import Any

from vf import records, tlc
from vf.jv import enc, pointer_tokens

R = ('example.com', 'v1', 'things')
BODY = {'apiVersion': 'example.com/v1', 'kind': 'Thing',
        'metadata': {'name': 'o', 'namespace': 'ns', 'labels': {'l': 'v'}, 'finalizers': ['keep/me']},
        'spec': {'a': 1, 'b': {'c': 2, 'd': 'x'}, 'l': [1, 2], 'e': {}, 'k/s~t': 'special', 'zero': False, 't': 0}}
INSTRS = [None,
          {'spec': {'new': 'v'}}, {'spec': {'a': 2}}, {'spec': {'a': None}}, {'spec': {'b': {'c': 3, 'n': {'deep': True}}}},
          {'spec': {'b': None, 'z': {'y': {'x': 1}}}}, {'spec': {'l': [3]}}, {'spec': {'k/s~t': 'changed', 'q/r': {'~': 1}}},
          {'spec': {'b': 'scalar-now'}}, {'metadata': {'labels': {'l': None, 'm': 'n'}}}, {'spec': {'e': {'filled': 1}}},
          {'spec': {'a': {'mapping': 'over-scalar'}}}, {'spec': {'l': {'mapping': 'over-list'}}}, {'status': {'s': 1}},
          {'spec': {'newmap': {'with': None, 'kept': 1}}},
          {'spec': {'a': True}}, {'spec': {'b': {'c': 2.5}}}, {'spec': {'t': False, 'zero': 0}}]       # type-only / falsy changes: 1 -> true is a change
OUTCOMES = ['ok', 'adm', 'perm', 'temp', 'exc', 'adm2', 'perm2', 'temp2']      # ...2: an instance of a SUBCLASS of that error class


def build_records(quick: bool, seed: int) -> list[dict[str, Any]]:
    import kopf
    from kopf._cogs.structs import ephemera, references
    from kopf._core.engines import admission, indexing
    from kopf._core.reactor import inventory
    rnd = random.Random(seed)
    res = references.Resource(*R, kind='Thing', singular='thing', namespaced=True, preferred=True, verbs=frozenset(), shortcuts=frozenset(),
                              categories=frozenset(), subresources=frozenset(['status']))
    cases = []
    # systematic: one or two handlers, every outcome pair, a few instructions
    for (t1, o1), (t2, o2) in itertools.product(itertools.product(['validating', 'mutating'], OUTCOMES), repeat=2):
        cases.append([dict(typ=t1, outcome=o1, instr=INSTRS[1] if t1 == 'mutating' else None, warn='w1' if o1 in ('ok', 'perm', 'perm2') else ''),
                      dict(typ=t2, outcome=o2, instr=INSTRS[4] if t2 == 'mutating' else None, warn='w2' if o2 != 'temp' else '')])
    # every instruction alone and in pairs (later overrides earlier), with and without transformations
    for i1 in INSTRS[1:]:
        for fns in ([], ['addfin'], ['delfin'], ['addfin', 'delfin']):
            cases.append([dict(typ='mutating', outcome='ok', instr=i1, fns=fns)])
    for i1, i2 in itertools.product(INSTRS[1:], repeat=2):
        if quick and rnd.random() < 0.7: continue
        cases.append([dict(typ='mutating', outcome='ok', instr=i1), dict(typ='mutating', outcome=rnd.choice(OUTCOMES), instr=i2, fns=rnd.choice([[], ['addfin']]))])
    # an earlier handler that is suspended before it acts, a later one that is not: the response is built in the order of the handlers
    for i1, i2 in ((INSTRS[2], INSTRS[3]), (INSTRS[1], INSTRS[5]), (INSTRS[4], INSTRS[8]), (INSTRS[9], INSTRS[9]), (INSTRS[10], INSTRS[4])):
        for y1, y2 in ((3, 0), (1, 0), (5, 2)):
            for t1, t2 in (('mutating', 'mutating'), ('validating', 'mutating'), ('mutating', 'validating')):
                cases.append([dict(typ=t1, outcome='ok', instr=i1 if t1 == 'mutating' else None, warn='w1', yields=y1),
                              dict(typ=t2, outcome=rnd.choice(['ok', 'ok', 'perm']), instr=i2 if t2 == 'mutating' else None, warn='w2', yields=y2)])
    # selection: operations, subresources, webhook hints, mutation on DELETE
    sel_cases = []
    for ops, sub, typ in itertools.product([None, ['CREATE'], ['UPDATE', 'CREATE'], ['DELETE']], [None, 'status', '*'], ['validating', 'mutating']):
        sel_cases.append(dict(typ=typ, outcome='ok', ops=ops, sub=sub, instr=INSTRS[2] if typ == 'mutating' else None))
    recs = []

    async def one(handlers, review):
        reg = kopf.OperatorRegistry()
        ran: list[str] = []
        hs = []
        for n, h in enumerate(handlers):
            hid = f'h{n + 1}'
            spec = dict(id=hid, typ=h['typ'], ops=list(h.get('ops') or []), sub=h.get('sub') or '', outcome=h['outcome'], flt=h.get('flt', ''), ver=h.get('ver', ''),
                        msg=f'msg-{hid}', code=400 + n + 1 if h['outcome'] in ('adm', 'adm2') else 0, warn=h.get('warn', ''),
                        instr=enc(h['instr']) if h.get('instr') is not None else {'t': 'n'}, fns=list(h.get('fns', [])))
            hs.append(spec)

            def mk(spec=spec, h=h):
                async def fn(patch, warnings, **_):
                    for _y in range(h.get('yields', 0)):        # the handler is suspended a few times before it acts: the handlers of one
                        await asyncio.sleep(0)                  # review run one after the other all the same
                    ran.append(spec['id'])
                    if spec['warn']:
                        warnings.append(spec['warn'])
                    if h.get('instr') is not None:
                        def put(dst, src):
                            for k, v in src.items():
                                if isinstance(v, dict) and isinstance(dst.get(k), dict): put(dst[k], v)
                                else: dst[k] = copy.deepcopy(v)
                        put(patch, h['instr'])
                    for f in spec['fns']:
                        if f == 'addfin':
                            patch.fns.append(lambda b: b.setdefault('metadata', {}).setdefault('finalizers', []).append('fin/x')
                                             if 'fin/x' not in b.get('metadata', {}).get('finalizers', []) else None)
                        else:
                            def delfin(b):
                                fins = b.get('metadata', {}).get('finalizers', [])
                                while 'fin/x' in fins: fins.remove('fin/x')
                                if 'finalizers' in b.get('metadata', {}) and not fins: del b['metadata']['finalizers']
                            patch.fns.append(delfin)
                    o = spec['outcome']
                    if o == 'adm2': raise type('Forbidden', (kopf.AdmissionError,), {})(spec['msg'], code=spec['code'])
                    if o == 'perm2': raise type('Fatal', (kopf.PermanentError,), {})(spec['msg'])
                    if o == 'temp2': raise type('Later', (kopf.TemporaryError,), {})(spec['msg'], delay=1)
                    if o == 'adm': raise kopf.AdmissionError(spec['msg'], code=spec['code'])
                    if o == 'perm': raise kopf.PermanentError(spec['msg'])
                    if o == 'temp': raise kopf.TemporaryError(spec['msg'], delay=1)
                    if o == 'exc': raise ValueError(spec['msg'])
                fn.__name__ = fn.__qualname__ = spec['id']
                return fn
            dec = kopf.on.validate if h['typ'] == 'validating' else kopf.on.mutate
            kw = dict(registry=reg, id=hid)
            if h.get('ops'): kw['operations'] = h['ops']
            if h.get('sub') is not None: kw['subresource'] = h['sub']
            kw.update({'': {}, 'lab_eq': dict(labels={'l': 'v'}), 'lab_absent': dict(labels={'l': kopf.ABSENT}),
                       'fld_present': dict(field='spec.a'), 'fld_eq1': dict(field='spec.a', value=1), 'fld_absent': dict(field='spec.a', value=kopf.ABSENT),
                       'fld_cb1': dict(field='spec.a', value=lambda v, **_: v == 1),
                       'when_F': dict(when=lambda **_: False), 'when_T': dict(when=lambda **_: True)}[h.get('flt', '')])
            dec(*((R[0], h['ver'], R[2]) if h.get('ver') else (R[0], R[2])), **kw)(mk())
        insights = references.Insights(); insights.webhook_resources.add(res)
        rver = review.get('ver', R[1])
        if review.get('ver'):       # a kind served in two versions: v1 (the preferred one) and v1beta1
            import dataclasses as _dc
            insights.webhook_resources.add(_dc.replace(res, version='v1beta1', preferred=False))
        body = copy.deepcopy(BODY)
        # `oldmod`: the old object of the review differs from the new one in what the filters look at (no label l, no spec.a)
        older = copy.deepcopy(BODY)
        if review.get('oldmod'):
            del older['metadata']['labels']['l']; del older['spec']['a']
        if review.get('newmod'):
            del body['metadata']['labels']['l']; del body['spec']['a']
        request = {'apiVersion': 'admission.k8s.io/v1', 'kind': 'AdmissionReview',
                   'request': {'uid': 'uid1', 'kind': {'group': R[0], 'version': rver, 'kind': 'Thing'},
                               'resource': {'group': R[0], 'version': rver, 'resource': R[2]}, 'operation': review['op'],
                               'userInfo': {'username': 'u'}, 'object': body if review['op'] != 'DELETE' else None,
                               'oldObject': older if review['op'] != 'CREATE' else None, 'dryRun': False}}
        if review['sub']: request['request']['subResource'] = review['sub']
        resp = {'raised': '', 'allowed': False, 'message': '', 'code': 0, 'warnings': [], 'ops': []}
        try:
            out = await admission.serve_admission_request(
                request, webhook=review['webhook'] or None, settings=kopf.OperatorSettings(), memories=inventory.ResourceMemories(),
                memobase=ephemera.AnyMemo(ephemera.Memo()), registry=reg, insights=insights, indices=indexing.OperatorIndexers().indices)
            r = out['response']
            resp['allowed'] = bool(r['allowed']); resp['warnings'] = list(r.get('warnings', []))
            if 'status' in r:
                resp['message'] = r['status']['message']; resp['code'] = r['status']['code']
            if 'patch' in r:
                for op in json.loads(base64.b64decode(r['patch'])):
                    resp['ops'].append({'op': op['op'], 'path': pointer_tokens(op['path']),
                                        'value': enc(op['value']) if 'value' in op else {'t': 'n'},
                                        'from': pointer_tokens(op['from']) if 'from' in op else []})
        except Exception as e:
            resp['raised'] = type(e).__name__
        recs.append({'handlers': hs, 'review': {'op': review['op'], 'sub': review['sub'] or '', 'webhook': review['webhook'] or '', 'ver': rver},
                     'body': enc(body if review['op'] != 'DELETE' else older), 'resp': resp, 'ran': list(ran)})

    async def all_cases():
        for hs in cases:
            await one(hs, {'op': 'UPDATE', 'sub': None, 'webhook': None})
        for h in sel_cases:
            for op, sub, hint in itertools.product(['CREATE', 'UPDATE', 'DELETE'], [None, 'status'], [None, 'h1', 'h2']):
                await one([h, dict(typ='validating', outcome='ok')], {'op': op, 'sub': sub, 'webhook': hint})
        # a kind served in two versions, handlers that name a version or none: a review is served by the handlers of the version it is about
        for rver_, (v1, v2), (o1, o2) in itertools.product(['v1', 'v1beta1'], [('', 'v1beta1'), ('v1', 'v1beta1'), ('v1beta1', ''), ('v1', ''), ('v1beta1', 'v1beta1')],
                                                           [('ok', 'adm'), ('adm', 'ok'), ('ok', 'ok')]):
            await one([dict(typ='mutating', outcome=o1, instr=INSTRS[1], warn='w1', ver=v1), dict(typ='validating', outcome=o2, warn='w2', ver=v2)],
                      {'op': 'UPDATE', 'sub': None, 'webhook': None, 'ver': rver_})
        # filters are judged on the reviewed object (the new one; the old one when it is a deletion), whatever the other one looks like
        for flt, typ, op, (oldmod, newmod), out in itertools.product(['lab_eq', 'lab_absent', 'fld_present', 'fld_eq1', 'fld_absent', 'fld_cb1', 'when_F', 'when_T'],
                                                                     ['validating', 'mutating'], ['CREATE', 'UPDATE', 'DELETE'],
                                                                     [(False, False), (True, False), (False, True), (True, True)], ['ok', 'adm']):
            await one([dict(typ=typ, outcome=out, flt=flt, ops=['DELETE'] if typ == 'mutating' and op == 'DELETE' else None,
                            instr=INSTRS[1] if typ == 'mutating' else None, warn='wf'), dict(typ='validating', outcome='ok')],
                      {'op': op, 'sub': None, 'webhook': None, 'oldmod': oldmod, 'newmod': newmod})
    asyncio.run(all_cases())
    return recs


def run(ctx, rep) -> None:
    logging.disable(logging.CRITICAL)
    rep.rule = ('(B) the real serve_admission_request on systematic handler/outcome/instruction/selection combinations, judged by '
                'Admission!ClassifyC18; non-trivial = distinct record with a denial, a warning, a patch or a selection criterion')
    recs = build_records(ctx.quick, ctx.seed)
    bad = records.judge('Rec_Admission', recs, rep=rep, shard=1500)
    rep.evaluations += len(recs); rep.traces += len(recs)
    for rec in recs:
        rep.nontrivial(rec)
    rep.sample(recs[3]); rep.sample(recs[-5])
    for i, label in sorted(bad.items()):
        rec = recs[i]
        rep.classified(label if label.startswith('F') else '', f'{label}: review={rec["review"]} handlers='
                       f'{[(h["id"], h["typ"], h["ops"], h["sub"], h["outcome"]) for h in rec["handlers"]]} ran={rec["ran"]} resp='
                       f'{ {k: v for k, v in rec["resp"].items() if k != "ops"} }', payload=rec)
    # the announcing side: what build_webhooks tells the cluster about the handlers (Webhooks.tla) -- the entry, an API server's dispatch of a
    # grid of reviews through it, and the declared criteria; the id round trip through the announced URL
    from vf import webhooks
    webhooks.stage(ctx, rep, 'C18')
    # ... and the closed loop: the real operator with managed webhook configurations, kinds that come and go, client configs on a schedule;
    # the configuration objects in the cluster are read back at rest and after the exit and judged by the same reference
    webhooks.managed_stage(ctx, rep, 'C18')
