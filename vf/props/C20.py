"""C20 - operator lifecycle: startup first, fail-fast, cleanup last, bounded exit.

(A) Lifecycle.tla / MC_Lifecycle: the mechanism of running.py (startup/cleanup task, gated root tasks and their children,
    run_tasks) for all startup/cleanup scripts x peering on/off x every position of a stop flag, a cancellation and a
    failure of an essential task: NoApiBeforeStartup, ReadyAfterStartup, FailedStartupNoApi, CleanupLast, NothingLingers,
    ReRaises (invariants) and FailFast (leads-to under fairness); the negative configuration (an ungated task) must
    violate NoApiBeforeStartup.
(B) the REAL kopf.operator() in the world simulator: scripted startup/cleanup handlers (ok / temporary / permanent, with
    durations), daemons (leaving on the flag or only on cancellation), peering, a stop flag or a cancellation at every
    moment incl. during startup, unknown ERROR events on the streams of the namespace observer, the resource observer and
    the handled resource, and failing re-authentication. Every run is validated by TLC against Trace_Lifecycle.tla: the
    events must be a behaviour of Lifecycle.tla (silent steps for the mechanism), with all invariants true in every state,
    the outcome of the run call equal to the one the specification derives, and the return within the grace bound.
"""
from __future__ import annotations

import logging
from concurrent.futures import ProcessPoolExecutor

from vf import lifecycle as L
from vf import tlc
from vf.evidence import MachineryFailure


def run(ctx, rep) -> None:
    logging.disable(logging.CRITICAL)
    rep.rule = ('(A) TLC exhaustive on MC_Lifecycle (+ negative configuration); (B) seeded-random runs of the real operator validated by TLC '
                'against Trace_Lifecycle; non-trivial = a run with a stop trigger, a fault or a failing startup/cleanup handler')
    for c in (['q'] if ctx.quick else ['q', 'pos']):
        r = tlc.run('MC_Lifecycle', f'MC_Lifecycle_{c}.cfg', timeout=3000)
        rep.add_tlc(f'MC_Lifecycle_{c}', r)
        if not r.ok:
            rep.violation(f'Lifecycle design check {c}: {r.violated} {r.errors[:1]}', files={'tlc.out': r.out[-100000:]})
    r = tlc.run('MC_Lifecycle', 'MC_Lifecycle_neg.cfg', timeout=600)
    if r.ok or ('invariant', 'NoApiBeforeStartup') not in r.violated:
        raise MachineryFailure(f'negative configuration MC_Lifecycle_neg did not violate NoApiBeforeStartup: {r.violated}')
    r = tlc.run('MC_Lifecycle', 'MC_Lifecycle_neg_f29.cfg', timeout=600)
    if r.ok or ('invariant', 'NoLateDaemon') not in r.violated:
        raise MachineryFailure(f'witness configuration MC_Lifecycle_neg_f29 did not reach the family F29: {r.violated}')
    r = tlc.run('MC_Lifecycle', 'MC_Lifecycle_neg_f5.cfg', timeout=600)
    if r.ok or ('invariant', 'NoOrphan') not in r.violated:
        raise MachineryFailure(f'witness configuration MC_Lifecycle_neg_f5 did not reach the family F5: {r.violated}')
    rep.extra['negative_config'] = ('MC_Lifecycle_neg (an ungated task issues requests): NoApiBeforeStartup violated, as required; '
                                    'MC_Lifecycle_neg_f29 / _neg_f5: the known families F29 and F5 are reachable')
    scs = L.crafted() + L.gen_scenarios(ctx.seed, 250 if ctx.quick else 5000)
    with ProcessPoolExecutor(16) as ex:
        traces = list(ex.map(L.run_scenario, scs, chunksize=2))
    verdicts = {}
    for k in range(0, len(traces), 1000):
        verdicts.update(L.judge(traces[k:k + 1000], rep))
    rep.evaluations += len(traces); rep.traces += len(traces)
    for t in traces:
        sc = t['scenario']
        if sc['trigger'] or sc['fault'] or any('perm' in x for x in sc['startup'] + sc['cleanup']):
            rep.nontrivial([e for e in t['events'] if e['ev'] != 'api'] + [sc['id'][:4], str(sc['trigger']), str(sc['fault'])])
        v = verdicts[t['id']]['verdict']
        if t['stall']:
            rep.violation(f'{t["id"]}: event loop stalled', payload=t)
        elif v != 'ok':
            rep.classified(v if v in ('F14', 'F15', 'F29', 'F5') else '', f'{t["id"]}: {v}', payload=t)
    rep.sample({'scenario': traces[0]['scenario'], 'events': [e for e in traces[0]['events'] if e['ev'] != 'api'][:14]})
    rep.sample({'scenario': traces[5]['scenario'], 'events': [e for e in traces[5]['events'] if e['ev'] != 'api'][:14]})
