"""C10 - timer schedule laws: no self-overlap, interval / sharp / idle / initial-delay timing.

(A) Timers.tla (a transcription of daemons._timer, one action per stretch between two sleeps, discrete time with
    urgency) model-checked over 7 configurations x run durations {0,1,2,4} x outcome scripts x <= 2 essential changes:
    FirstRun, NoOverlap, IdleLaw, AfterOk, AfterOkSharp, AfterTemp, AfterExc, PermanentEndsIt; the negative
    configuration (a permanent failure does not end the timer) must violate PermanentEndsIt.
(B) the REAL operator with one @kopf.timer per scenario (11 configurations x random run durations shorter / equal /
    longer than the interval x outcome scripts x essential changes at random instants x deletion) in virtual time;
    start/end instants, the instants at which changes and the stop were processed form a trace judged by Trace_Timers:
    the specification is deterministic given the environment's choices, so acceptance means every start instant is
    exactly the one the laws give.  An event-loop stall (watchdog) is a violation.
"""
from concurrent.futures import ProcessPoolExecutor

from vf import timers as T
from vf import tlc
from vf.evidence import MachineryFailure


def run(ctx, rep) -> None:
    rep.rule = ('(A) TLC exhaustive on MC_Timers_pos (+ negative config); (B) seeded random timer scenarios on the real operator judged '
                'by Trace_Timers; non-trivial = a trace with >= 3 runs and one of: a failed run, a run longer than the interval, an '
                'essential change, a stop; distinct by abstract trace')
    mc = 'MC_Timers_q.cfg' if ctx.quick else 'MC_Timers_pos.cfg'       # incl. the object leaving / re-entering the filters (respawn)
    r = tlc.run('MC_Timers', mc, timeout=3000)
    rep.add_tlc(mc[:-4], r)
    if not r.ok:
        rep.violation(f'Timers design check: {r.violated} after {[s["action"] for s in r.trace][-12:]}', files={'tlc.out': r.out[-100000:]})
    r = tlc.run('MC_Timers', 'MC_Timers_neg.cfg')
    if r.ok or r.violated[0][1] != 'PermanentEndsIt':
        raise MachineryFailure(f'negative configuration should violate PermanentEndsIt, got {r.violated}')
    rep.extra['negative_config'] = 'MC_Timers_neg (PermStops=FALSE): PermanentEndsIt violated, as required'
    scs = T.gen_scenarios(ctx.seed, 250 if ctx.quick else 6000)
    # no change-detecting handler at all (so no diff-base is ever stored) and a timer that returns a result: family F6
    scs += [{'id': f'timer-nochange-{k}', 'conf': {'interval': iv, 'sharp': False, 'idle': idle, 'initdelay': 0, 'backoff': 1},
             'runs': [(0, 'ok', 0)] * 8, 'changes': ch, 'delete_at': None, 'end': 60, 'change_handlers': False, 'result': True}
            for k, (iv, idle, ch) in enumerate([(3, 10, []), (2, 4, [9]), (3, 6, [])])]
    with ProcessPoolExecutor(16) as ex:
        traces = list(ex.map(T.run_scenario, scs, chunksize=4))
    verdicts = T.judge(traces, rep)
    rep.evaluations += len(traces); rep.traces += len(traces)
    for t in traces:
        starts = [e for e in t['events'] if e['ev'] == 'start']
        interesting = len(starts) >= 3 and (any(e['k'] != 'ok' for e in starts) or any(e['dur'] > t['conf']['interval'] > 0 for e in starts)
                                            or any(e['ev'] in ('change', 'stop') for e in t['events']))
        if interesting:
            rep.nontrivial([t['conf'], [{k: v for k, v in e.items() if k != 't'} for e in t['events']]])
        if t['stall']:
            rep.violation(f'{t["id"]}: the event loop stalled (a coroutine spins without yielding)', payload=t)
        elif verdicts[t['id']]['verdict'] != 'accepted':
            rep.violation(f'{t["id"]}: {verdicts[t["id"]]["verdict"]}', payload=t)
        elif verdicts[t['id']].get('family', 'none') != 'none':
            fam_ = verdicts[t['id']]['family']
            rep.classified(fam_, f'{t["id"]}: ' + ('the idle period was restarted by an event that is not a change' if fam_ == 'F6' else
                                                  'the timer task ended when the PATCH of its result was refused') +
                           f' (starts at {[e["t"] for e in t["events"] if e["ev"] == "start"]})', payload=t)
    rep.sample({'scenario': traces[3]['scenario'], 'trace': traces[3]['events'][:14]})
