"""C19 - watch coverage and continuity under reconnects, 410s and cluster changes.

(A) Watching.tla: the resume-version logic of continuous_watch against a server change log with EOF / connection errors /
    timeouts / 410 / bookmarks / unknown ERROR, exhaustively for 4 changes x 3 faults: NoSkip, SinceNeverAhead, AllReach;
    the negative configuration (a resume version ahead of what was streamed) must violate SinceNeverAhead.
(A') Orchestration.tla: revisions of the served (resource, namespace) pairs under the `revised` condition vs the orchestrator's
    adjustments (stop redundant watchers, forget their keys, spawn the missing ones): Coverage at rest and EventuallyCovered for
    every sequence of 4 revisions over 3 pairs; the negative model (lock released while adjusting) loses a wake-up.
(B) the REAL operator against the stateful fake API, judged by the property automaton WatchMonitor.tla in TLC:
    continuity  random object histories with stream faults at random positions (EOF, connection error, 410 after
                compaction, bookmarks, unsupported event types, unknown ERROR), with watches cut by the server's timeoutSeconds,
                the client's total timeout or kopf's inactivity timer, and list / watch requests answered 429 (with and without
                Retry-After), 503 or failing at the transport level n times in a row: every watch request resumes from exactly the
                latest version seen (last list or last released line), and at rest the consumer has seen the final state
                of every object (or its absence after a listing);
    coverage    namespaces and CRDs appearing and disappearing under a namespace pattern: at every checkpoint at rest
                exactly one watch is open per served (resource, namespace) pair and none for anything else.
"""
from __future__ import annotations

import json
import os
import random
import re
import shutil
import tempfile
from concurrent.futures import ProcessPoolExecutor
from typing import Any

from vf import observation, orchestration, streaming, tlc
from vf.evidence import MachineryFailure

OBJS = ['o1', 'o2', 'o3']


def run_continuity(sc: dict[str, Any]) -> dict[str, Any]:
    import kopf
    from sim.opsim import GROUP, PLURAL, VERSION, Sim, Stall
    sim = Sim(wall_budget=15)
    sim.world.max_steps = 300_000
    try:
        reg = sim.registry()
        kopf.on.event(GROUP, VERSION, PLURAL, registry=reg, id='see')(sim.handler('see', kind='event'))
        # scenario dimension `timeouts`: the watch is cut by the server (?timeoutSeconds), by the client (ClientTimeout.total) or by
        # kopf's own inactivity timer; `reqfaults`: the n-th list/watch request of the handled kind is answered 429 (with or
        # without Retry-After) a number of times in a row, or fails at the transport level
        tune = {{'server': 'watching__server_timeout', 'client': 'watching__client_timeout', 'inactivity': 'watching__inactivity_timeout'}[k]: v
                for k, v in (sc.get('timeouts') or {}).items()}
        base_tune = dict(watching__reconnect_backoff=1, networking__error_backoffs=(1, 1))
        base_tune.update(sc.get('tune') or {})
        op = sim.operator('op1', reg, sim.settings(**base_tune, **tune))
        sim.srv.rv = sc.get('rv0', 100)
        rf = {int(k): v for k, v in (sc.get('reqfaults') or {}).items()}
        nreq = {'n': 0, 'left': 0, 'what': None}
        if rf or sc.get('arms'):
            from sim.fakek8s import Fault, Plan

            def policy(req):
                if req.route.get('plural') != PLURAL or req.route.get('kind') not in ('list', 'watch'):
                    return None
                if nreq['left'] <= 0:
                    nreq['n'] += 1
                    if nreq['n'] in rf:
                        nreq['what'], nreq['left'] = rf[nreq['n']]
                if nreq['left'] > 0:
                    nreq['left'] -= 1
                    w = nreq['what']
                    return Plan(fault=Fault('status', 429, retry_after=2) if w == '429ra' else Fault('status', 429) if w == '429'
                                else Fault('status', 503) if w == '503' else Fault('status', 404) if w == '404' else Fault(w))
                return None
            sim.srv.policy = policy
        x = {o: 0 for o in OBJS}
        fatal_at: list[float] = []
        from sim.fakek8s import ResDef
        others = sim.srv.add_resource(ResDef(GROUP, VERSION, 'others', 'Other'))
        nb = [0]

        def things_watches():
            return [w for w in sim.srv.watches if w.res.plural == PLURAL]

        def do(opn, *a):
            if opn == 'add' and sim.obj(a[0]) is None:
                x[a[0]] += 1; sim.create(a[0], {'x': x[a[0]]})
            elif opn == 'edit' and sim.obj(a[0]) is None:
                x[a[0]] += 1; sim.create(a[0], {'x': x[a[0]]})
            elif opn == 'edit':
                x[a[0]] += 1; sim.set_spec(a[0], x=x[a[0]])
            elif opn == 'delete' and sim.obj(a[0]) is not None:
                sim.delete(a[0])
            elif opn in ('eof', 'conn', 'payload'):
                for w in things_watches(): w.end(opn)
            elif opn == 'compact':
                sim.srv.compact(sim.things)
            elif opn == 'arm':           # the next attempt of a list / watch request of the handled kind fails this way
                nreq['what'], nreq['left'] = a[0], 1
            elif opn == 'gone410':
                sim.srv.compact(sim.things)
                for w in things_watches(): w.end('eof')
            elif opn == 'bump':         # an object of an unrelated kind changes: the cluster's version moves, the stream of `things` is silent
                nb[0] += 1
                if sim.srv.get(others, 'default', 'x') is None: sim.srv.create(others, 'default', 'x', {'spec': {'n': nb[0]}})
                else: sim.srv.edit(others, 'default', 'x', lambda o_: o_.setdefault('spec', {}).update(n=nb[0]), actor='ext')
            elif opn == 'bookmark':
                sim.srv.bookmark(sim.things)
            elif opn == 'weird':
                for w in things_watches():
                    w.pending.append({'type': 'SOMETHING', 'object': {'metadata': {'resourceVersion': str(sim.srv.rv)}}}); w.release()
            elif opn == 'fatal':
                for w in things_watches():
                    sim.rec('env.fatal')
                    w.pending.append({'type': 'ERROR', 'object': {'kind': 'Status', 'code': 500, 'message': 'boom'}}); w.release()
        for (t, opn, *a) in sc['env']:
            sim.world.at(t, (lambda opn=opn, a=a: do(opn, *a)), 1)
        stall = False
        try:
            sim.run(sc['end'])
        except Stall:
            stall = True
        watched = sorted(f'{w.res.plural}|{w.ns or "*"}' for w in sim.srv.watches if w.res.plural == PLURAL)
        events = convert(sim.recorder.events, {PLURAL}, attempts=len(tuple(op.settings.networking.error_backoffs)) + 1) + [{'ev': 'check', 'served': [f'{PLURAL}|*'], 'watched': watched, 'settled': True, 'cscoped': []}]
        steps = [] if stall else streaming.segments(sim.recorder.events, streaming.conf_from_settings(op.settings), sc['id'], end_t=sc['end'])
        if not stall:
            op.finish()
        return {'id': sc['id'], 'events': events, 'stall': stall, 'scenario': sc, 'steps': steps}
    finally:
        sim.close()


def convert(raw: list[dict[str, Any]], plurals: set[str], attempts: int = 3) -> list[dict[str, Any]]:
    out = []
    failed: dict[tuple, int] = {}       # consecutive failed attempts of the current list / watch call per stream (api.request: len(backoffs)+1 attempts)
    opened: set[int] = set()
    held: dict[int, list[dict[str, Any]]] = {}       # catch-up lines are recorded before the request that opened their watch
    for e in raw:
        ev = e['ev']
        if ev == 'srv.create' and e.get('res') in plurals:
            out.append({'ev': 'commit', 'o': e['name'], 'rv': e['rv'], 'gone': False})
        elif ev == 'srv.write' and e.get('res') in plurals and not e.get('noop'):
            out.append({'ev': 'commit', 'o': e['name'], 'rv': e['rv'], 'gone': bool(e.get('gone'))})
        elif ev == 'srv.req' and e.get('plural') in plurals and e.get('kind') == 'list' and e.get('code') == 200:
            failed.pop((e.get('loop'), e['plural'], e.get('ns'), 'list'), None)
            out.append({'ev': 'list', 'key': f'{e["plural"]}|{e.get("ns") or "*"}', 'rv': e['listrv'], 'objs': e.get('names', []), 'covers': True})
        elif ev == 'srv.req' and e.get('plural') in plurals and e.get('kind') == 'watch' and e.get('code') == 200:
            failed.pop((e.get('loop'), e['plural'], e.get('ns'), 'watch'), None)
            out.append({'ev': 'open', 'key': f'{e["plural"]}|{e.get("ns") or "*"}', 'since': e.get('since') or 0})
            opened.add(e['watch']); out.extend(held.pop(e['watch'], []))
        elif (ev == 'srv.watch.line' and e.get('res') in plurals and e.get('rv') is not None
              and e.get('type') in ('ADDED', 'MODIFIED', 'DELETED', 'BOOKMARK')):       # (a line of a type the client does not know is skipped whole)
            (out if e['watch'] in opened else held.setdefault(e['watch'], [])).append({'ev': 'line', 'key': f'{e["res"]}|*', 'rv': e['rv'], 'watch': e['watch']})
        elif ev == 'h.enter' and e.get('kind') == 'event' and e.get('name') in OBJS:
            out.append({'ev': 'seen', 'o': e['name'], 'rv': e['rv'] or 0, 'gone': e.get('type') == 'DELETED'})
        elif ev == 'env.fatal':
            out.append({'ev': 'fatal', 'key': 'things|*', 'why': 'line'})
        elif ev == 'srv.fault' and e.get('plural') in plurals and e.get('route') in ('list', 'watch'):
            k = (e.get('loop'), e['plural'], e.get('ns'), e['route'])
            failed[k] = failed.get(k, 0) + 1
            if e.get('fault') == 'status' and 400 <= e.get('code', 0) < 500 and e.get('code') not in (401, 403, 429):
                failed[k] = 0               # any other 4xx is not retried: the call gives up at once, and nobody catches it
                out.append({'ev': 'fatal', 'key': f'{e["plural"]}|{e.get("ns") or "*"}', 'why': 'escalated'})
            elif failed[k] >= attempts:     # the call gives up with the error of its last attempt
                failed[k] = 0
                if e.get('fault') == 'status' and (e.get('code', 0) >= 500 or e.get('code') == 403):
                    out.append({'ev': 'fatal', 'key': f'{e["plural"]}|{e.get("ns") or "*"}', 'why': 'escalated'})
        elif ev == 'env.check':
            out.append({'ev': 'check', 'served': e['served'], 'watched': e['watched'], 'settled': False, 'cscoped': e.get('cscoped', [])})
        elif ev == 'srv.req' and e.get('plural') in plurals and e.get('kind') in ('list', 'watch') and e.get('code') == 404:
            out.append({'ev': 'notfound', 'key': f'{e["plural"]}|{e.get("ns") or "*"}'})
    return out


def run_coverage(sc: dict[str, Any]) -> dict[str, Any]:
    import kopf
    from sim.fakek8s import ResDef
    from sim.opsim import GROUP, PLURAL, VERSION, Sim, Stall
    sim = Sim(wall_budget=15)
    sim.world.max_steps = 300_000
    try:
        reg = sim.registry()
        kopf.on.event(GROUP, VERSION, PLURAL, registry=reg, id='see')(sim.handler('see', kind='event'))
        kopf.on.event(GROUP, VERSION, 'widgets', registry=reg, id='seew')(sim.handler('seew', kind='event'))
        kopf.on.event(GROUP, VERSION, 'cthings', registry=reg, id='seec')(sim.handler('seec', kind='event'))
        nsres = sim.srv.find('namespaces')
        widgets = ResDef(GROUP, VERSION, 'widgets', 'Widget', namespaced=True)
        # a cluster-scoped kind served by an operator that is restricted to namespaces: ONE cluster-wide watch, however many namespaces
        cthings = sim.srv.add_resource(ResDef(GROUP, VERSION, 'cthings', 'CThing', namespaced=False))
        sim.srv.create_crd_object(cthings)
        present_ns: set[str] = set()
        present_res = {PLURAL}
        sim.srv.create_crd_object(sim.things)
        for ns in sc['init_ns']:
            sim.srv.create(nsres, None, ns, {}); present_ns.add(ns)
        op = sim.operator('op1', reg, sim.settings(watching__reconnect_backoff=1), clusterwide=False, namespaces=['ns*'])
        events: list[dict[str, Any]] = []

        def check():
            served = sorted([f'{r}|{ns}' for r in present_res for ns in present_ns if ns.startswith('ns')]
                            + (['cthings|*'] if any(ns.startswith('ns') for ns in present_ns) else []))
            watched = sorted(f'{w.res.plural}|{w.ns or "*"}' for w in sim.srv.watches if w.res.plural in (PLURAL, 'widgets', 'cthings'))
            sim.rec('env.check', served=served, watched=watched, cscoped=['cthings|*'])

        def do(opn, *a):
            if opn == 'nsadd' and a[0] not in present_ns:
                sim.srv.create(nsres, None, a[0], {}); present_ns.add(a[0])
            elif opn == 'nsdel' and a[0] in present_ns:
                sim.srv.delete(nsres, None, a[0]); present_ns.discard(a[0])
            elif opn == 'crdadd' and 'widgets' not in present_res:
                sim.srv.add_resource(widgets, announce=True); present_res.add('widgets')
            elif opn == 'crddel' and 'widgets' in present_res:
                sim.srv.remove_resource(widgets); present_res.discard('widgets')
            elif opn == 'obseof':      # the observers' own streams (namespaces, CRDs) are cut
                for w in [w for w in sim.srv.watches if w.res.plural not in (PLURAL, 'widgets')]: w.end(a[0])
            elif opn == 'check':
                check()
            elif opn == 'burst':       # two changes a few event-loop cycles apart (while the orchestrator is still adjusting)
                first, gap, second = a
                do(*first)

                def hop(k):
                    if k <= 0: do(*second)
                    else: op.loop.call_soon(hop, k - 1)
                op.loop.call_soon(hop, gap)
        for (t, opn, *a) in sc['env']:
            sim.world.at(t, (lambda opn=opn, a=a: do(opn, *a)), 1)
        stall = False
        try:
            sim.run(sc['end']); check()
            steps = streaming.segments(sim.recorder.events, streaming.conf_from_settings(op.settings), sc['id'], end_t=sc['end'])
            orch = orchestration.trace_of(sim.recorder.events, 'op1', sc['id'], sim.insights_of('op1'))
            op.finish()
        except Stall:
            stall = True; steps = []; orch = None
        events = [e for e in convert(sim.recorder.events, {PLURAL, 'widgets', 'cthings'}) if e['ev'] in ('check', 'notfound', 'open', 'list')]
        return {'id': sc['id'], 'events': events, 'stall': stall, 'scenario': sc, 'steps': steps, 'orch': orch, 'obs': observation.of_run(sim.recorder.events)}
    finally:
        sim.close()


def run_crdmod(sc: dict[str, Any]) -> dict[str, Any]:
    """CRDs are MODIFIED at run time: a new preferred version appears / goes, a category used by a selector goes / comes back."""
    import kopf
    from sim.fakek8s import ResDef
    from sim.opsim import Sim, Stall
    G2 = 'g2.example.com'
    sim = Sim(wall_budget=15)
    sim.world.max_steps = 300_000
    try:
        reg = sim.registry()
        kopf.on.event('gadgets', registry=reg, id='seeg')(sim.handler('seeg', kind='event'))          # by name: the preferred version
        kopf.on.event(category='catx', registry=reg, id='seec')(sim.handler('seec', kind='event'))     # by category
        nsres = sim.srv.find('namespaces')
        sim.srv.create(nsres, None, 'ns1', {})
        g1 = sim.srv.add_resource(ResDef(G2, 'v1', 'gadgets', 'Gadget'), announce=True)
        g2 = ResDef(G2, 'v2', 'gadgets', 'Gadget')
        gz = sim.srv.add_resource(ResDef('g3.example.com', 'v1', 'gizmos', 'Gizmo', categories=('catx',)), announce=True)     # its own group
        state = {'v2': False, 'cat': True}
        op = sim.operator('op1', reg, sim.settings(watching__reconnect_backoff=1), clusterwide=False, namespaces=['ns*'])

        def check():
            served = [f'gadgets.{"v2" if state["v2"] else "v1"}|ns1'] + (['gizmos.v1|ns1'] if state['cat'] else [])
            watched = sorted(f'{w.res.plural}.{w.res.version}|{w.ns or "*"}' for w in sim.srv.watches if w.res.group in (G2, 'g3.example.com'))
            sim.rec('env.check', served=sorted(served), watched=watched)

        def do(opn):
            if opn == 'v2add' and not state['v2']:
                sim.srv.resources[g2.key] = g2; sim.srv.log.setdefault(g2.key, []); sim.srv.preferred[G2] = 'v2'; state['v2'] = True
                sim.srv.touch_crd_object(g1)
            elif opn == 'v2del' and state['v2']:
                sim.srv.resources.pop(g2.key, None); sim.srv.preferred.pop(G2, None); state['v2'] = False
                for w in [w for w in sim.srv.watches if w.res.key == g2.key]: w.end('eof')
                sim.srv.touch_crd_object(g1)
            elif opn == 'catdel' and state['cat']:
                gz.categories = (); state['cat'] = False; sim.srv.touch_crd_object(gz)
            elif opn == 'catadd' and not state['cat']:
                gz.categories = ('catx',); state['cat'] = True; sim.srv.touch_crd_object(gz)
            elif opn == 'check':
                check()
        for (t, opn) in sc['env']:
            sim.world.at(t, (lambda opn=opn: do(opn)), 1)
        stall = False
        try:
            sim.run(sc['end']); check()
            steps = streaming.segments(sim.recorder.events, streaming.conf_from_settings(op.settings), sc['id'], end_t=sc['end'])
            orch = orchestration.trace_of(sim.recorder.events, 'op1', sc['id'], sim.insights_of('op1'))
            op.finish()
        except Stall:
            stall = True; steps = []; orch = None
        events = [e for e in convert(sim.recorder.events, set()) if e['ev'] == 'check']
        return {'id': sc['id'], 'events': events, 'stall': stall, 'scenario': sc, 'steps': steps, 'orch': orch, 'obs': observation.of_run(sim.recorder.events)}
    finally:
        sim.close()


def tlc_scenarios(seed: int, num: int, depth: int = 90) -> list[dict[str, Any]]:
    """Leg C: behaviours drawn by TLC (-simulate on Sim_Streaming: the watcher model closed with a server) turned into scenarios: the
    environment's choices of the behaviour (changes, compaction, request faults, connection ends, bookmarks, odd lines) at their
    instants, under the configuration TLC chose; what the real operator does with them is validated like every other run."""
    from vf import tlaval
    scratch = tempfile.mkdtemp(prefix='vf-simst-')
    out = []
    try:
        tlc.run('Sim_Streaming', 'Sim_Streaming.cfg', workers=1, simulate=f'file={scratch}/tr,num={num}', depth=depth, seed=seed, timeout=600)
        for fn in sorted(f for f in os.listdir(scratch) if f.startswith('tr_')):
            text = open(os.path.join(scratch, fn)).read()
            hm = list(re.finditer(r'/\\ hist = (<<.*?>>)\n/\\', text, re.S))
            cm = list(re.finditer(r'/\\ conf = (\[[^\]]*\])', text))
            if not hm or not cm:
                continue
            hist = tlaval.parse(hm[-1].group(1)); conf = tlaval.parse(cm[-1].group(1))
            env = []
            for (t, a, x) in hist:
                if a == 'edit': env.append((t, 'edit', OBJS[len(env) % 3]))
                elif a == 'fail': env.append((t, 'arm', x))
                elif a in ('compact', 'eof', 'conn', 'bookmark', 'weird', 'fatal'): env.append((t, a))
            if not env:
                continue
            sc = {'id': f'tlc-{seed}-{fn}', 'env': env, 'end': max(e[0] for e in env) + 25, 'rv0': 98, 'arms': True, 'from_tlc': True,
                  'tune': {'watching__reconnect_backoff': int(conf['backoff']), 'networking__error_backoffs': tuple(int(b) for b in conf['eb'])}}
            to = {}
            if conf['cli']: to['client'] = int(conf['cli'])
            if conf['ina']: to['inactivity'] = int(conf['ina'])
            if to: sc['timeouts'] = to
            out.append(sc)
        return out
    finally:
        shutil.rmtree(scratch, ignore_errors=True)


def gen_crdmod(seed: int, n: int) -> list[dict[str, Any]]:
    rnd = random.Random(f'crdmod-{seed}')
    out = [{'id': 'crdmod-crafted', 'env': [(10, 'check'), (12, 'v2add'), (22, 'check'), (24, 'catdel'), (34, 'check'), (36, 'v2del'), (46, 'check'), (48, 'catadd')], 'end': 60}]
    for i in range(n):
        env = []; t = 4
        for _ in range(rnd.randint(1, 6)):
            t += rnd.choice([1, 2, 4, 9]); env.append((t, rnd.choice(['v2add', 'v2del', 'catdel', 'catadd'])))
            if rnd.random() < 0.6:
                t += 9; env.append((t, 'check'))
        out.append({'id': f'crdmod-{seed}-{i}', 'env': env, 'end': t + 15})
    return out


def gen_continuity(seed: int, n: int) -> list[dict[str, Any]]:
    rnd = random.Random(f'cont-{seed}')
    out = []
    for i in range(n):
        env = []; t = 1
        for _ in range(rnd.randint(4, 16)):
            t += rnd.choice([0, 0, 1, 1, 2, 3])
            opn = rnd.choices(['add', 'edit', 'delete', 'eof', 'conn', 'payload', 'gone410', 'bookmark', 'weird', 'fatal'],
                              [4, 8, 2, 3, 2, 1, 3, 2, 1, 0.3])[0]
            env.append((t, opn, rnd.choice(OBJS)) if opn in ('add', 'edit', 'delete') else (t, opn))
        sc = {'id': f'cont-{seed}-{i}', 'env': env, 'end': t + 30, 'rv0': rnd.choice([5, 8, 95, 98, 100, 993, 997, 4321])}
        r2 = random.Random(f'cont-x-{seed}-{i}')        # (a stream of its own: the histories of earlier rounds stay as they were)
        # bookmarks that say something: the version of the cluster has moved on (another kind changed) while `things` were silent
        sc['env'] = [x_ for e_ in env for x_ in (([(e_[0], 'bump')] if e_[1] == 'bookmark' and r2.random() < 0.7 else []) + [e_])]
        if i % 5 == 4:
            tb = r2.randint(2, max(3, t)); sc['env'] = sorted(sc['env'] + [(tb, 'bump'), (tb, 'bookmark'), (tb + r2.choice([0, 1, 2]), r2.choice(['eof', 'conn']))], key=lambda e_: e_[0])
        if i % 3 == 1:
            sc['timeouts'] = {r2.choice(['server', 'client', 'inactivity']): r2.choice([2, 3, 5])}
            if r2.random() < 0.3: sc['timeouts'][r2.choice(['server', 'client', 'inactivity'])] = r2.choice([2, 4, 7])
        if i % 3 == 2:
            sc['reqfaults'] = {str(r2.randint(1, 6)): (r2.choice(['429', '429ra', '503', 'conn', 'timeout']), r2.choice([1, 2, 3, 4]))
                               for _ in range(r2.randint(1, 3))}
        out.append(sc)
    return out


def gen_coverage(seed: int, n: int) -> list[dict[str, Any]]:
    rnd = random.Random(f'cov-{seed}')
    # the history in which F25 was found: a kind removed and re-added within a few loop cycles
    out = [{'id': 'cov-crafted-f25', 'init_ns': ['ns2', 'other'], 'env': [(8, 'crdadd'), (16, 'check'), (20, 'burst', ('crddel',), 2, ('crdadd',)), (30, 'check')], 'end': 50}]
    for i in range(n):
        env = []; t = 2
        for _ in range(rnd.randint(2, 8)):
            t += rnd.choice([1, 2, 3, 6])
            opn = rnd.choice(['nsadd', 'nsadd', 'nsdel', 'crdadd', 'crddel', 'obseof'])
            env.append((t, opn, rnd.choice(['ns1', 'ns2', 'other'])) if opn.startswith('ns') else
                       (t, opn, rnd.choice(['eof', 'conn'])) if opn == 'obseof' else (t, opn))
            if rnd.random() < 0.4:
                t += rnd.choice([1, 3])
                one = lambda: rnd.choice([('nsdel', rnd.choice(['ns1', 'ns2'])), ('nsadd', rnd.choice(['ns1', 'ns2'])), ('crddel',), ('crdadd',)])
                env.append((t, 'burst', one(), rnd.randint(0, 20), one()))
            if rnd.random() < 0.5:
                t += 8; env.append((t, 'check'))
        out.append({'id': f'cov-{seed}-{i}', 'init_ns': rnd.sample(['ns1', 'ns2', 'other'], rnd.randint(0, 3)), 'env': env, 'end': t + 20})
    return out


_RE = re.compile(r'<<\s*"MONITOR",\s*(\d+),\s*"([^"]*)",\s*"([^"]*)"\s*>>')


def judge(traces, rep) -> dict[str, str]:
    scratch = tempfile.mkdtemp(prefix='vf-wm-')
    try:
        path = os.path.join(scratch, 'traces.json')
        with open(path, 'w') as f:
            json.dump([{'id': t['id'], 'events': t['events']} for t in traces], f)
        cfg = 'SPECIFICATION Spec\nCONSTANT ObjsU = {"o1", "o2", "o3"}\nCONSTRAINT Book\nPOSTCONDITION Verdicts\nCHECK_DEADLOCK FALSE\n'
        r = tlc.run('WatchMonitor', cfg_text=cfg, workers=1, env={'TRACE_FILE': path}, timeout=1800)
    finally:
        shutil.rmtree(scratch, ignore_errors=True)
    if not r.ok:
        raise MachineryFailure(f'WatchMonitor failed: {r.violated} {r.errors}\n{r.out[-3000:]}')
    rep.add_tlc('WatchMonitor', r)
    got = {int(m.group(1)): m.group(3) for m in _RE.finditer(r.out)}
    if len(got) != len(traces) or 'incomplete' in got.values():
        raise MachineryFailure(f'WatchMonitor: {len(got)} verdicts for {len(traces)} traces\n{r.out[-1500:]}')
    return {t['id']: got[i] for i, t in enumerate(traces, start=1)}


def run(ctx, rep) -> None:
    rep.rule = ('(A) TLC exhaustive on Watching (2 positive + 1 negative config); (B) continuity and coverage scenarios on the real operator '
                'judged by WatchMonitor; non-trivial = a trace with at least one stream fault / re-listing, or one namespace/CRD change')
    for c in ['pos', 'pos2']:
        r = tlc.run('Watching', f'MC_Watching_{c}.cfg')
        rep.add_tlc(f'MC_Watching_{c}', r)
        if not r.ok:
            rep.violation(f'Watching design check {c}: {r.violated}', files={'tlc.out': r.out[-100000:]})
    r = tlc.run('Watching', 'MC_Watching_neg.cfg')
    if r.ok:
        raise MachineryFailure('negative configuration of Watching did not violate SinceNeverAhead')
    rep.extra['negative_config'] = 'MC_Watching_neg (EagerBookmark): SinceNeverAhead violated, as required'
    # the orchestrator: revisions of the served pairs vs the watcher tasks (condition lock held while adjusting)
    r = tlc.run('Orchestration', 'MC_Orchestration.cfg')
    rep.add_tlc('MC_Orchestration', r)
    if not r.ok:
        rep.violation(f'Orchestration design check: {r.violated} {r.errors[:1]}', files={'tlc.out': r.out[-100000:]})
    r = tlc.run('Orchestration', 'MC_Orchestration_cs.cfg')       # with a cluster-scoped kind: Coverage up to the family F34
    rep.add_tlc('MC_Orchestration_cs', r)
    if not r.ok:
        rep.violation(f'Orchestration design check (cluster-scoped kind): {r.violated} {r.errors[:1]}', files={'tlc.out': r.out[-100000:]})
    r = tlc.run('Orchestration', 'MC_Orchestration_unb.cfg')      # any number of revisions over 4 pairs (the counter is outside the VIEW)
    rep.add_tlc('MC_Orchestration_unb', r)
    if not r.ok:
        rep.violation(f'Orchestration design check (unbounded revisions): {r.violated} {r.errors[:1]}', files={'tlc.out': r.out[-100000:]})
    for cfg, inv in (('MC_Orchestration_neg.cfg', 'Coverage'), ('MC_Orchestration_f15.cfg', 'NoFamily'), ('MC_Orchestration_f34.cfg', 'NoF34')):
        rn = tlc.run('Orchestration', cfg)
        if rn.ok or ('invariant', inv) not in rn.violated:
            raise MachineryFailure(f'{cfg} did not violate {inv}: {rn.violated}')
    rep.extra['negative_config_orchestration'] = ('MC_Orchestration_neg (lock released while adjusting: lost wake-up): Coverage violated; '
                                                  'MC_Orchestration_f15: the family of watchers that die on their own (F15, F25) is reachable')
    # the implementation-shaped model of one watcher task (Streaming.tla) closed with a server: continuity, pauses, inactivity
    for c in (['q'] if ctx.quick else ['q', 'pos']):
        r = tlc.run('MC_Streaming', f'MC_Streaming_{c}.cfg', timeout=3000)
        rep.add_tlc(f'MC_Streaming_{c}', r)
        if not r.ok:
            rep.violation(f'Streaming design check {c}: {r.violated} {r.errors[:1]}', files={'tlc.out': r.out[-100000:]})
    rn = tlc.run('MC_Streaming', 'MC_Streaming_neg.cfg')
    if rn.ok or ('invariant', 'SinceNeverAhead') not in rn.violated:
        raise MachineryFailure(f'MC_Streaming_neg did not violate SinceNeverAhead: {rn.violated}')
    rep.extra['negative_config_streaming'] = 'MC_Streaming_neg (after a 410 the watch resumes from the version the server names instead of re-listing): SinceNeverAhead violated'
    tlcs = tlc_scenarios(ctx.seed + 1, 40 if ctx.quick else 800)
    rep.extra['tlc_generated_histories'] = len(tlcs)
    cont = gen_continuity(ctx.seed, 150 if ctx.quick else 4000) + tlcs
    cov = gen_coverage(ctx.seed, 60 if ctx.quick else 1500)
    with ProcessPoolExecutor(16) as ex:
        traces = (list(ex.map(run_continuity, cont, chunksize=4)) + list(ex.map(run_coverage, cov, chunksize=2))
                  + list(ex.map(run_crdmod, gen_crdmod(ctx.seed, 20 if ctx.quick else 600), chunksize=2)))
    verdicts = judge(traces, rep)
    rep.evaluations += len(traces); rep.traces += len(traces)
    for t in traces:
        if sum(1 for e in t['events'] if e['ev'] in ('list', 'check')) > 1:
            rep.nontrivial(t['events'])
        v = verdicts[t['id']]
        if t['stall']:
            rep.violation(f'{t["id"]}: event loop stalled', payload=t)
        elif v != 'ok':
            rep.classified(v if v in ('F15', 'F25', 'F32', 'F34') else '', f'{t["id"]}: {v}', payload=t)
    # "while paused nothing is listed or watched, and watching restarts on resume": one operator, a peering per served namespace, foreign
    # records that block and free single peerings, namespaces that disappear (with a blocked peering) and come back - PauseSet.tla
    # requires at every rest point that the streams are open iff no peering that is still served reports a conflict
    from vf import peering as P
    dscs = P.gen_dims(ctx.seed + 11, 30 if ctx.quick else 600)
    with ProcessPoolExecutor(16) as ex:
        dtraces = list(ex.map(P.run_dims, dscs, chunksize=2))
    dv = P.judge_dims(dtraces, rep)
    rep.evaluations += len(dtraces); rep.traces += len(dtraces)
    for t in dtraces:
        if t['stall']:
            rep.violation(f'{t["id"]}: event loop stalled', payload=t)
        elif dv[t['id']] != 'ok':
            rep.violation(f'{t["id"]}: {dv[t["id"]]}', payload=t)
    # step conformance: every watcher task of every run above (the observers' own streams and the peerings' included) against
    # Streaming.tla, second by second -- the version each watch resumes from, the instant of every request (backoffs, Retry-After,
    # reconnect_backoff, the inactivity timer), the hand-over of every event to the multiplexer, the closing of the stream on a pause
    segs = [s for t in traces + dtraces for s in t.get('steps', []) if s['bindable'] and s['conf']]
    sv = streaming.judge(segs, rep)
    rep.evaluations += len(segs); rep.traces += len(segs)
    rep.extra['streaming_segments'] = len(segs)
    rep.extra['streaming_events'] = sum(len(s['events']) for s in segs)
    for s in segs:
        if sum(1 for e in s['events'] if e['ev'] in ('fail', 'end', 'pause')) > 0:
            rep.nontrivial(s['events'])
        if sv[s['id']]['verdict'] != 'accepted':
            rep.violation(f'{s["id"]}: watcher task is not a behaviour of Streaming.tla: {sv[s["id"]]["verdict"]}', payload=s)
    # step conformance of the orchestrator: every adjustment (with the insights it read) and every start / end of a watcher task of
    # the coverage and CRD-modification runs against Orchestration.tla
    ots = [t['orch'] for t in traces if t.get('orch')]
    ov = orchestration.judge(ots, rep)
    rep.evaluations += len(ots); rep.traces += len(ots)
    rep.extra['orchestration_traces'] = len(ots)
    for t in ots:
        if sum(1 for e in t['events'] if e['ev'] in ('spawn', 'exit')) > 2:
            rep.nontrivial(t['events'])
        if ov[t['id']]['verdict'] != 'accepted':
            rep.violation(f'{t["id"]}: the orchestrator is not a behaviour of Orchestration.tla: {ov[t["id"]]["verdict"]}', payload=t)
    # the observers: every call of revise_resources / revise_namespaces inside the operators of the coverage and CRD-modification runs
    # (the scanned resources, the registry's selectors, the namespace events; the insights before and after) and on generated clusters x
    # selector sets x re-scans, judged by the reference of Observation.tla
    orecs = [dict(r, run=t['id']) for t in traces for r in t.get('obs', [])]
    gen = observation.generated(ctx.seed, 300 if ctx.quick else 6000)
    uniq, obad = observation.judge([{k: v for k, v in r.items() if k != 'run'} for r in orecs] + gen, rep)
    rep.evaluations += len(uniq); rep.traces += len(uniq)
    rep.extra['observation_records'] = {'from_runs': len(orecs), 'generated': len(gen), 'distinct': len(uniq)}
    for r in uniq:
        if r['kind'] == 'res' and r['group'] != 'all' or r['kind'] == 'ns' and r['before'] != r['after']:
            rep.nontrivial(r)
    for i, label in sorted(obad.items()):
        rep.violation(f'{label}: {json.dumps(uniq[i])[:600]}', payload=uniq[i])
    # what feeds the observers: the real scan_resources on generated API discovery documents (several versions and a preferred one,
    # subresources, namesakes, versions that are gone, limited re-scans) against the reference function of Discovery.tla
    from vf import discovery
    discovery.stage(ctx, rep, 'C19')
    rep.sample({'scenario': traces[0]['scenario'], 'events_head': traces[0]['events'][:12]}); rep.sample(traces[-1]['events'][-3:])
    if ots:
        rep.sample({'orchestrator': ots[1]['id'], 'events_head': ots[1]['events'][:12]})
    if segs:
        rep.sample({'watcher': segs[0]['id'], 'conf': segs[0]['conf'], 'events_head': segs[0]['events'][:14]})
