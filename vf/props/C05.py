"""C05 — each event maps to exactly one cause; handler kinds are mutually exclusive.

(A) MC_Causes: the laws of the statement on the reference classifier, all 128 input combinations.
(B) function level: every combination is materialised as a REAL body (stored last-handled
    annotation or status field, finalizer list incl. foreign ones, deletionTimestamp) and REAL
    memory flags, pushed through the real processing._detect_causes and then the real
    processing.process_changing_cause with one recording handler per kind; the records are judged
    by Causes!ClassifyCause in TLC.
(C) system level: the closed-loop traces of the Handling checks carry reason/deleting/finalizer of
    every handler invocation; see vf/props/handling_common.py (InvokeCauseOk in Handling.tla).
"""
from __future__ import annotations

import asyncio
import copy
import itertools
import logging

from vf import records, tlc
from vf.evidence import MachineryFailure

FIN = 'kopf.zalando.org/KopfFinalizerMarker'


async def _build_cases_async(storage_name: str):
    import kopf
    from kopf._cogs.structs import bodies, patches, references
    from kopf._core.actions import lifecycles, loggers
    from kopf._core.engines import indexing
    from kopf._core.reactor import inventory, processing

    resource = references.Resource('example.com', 'v1', 'things', namespaced=True)
    settings = kopf.OperatorSettings()
    settings.posting.enabled = False
    if storage_name == 'status':
        settings.persistence.diffbase_storage = kopf.StatusDiffBaseStorage(field='status.kopf.last')
        settings.persistence.progress_storage = kopf.StatusProgressStorage(field='status.kopf.progress')
    elif storage_name == 'multi':
        settings.persistence.diffbase_storage = kopf.MultiDiffBaseStorage([
            kopf.AnnotationsDiffBaseStorage(prefix='my-op.example.com', key='last'),
            kopf.StatusDiffBaseStorage(field='status.myop.last')])
        settings.persistence.progress_storage = kopf.AnnotationsProgressStorage(prefix='my-op.example.com')
    settings.persistence.finalizer = FIN

    invoked: list[str] = []
    registry = kopf.OperatorRegistry()

    def mk(kind):
        async def fn(**_):
            invoked.append(kind)
        fn.__name__ = fn.__qualname__ = kind
        return fn
    R = ('example.com', 'v1', 'things')
    kopf.on.create(*R, registry=registry, id='create')(mk('create'))
    kopf.on.update(*R, registry=registry, id='update')(mk('update'))
    kopf.on.delete(*R, registry=registry, id='delete')(mk('delete'))
    kopf.on.delete(*R, registry=registry, id='deleteopt', optional=True)(mk('deleteopt'))
    kopf.on.resume(*R, registry=registry, id='resume')(mk('resume'))
    kopf.on.resume(*R, registry=registry, id='resumedel', deleted=True)(mk('resumedel'))
    # a namesake: another kind with the same plural in another group, watched for a field of the status; one of its objects is seen first.
    # The classification of an object of the one kind follows from that object alone -- not from what the other kind declares
    TW = ('other.example.com', 'v1', 'things')
    kopf.on.update(*TW, registry=registry, id='tw_f', field='status.other')(mk('tw_f'))
    kopf.on.create(*TW, registry=registry, id='tw_c')(mk('tw_c'))
    tw_raw = {'apiVersion': 'other.example.com/v1', 'kind': 'Thing', 'metadata': {'name': 'o', 'namespace': 'ns', 'uid': 'u0', 'resourceVersion': '3'},
              'spec': {'x': 1}, 'status': {'other': 0}}
    tw_body = bodies.Body(tw_raw)
    processing._detect_causes(
        indexers=indexing.OperatorIndexers(), registry=registry, settings=settings, resource=references.Resource(*TW, namespaced=True),
        raw_event={'type': 'ADDED', 'object': tw_raw}, body=tw_body, patch=patches.Patch(), memory=inventory.ResourceMemory(),
        local_logger=loggers.LocalObjectLogger(body=tw_body, settings=settings), event_logger=loggers.LocalObjectLogger(body=tw_body, settings=settings))

    recs = []
    for ev, deleting, blocked, stored, nbl, fho, foreign, bare in itertools.product(
            ['NONE', 'ADDED', 'MODIFIED', 'DELETED'], [False, True], [False, True],
            ['none', 'same', 'differs'], [False, True], [False, True], [False, True], [False, True]):
        raw = {'apiVersion': 'example.com/v1', 'kind': 'Thing',
               'metadata': {'name': 'o', 'namespace': 'ns', 'uid': 'u1', 'resourceVersion': '7',
                            'labels': {'l': 'v'}},
               'spec': {'x': 2}, 'status': {'other': 1}}
        if bare:        # an object whose essence is empty: no spec, no labels, no annotations of its own
            del raw['spec']; del raw['metadata']['labels']
        fins = (['other.example.com/first'] if foreign else []) + ([FIN] if blocked else []) \
            + (['other.example.com/last'] if foreign else [])
        if fins:
            raw['metadata']['finalizers'] = fins
        if deleting:
            raw['metadata']['deletionTimestamp'] = '2030-01-01T00:00:00Z'
        if stored != 'none':
            src = copy.deepcopy(raw)
            if stored == 'differs':
                src['spec'] = {'x': 1}
            ess = settings.persistence.diffbase_storage.build(body=bodies.Body(src), extra_fields=set())
            p = patches.Patch()
            settings.persistence.diffbase_storage.store(body=bodies.Body(raw), patch=p, essence=ess)
            from vf.jv import merge_patch
            raw = merge_patch(raw, dict(p))
        memory = inventory.ResourceMemory(noticed_by_listing=nbl, fully_handled_once=fho)
        body = bodies.Body(raw)
        patch = patches.Patch()
        logger = loggers.LocalObjectLogger(body=body, settings=settings)
        raw_event = {'type': None if ev == 'NONE' else ev, 'object': raw}
        cs = processing._detect_causes(
            indexers=indexing.OperatorIndexers(), registry=registry, settings=settings, resource=resource,
            raw_event=raw_event, body=body, patch=patch, memory=memory, local_logger=logger, event_logger=logger)
        cause = cs.changing_cause
        if cause is None:
            raise MachineryFailure('no changing cause detected although change handlers are registered')
        invoked.clear()
        await processing.process_changing_cause(
            lifecycle=lifecycles.all_at_once, registry=registry, settings=settings, memory=memory, cause=cause)
        recs.append({
            'in': {'ev': ev, 'deleting': deleting, 'blocked': blocked, 'hasOld': stored != 'none',
                   'differs': stored == 'differs', 'initial': nbl and not fho,
                   'storage': storage_name, 'foreign': foreign, 'bare': bare},
            'out': {'reason': cause.reason.value, 'initial': bool(cause.initial),
                    'kinds': sorted(set(invoked)), 'invoked': len(invoked)},
        })
    return recs


def _build_cases(storage_name: str):
    return asyncio.run(_build_cases_async(storage_name))


def run(ctx, rep) -> None:
    logging.disable(logging.CRITICAL)
    rep.rule = ('(A) one TLC state per input combination of the classifier; (B) every combination x storage '
                'configuration x foreign-finalizer variant materialised as a real body and judged by '
                'Causes!ClassifyCause; non-trivial = distinct (input, reason, invoked kinds) with a handler reason')
    r = tlc.run('MC_Causes', 'MC_Causes.cfg', coverage=not ctx.quick)
    rep.add_tlc('MC_Causes', r, 'all 4x2x2x2x2x2 inputs')
    if not r.ok:
        rep.violation(f'reference laws violated in MC_Causes: {r.violated}', files={'tlc.out': r.out})
        return
    recs = []
    for storage in ['annotations', 'status', 'multi']:
        recs += _build_cases(storage)
    bad = records.judge('Rec_Causes', recs, rep=rep)
    rep.evaluations += len(recs)
    rep.traces += len(recs)
    rep.exhaustive = True
    for rec in recs:
        if rec['out']['kinds']:
            rep.nontrivial([rec['in'], rec['out']])
    for i in (0, 75, 400):
        rep.sample(recs[i])
    for i, label in sorted(bad.items()):
        rep.classified(label if label.startswith('F') else '', f'{label}: {recs[i]}', payload=recs[i])
    # (C) system level: closed-loop traces; Trace_Handling evaluates InvokeCauseOk (what may be invoked on which object
    # state) on every invocation and binds reason / view of each handler call to the specification's classification
    from vf import handling as H
    from vf.props import _family
    n = 40 if ctx.quick else 800
    scs = H.gen_scenarios(ctx.seed, n, 'resume') + H.gen_scenarios(ctx.seed, n, 'finalizer') + H.gen_scenarios(ctx.seed, n, 'converge')
    _family.run_traces(rep, scs, 'resume+finalizer+converge', nontrivial=lambda f: bool(f & {'several-reasons', 'resume', 'delete'}))
    # "creation (never handled before)" over histories in which views older than the operator's own writes arrive while the patch of a
    # raw-event handler is pending: FreshMonitor.tla (no creation handler on an object whose last-handled state has been stored)
    from concurrent.futures import ProcessPoolExecutor
    from vf.props import C07
    fscs = [s_ for s_ in C07.fresh_scenarios(ctx.seed + 9, 80 if ctx.quick else 1500) if s_.get('mirror')]
    with ProcessPoolExecutor(16) as ex:
        ftr = list(ex.map(C07.fresh_case, fscs, chunksize=4))
    fv = C07.judge_fresh(ftr, rep)
    rep.evaluations += len(ftr); rep.traces += len(ftr)
    for t in ftr:
        if fv[t['id']] != 'ok':
            rep.violation(f'{t["id"]}: {fv[t["id"]]} {t["scenario"]}', payload=t)
