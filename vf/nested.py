"""Runs for spec/ConvergeMonitor.tla (C03): the real operator with a change handler whose sub-handler registers sub-handlers of its own (and a
sibling leaf), failing leaves, edits made at rest, a restart with an edit made while no operator was running; what each handler of each level
saw and returned, and the object at rest (the progress records left on it, its last-handled and its current essence)."""
from __future__ import annotations

import json
import os
import random
import re
import shutil
import tempfile
from typing import Any

from vf import tlc
from vf.evidence import MachineryFailure

HANDLERS = ['a', 'a/x', 'a/x/p', 'a/x/q', 'a/y']
PREFIX = 'kopf.zalando.org'


def run_case(sc: dict[str, Any]) -> dict[str, Any]:
    import kopf
    from sim.opsim import GROUP, PLURAL, VERSION, Sim, Stall
    sim = Sim(wall_budget=20)
    sim.world.max_steps = 400_000
    try:
        events: list[dict[str, Any]] = []
        fails = {k: list(v) for k, v in (sc.get('fails') or {}).items()}      # handler id -> the essences on which its first call fails

        def leave(hid: str, ess: int) -> None:
            if ess in fails.get(hid, []):
                fails[hid].remove(ess)
                events.append({'ev': 'done', 'id': hid, 'how': 'temp', 'ess': ess, 't': sim.now})
                raise kopf.TemporaryError('scripted', delay=sc.get('delay', 3))
            events.append({'ev': 'done', 'id': hid, 'how': 'ok', 'ess': ess, 't': sim.now})

        async def a(spec, **_: Any) -> None:
            ess = spec['x']

            @kopf.subhandler(id='x')
            async def x(spec, **_: Any) -> None:
                @kopf.subhandler(id='p')
                async def p(spec, **_: Any) -> None:
                    leave('a/x/p', spec['x'])

                @kopf.subhandler(id='q')
                async def q(spec, **_: Any) -> None:
                    leave('a/x/q', spec['x'])
                leave('a/x', spec['x'])

            @kopf.subhandler(id='y')
            async def y(spec, **_: Any) -> None:
                leave('a/y', spec['x'])
            leave('a', ess)

        def make() -> Any:
            reg = sim.registry()
            kopf.on.create(GROUP, VERSION, PLURAL, registry=reg, id='a')(a)
            kopf.on.update(GROUP, VERSION, PLURAL, registry=reg, id='a')(a)
            if sc.get('resume'):
                kopf.on.resume(GROUP, VERSION, PLURAL, registry=reg, id='a')(a)
            return sim.operator(f'op{len(sim.ops) + 1}', reg, sim.settings())
        state: dict[str, Any] = {'op': make(), 'x': 1}
        sim.world.at(1, lambda: sim.create('o1', {'x': 1}), 1)

        def rest() -> None:
            o = sim.obj('o1')
            if o is None: return
            ann = o['metadata'].get('annotations') or {}
            recs = sorted(k for k in ann if k.startswith(PREFIX + '/') and not k.endswith('last-handled-configuration') and 'touch-dummy' not in k)
            lh = json.loads(ann.get(f'{PREFIX}/last-handled-configuration') or '{}').get('spec', {}).get('x', 0)
            events.append({'ev': 'rest', 'records': recs, 'lh': lh, 'ess': o['spec']['x'], 't': sim.now})

        def do(opn: str) -> None:
            if opn == 'edit':
                state['x'] += 1; sim.set_spec('o1', x=state['x'])
            elif opn == 'rest':
                rest()
            elif opn == 'stop' and state['op'] is not None:
                state['op'].stop()
            elif opn == 'start':
                state['op'] = make()
        for (t, opn) in sc['env']:
            sim.world.at(t, (lambda opn=opn: do(opn)), 1)
        stall = False
        try:
            sim.run(sc['end']); rest()
            state['op'].finish()
        except Stall:
            stall = True
        return {'id': sc['id'], 'handlers': HANDLERS, 'events': events, 'stall': stall, 'scenario': sc}
    finally:
        sim.close()


def scenarios(seed: int, n: int) -> list[dict[str, Any]]:
    rnd = random.Random(f'nested-{seed}')
    out = [{'id': 'nested-crafted-0', 'env': [(30, 'rest'), (31, 'edit'), (60, 'rest')], 'end': 61, 'fails': {}},
           {'id': 'nested-crafted-restart', 'env': [(30, 'rest'), (31, 'stop'), (40, 'edit'), (45, 'start'), (80, 'rest')], 'end': 81, 'fails': {'a/x/p': [1]}, 'resume': True}]
    for i in range(n):
        env: list[tuple] = []; t = 1; x = 1
        fails: dict[str, list[int]] = {}
        for _ in range(rnd.randint(1, 4)):
            t += 30; env.append((t, 'rest'))
            if rnd.random() < 0.3:
                env += [(t + 1, 'stop'), (t + 8, 'edit'), (t + 12, 'start')]; t += 12
            else:
                env.append((t + 1, 'edit')); t += 1
            x += 1
            for hid in rnd.sample(HANDLERS[1:], rnd.randint(0, 2)):
                fails.setdefault(hid, []).append(x)
        out.append({'id': f'nested-{seed}-{i}', 'env': env, 'end': t + 35, 'fails': fails, 'delay': rnd.choice([1, 3, 5]), 'resume': rnd.random() < 0.5})
    return out


def judge(traces: list[dict[str, Any]], rep: Any = None) -> dict[str, str]:
    scratch = tempfile.mkdtemp(prefix='vf-nested-')
    try:
        path = os.path.join(scratch, 'traces.json')
        with open(path, 'w') as f:
            json.dump([{'id': t['id'], 'handlers': t['handlers'], 'events': [{k: v for k, v in e.items() if k != 't'} for e in t['events']]} for t in traces], f)
        r = tlc.run('ConvergeMonitor', cfg_text='SPECIFICATION Spec\nCONSTRAINT Book\nPOSTCONDITION Verdicts\nCHECK_DEADLOCK FALSE\n', workers=1,
                    env={'TRACE_FILE': path}, timeout=1200)
    finally:
        shutil.rmtree(scratch, ignore_errors=True)
    if not r.ok:
        raise MachineryFailure(f'ConvergeMonitor failed: {r.violated} {r.errors}\n{r.out[-3000:]}')
    if rep is not None:
        rep.add_tlc('ConvergeMonitor', r)
    got = {int(m.group(1)): m.group(3) for m in re.finditer(r'<<\s*"MONITOR",\s*(\d+),\s*"([^"]*)",\s*"([^"]*)"\s*>>', r.out)}
    if len(got) != len(traces) or 'incomplete' in got.values():
        raise MachineryFailure(f'ConvergeMonitor: {len(got)} verdicts for {len(traces)} traces\n{r.out[-1500:]}')
    return {t['id']: got[i] for i, t in enumerate(traces, start=1)}


def stage(ctx: Any, rep: Any, label: str) -> None:
    from concurrent.futures import ProcessPoolExecutor
    scs = scenarios(ctx.seed, 40 if ctx.quick else 800)
    with ProcessPoolExecutor(16) as ex:
        traces = list(ex.map(run_case, scs, chunksize=2))
    v = judge(traces, rep)
    rep.evaluations += len(traces); rep.traces += len(traces)
    for t in traces:
        if any(e['ev'] == 'done' and e['how'] == 'temp' for e in t['events']) or any(o == 'stop' for _t, o in t['scenario']['env']):
            rep.nontrivial([{k: x for k, x in e.items() if k != 't'} for e in t['events']])
        if t['stall']:
            rep.violation(f'{label}: {t["id"]}: the event loop stalled', payload=t)
        elif v[t['id']] != 'ok':
            rest = [e for e in t['events'] if e['ev'] == 'rest']
            rep.violation(f'{label}: {t["id"]}: nested sub-handlers: {v[t["id"]]} (at rest: {rest[-1] if rest else None})', payload=t)
    rep.extra['nested_subhandler_runs'] = len(traces)
