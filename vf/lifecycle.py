"""Harness for C20: one run of the real kopf.operator() with scripted startup/cleanup handlers, daemons, peering, stop triggers
and broken observer streams; the recorder log is converted into the events of spec/Trace_Lifecycle.tla and judged by TLC."""
from __future__ import annotations

import json
import os
import random
import re
import shutil
import tempfile
from typing import Any

from vf import tlc
from vf.evidence import MachineryFailure

PEER = 'clusterkopfpeerings'
OP = 'op1'


def run_scenario(sc: dict[str, Any]) -> dict[str, Any]:
    import asyncio
    import kopf
    from sim.fakek8s import ResDef
    from sim.opsim import GROUP, PLURAL, VERSION, Sim, Stall
    sim = Sim(wall_budget=30)
    sim.world.max_steps = 400_000
    try:
        nsres = sim.srv.find('namespaces')
        sim.srv.create(nsres, None, 'ns', {})
        sim.srv.create_crd_object(sim.things)
        if sc['peering']:
            pres = sim.srv.add_resource(ResDef('kopf.dev', 'v1', PEER, 'ClusterKopfPeering', namespaced=False))
            sim.srv.keep_bodies.add(PEER)
            sim.srv.create(pres, None, 'default', {})
        for k in range(sc['nobj']):
            sim.create(f'p{k}', {'x': 0})
        reg = sim.registry()
        async def stop_in_startup(**_: Any) -> None:
            # the stop is asked for from within the last startup handler, which then goes on for k more iterations of the loop: the stop
            # takes effect a few iterations around the end of the startup activity (while the gated root tasks are being let go)
            kind_, k_ = sc['stop_in_startup']
            (op.stop if kind_ == 'stop' else op.cancel)()
            for _i in range(k_):
                await asyncio.sleep(0)
        for h, script in enumerate(sc['startup'], start=1):
            kopf.on.startup(registry=reg, id=f's{h}')(sim.handler(f's{h}', [_out(o) for o in script], kind='startup', duration=sc['sdur'],
                                                                 extra=stop_in_startup if sc.get('stop_in_startup') and h == len(sc['startup']) else None))
        for h, script in enumerate(sc['cleanup'], start=1):
            kopf.on.cleanup(registry=reg, id=f'c{h}')(sim.handler(f'c{h}', [_out(o) for o in script], kind='cleanup', duration=sc['cdur']))
        kopf.on.event(GROUP, VERSION, PLURAL, registry=reg, id='see')(sim.handler('see', kind='event', duration=sc.get('hdur', 0)))
        if sc.get('ns2'):        # a second served namespace with one object; the namespace can go away at run time
            sim.srv.create(nsres, None, 'ns2', {})
            sim.create('q0', {'x': 0}, ns='ns2')

        async def d(stopped, name, **_):
            sim.rec('d.start', loop=OP, name=name)
            try:
                if sc['dmode'] == 'cancel':
                    await asyncio.Event().wait()
                else:
                    await stopped.wait()
            finally:
                sim.rec('d.exit', loop=OP, name=name)
        if sc['nobj'] and not sc.get('nodaemon'):
            kopf.daemon(GROUP, VERSION, PLURAL, registry=reg, id='d', cancellation_backoff=sc.get('dback', 1), cancellation_timeout=1)(d)
        if sc.get('fault') and sc['fault'][0] == 'relogin':
            sim.srv.valid_gens = set()
            sim.login_script = lambda op, n: 'ok' if n == 1 else 'perm'
        kw: dict[str, Any] = dict(clusterwide=False, namespaces=['ns*'])
        if sc['peering']:
            kw = dict(clusterwide=True, peering_name='default', priority=1, identity=OP)
        tune = dict(peering__lifetime=20, watching__reconnect_backoff=1, networking__error_backoffs=[1])
        if sc.get('wlimit'):
            tune['queueing__worker_limit'] = sc['wlimit']
        if sc.get('plag'):       # the answers to the PATCHes of the peering object are late: a stop can land while the first
            from sim.fakek8s import Plan          # keep-alive is applied by the server but not yet answered
            prev_policy = sim.srv.policy
            sim.srv.policy = lambda req: (Plan(post=sc['plag']) if req.route.get('plural') == PEER and req.route.get('kind') == 'patch'
                                          else (prev_policy(req) if prev_policy else None))
        op = sim.operator(OP, reg, sim.settings(**tune), **kw)

        async def watch_ready() -> None:
            await op.ready_flag.wait()
            sim.rec('op.ready', loop=OP)
        op.loop.spawn(watch_ready())

        def fault(kind: str) -> None:
            line = {'type': 'ERROR', 'object': {'kind': 'Status', 'code': 500, 'message': 'boom'}}
            plural = {'nswatch': 'namespaces', 'crdwatch': 'customresourcedefinitions', 'thingwatch': PLURAL}.get(kind)
            if kind == 'relogin':
                sim.srv.valid_gens.clear()
                sim.set_spec('p0', x=99) if sim.obj('p0') is not None else sim.create('trigger', {'x': 1})   # something to make it talk to the API
                sim.rec('env.fault', task='auth', kind=kind)
                return
            ws = [w for w in sim.srv.watches if w.res.plural == plural and w.session.owner == OP]
            if not ws:
                return
            sim.rec('env.fault', task={'nswatch': 'nsobs', 'crdwatch': 'resobs', 'thingwatch': 'watcher'}[kind], kind=kind)
            for w in ws:
                w.pending.append(line); w.release()
        if sc.get('trigger'):
            kind, t = sc['trigger']
            sim.world.at(t, (lambda: op.stop() if kind == 'stop' else op.cancel()) if True else None, 1)
        if sc.get('fault'):
            sim.world.at(sc['fault'][1], lambda: fault(sc['fault'][0]), 1)
        for (t, nm) in sc.get('edits', []):
            ns = 'ns2' if nm == 'q0' else 'ns'
            sim.world.at(t, lambda nm=nm, ns=ns: sim.edit(nm, lambda o: o.setdefault('spec', {}).update(x=int(sim.now)), ns=ns) if sim.obj(nm, ns=ns) is not None else None, 1)
        for (t, nm) in sc.get('dels', []):        # the object is marked for deletion: its daemon is being stopped (graceful stage) when the stop lands
            sim.world.at(t, lambda nm=nm: sim.delete(nm) if sim.obj(nm) is not None else None, 1)
        if sc.get('nsdel') is not None:
            def nsdel() -> None:
                if sim.obj('q0', ns='ns2') is not None: sim.delete('q0', ns='ns2')
                sim.srv.delete(nsres, None, 'ns2')
            sim.world.at(sc['nsdel'], nsdel, 1)
        stall = False
        try:
            sim.run(sc['end'], stop=lambda: op.done)
            if not op.done:
                sim.rec('env.alive')
        except Stall:
            stall = True
        events = convert(sim.recorder.events, sc)
        if not op.done and not stall:
            op.kill()
        return {'id': sc['id'], 'conf': {'startup': sc['startup'], 'cleanup': sc['cleanup'], 'peering': bool(sc['peering'])},
                'bound': sc['bound'], 'events': events, 'stall': stall, 'scenario': sc}
    finally:
        sim.close()


def _out(o: str) -> Any:
    return {'ok': 'ok', 'temp': ('temp', 1), 'perm': 'perm'}[o]


def convert(raw: list[dict[str, Any]], sc: dict[str, Any]) -> list[dict[str, Any]]:
    from sim.opsim import PLURAL
    out: list[dict[str, Any]] = []
    announced = False
    streaming: dict[str, bool] = {}        # per namespace: the stream of the handled resource = its listing followed by watch requests
    wns: dict[int, str] = {}
    live_daemons: set[Any] = set()
    for e in raw:
        ev = e['ev']; t = e['t']
        if e.get('loop') not in (OP, None) and ev != 'srv.watch.end':
            continue
        if ev == 'h.exit' and e.get('kind') in ('startup', 'cleanup') and e.get('outcome') == 'cancelled':
            continue
        if ev == 'h.exit' and e.get('kind') == 'startup':
            out.append({'ev': 'sh', 't': t, 'h': int(e['id'][1:]), 'out': {'ok': 'ok', 'temp': 'temp'}.get(e['outcome'], 'perm')})
        elif ev == 'h.exit' and e.get('kind') == 'cleanup':
            out.append({'ev': 'ch', 't': t, 'h': int(e['id'][1:]), 'out': {'ok': 'ok', 'temp': 'temp'}.get(e['outcome'], 'perm')})
        elif ev == 'h.enter' and e.get('id') == 'see' and e.get('type') == 'DELETED' and e.get('name') in live_daemons:
            # the DELETED event of an object whose daemon is running is being processed: its memory has just been forgotten
            out.append({'ev': 'orphan', 't': t})
            if sc.get('hdur'):
                out.append({'ev': 'hstart', 't': t})
        elif ev == 'h.enter' and e.get('id') == 'see' and sc.get('hdur'):
            out.append({'ev': 'hstart', 't': t})
        elif ev == 'h.exit' and e.get('id') == 'see' and sc.get('hdur'):
            out.append({'ev': 'hend', 't': t})
        elif ev == 'op.ready':
            out.append({'ev': 'ready', 't': t})
        elif ev == 'srv.req' and e.get('loop') == OP:
            if False:
                pass
            elif e.get('plural') == PEER and e.get('kind') == 'patch' and e.get('code') == 200:
                body = (e.get('pbody') or {}).get('status') or {}
                if OP in body and body[OP] is None:
                    out.append({'ev': 'withdraw', 't': t}); announced = False
                elif OP in body and not announced:
                    out.append({'ev': 'announce', 't': t}); announced = True
                else:
                    out.append({'ev': 'api', 't': t, 'what': 'peering'})
            else:
                out.append({'ev': 'api', 't': t, 'what': f'{e.get("kind")} {e.get("plural") or e.get("path")}'})
        # a watcher of the handled resource lives from q.start to the close of its scheduler (the HTTP response itself may be
        # released later, when the cancelled async generators are finalised: that is not activity)
        elif ev == 'q.start' and e.get('res') == PLURAL:
            wns[e['sched']] = e.get('ns') or '*'
            out.append({'ev': 'wopen', 't': t, 'ns': e.get('ns') or '*'})
        elif ev == 'sched.close' and e.get('sched') in wns:
            out.append({'ev': 'wclose', 't': t, 'ns': wns.pop(e['sched'])})
        elif ev == 'd.start':
            out.append({'ev': 'dstart', 't': t}); live_daemons.add(e.get('name'))
        elif ev == 'd.exit':
            out.append({'ev': 'dexit', 't': t}); live_daemons.discard(e.get('name'))
        elif ev == 'op.stop': out.append({'ev': 'stop', 't': t})
        elif ev == 'op.cancel': out.append({'ev': 'cancel', 't': t})
        elif ev == 'env.fault': out.append({'ev': 'fault', 't': t, 'task': e['task'], 'kind': e['kind']})
        elif ev == 'op.return':
            o = e['outcome']
            out.append({'ev': 'return', 't': t, 'outcome': 'returned' if o == 'returned' else 'cancelled' if o == 'cancelled' else 'raised', 'detail': o})
        elif ev == 'env.alive':
            out.append({'ev': 'alive', 't': t})
    return out


_RE = re.compile(r'<<\s*"VERDICT",\s*(\d+),\s*"([^"]*)",\s*(-?\d+),\s*(-?\d+),\s*(\d+),\s*"([^"]*)"\s*>>')


def judge(traces: list[dict[str, Any]], rep: Any = None) -> dict[str, dict[str, Any]]:
    scratch = tempfile.mkdtemp(prefix='vf-life-')
    try:
        path = os.path.join(scratch, 'traces.json')
        with open(path, 'w') as f:
            json.dump([{'id': t['id'], 'conf': t['conf'], 'bound': t['bound'], 'events': t['events']} for t in traces], f)
        cfg = 'SPECIFICATION TSpec\nCONSTANT NoConf = NoConf\nCONSTANT MaxKids = 10\nCONSTRAINT Book\nPOSTCONDITION Verdicts\nCHECK_DEADLOCK FALSE\n'
        r = tlc.run('Trace_Lifecycle', cfg_text=cfg, workers=1, env={'TRACE_FILE': path}, timeout=3000, deque=True)
    finally:
        shutil.rmtree(scratch, ignore_errors=True)
    if not r.ok:
        raise MachineryFailure(f'Trace_Lifecycle failed: {r.violated} {r.errors}\n{r.out[-3000:]}')
    if rep is not None:
        rep.add_tlc('Trace_Lifecycle', r)
    got = {}
    for m in _RE.finditer(r.out):
        i = int(m.group(1)); reach, n, bad = int(m.group(4)), int(m.group(5)), m.group(6)
        t = traces[i - 1]
        verdict = (f'unexplained at event {reach + 1}/{n}: {json.dumps(t["events"][reach])[:200]}' if reach < n
                   else bad if bad != 'none' else 'ok')
        got[t['id']] = {'verdict': verdict, 'reach': reach, 'n': n}
    if len(got) != len(traces):
        raise MachineryFailure(f'Trace_Lifecycle: {len(got)} verdicts for {len(traces)} traces\n{r.out[-1500:]}')
    return got


def gen_scenarios(seed: int, n: int) -> list[dict[str, Any]]:
    rnd = random.Random(f'life-{seed}')
    out = []
    for k in range(n):
        one = lambda: rnd.choice([['ok'], ['ok'], ['temp', 'ok'], ['perm'], ['temp', 'perm'], ['temp', 'temp', 'ok']])
        startup = rnd.choice([[], [one()], [one()], [one(), one()], [['perm'], ['temp', 'ok']], [['temp', 'ok'], ['perm']]])
        cleanup = rnd.choice([[], [['ok']], [['ok']], [['temp', 'ok']], [['perm']], [['ok'], ['temp', 'ok']], [['perm'], ['temp', 'ok']]])
        sdur = rnd.choice([0, 0, 2, 4]); cdur = rnd.choice([0, 1, 3])
        s_total = max([len(x) for x in startup] or [0]) * (sdur + 1)
        what = rnd.choice(['stop', 'stop', 'cancel', 'fault', 'fault', 'none'])
        trigger = fault = None
        t = rnd.choice([0, 1, 2, 3, 5, 8, 13, 20])
        if what in ('stop', 'cancel'):
            trigger = (what, t)
        elif what == 'fault':
            fault = (rnd.choice(['nswatch', 'crdwatch', 'thingwatch', 'relogin']), s_total + rnd.choice([2, 5, 9]))
        peering = rnd.random() < 0.5
        if fault and fault[0] == 'nswatch':
            peering = False          # the namespace observer watches only when the operator is not cluster-wide
        nobj = rnd.choice([0, 1, 2])
        if fault and fault[0] == 'relogin' and nobj == 0:
            nobj = 1
        hdur = rnd.choice([0, 0, 3])
        wlimit = rnd.choice([None, None, None, 1, 2])
        ns2 = (not peering) and rnd.random() < 0.4
        nsdel = None
        edits = [(s_total + 3, 'p0')] if nobj else []
        if ns2 and trigger and trigger[1] > s_total + 2:      # the namespace goes away just before the stop, with a handler in flight
            nsdel = trigger[1] - rnd.choice([0, 1, 2]); edits.append((nsdel - rnd.choice([0, 1]), 'q0'))
        bound = 14 + max([len(x) for x in cleanup] or [0]) * (cdur + 1) + s_total + hdur
        end = max(t, fault[1] if fault else 0, s_total) + bound + 25
        extra: dict[str, Any] = {}
        r2 = random.Random(f'life-del-{seed}-{k}')       # (a stream of its own: the older histories stay what they were)
        if nobj and trigger and trigger[1] >= s_total + 3 and not (fault or nsdel is not None) and r2.random() < 0.35:
            # an object is marked for deletion shortly before the stop: its daemon is in the middle of its staged termination
            extra = {'dback': r2.choice([1, 2, 3, 4]), 'dels': [(trigger[1] - r2.choice([0, 1, 2]), 'p0')]}
        out.append({**extra, 'id': f'life-{seed}-{k}', 'startup': startup, 'cleanup': cleanup, 'sdur': sdur, 'cdur': cdur, 'peering': peering,
                    'nobj': nobj, 'dmode': rnd.choice(['obey', 'cancel']), 'trigger': trigger, 'fault': fault, 'bound': bound, 'end': end,
                    'edits': edits + ([(e[0], 'p1') for e in edits if e[1] == 'p0'] if nobj > 1 else []), 'hdur': hdur, 'ns2': ns2, 'nsdel': nsdel,
                    'wlimit': wlimit})
    return out


def crafted() -> list[dict[str, Any]]:
    """A served namespace goes away with a handler in flight, and the stop arrives while the orchestrator is still adjusting."""
    out = []
    for kind in ('stop', 'cancel'):
        for d_edit, d_stop in ((0, 1), (1, 1), (1, 0), (0, 2), (1, 2)):
            t = 10
            out.append({'id': f'crafted-nsdel-{kind}-{d_edit}-{d_stop}', 'startup': [], 'cleanup': [['ok']], 'sdur': 0, 'cdur': 1, 'peering': False,
                        'nobj': 1, 'dmode': 'obey', 'trigger': (kind, t + d_stop), 'fault': None, 'bound': 20, 'end': 60,
                        'edits': [(t - d_edit, 'q0')], 'hdur': 3, 'ns2': True, 'nsdel': t})
    # the operator is stopped while its first keep-alive is applied by the server but not yet answered: the record is withdrawn all the same
    for kind in ('stop', 'cancel'):
        for plag, t in ((2, 1), (3, 1), (3, 2), (2, 0)):
            out.append({'id': f'crafted-early-{kind}-{plag}-{t}', 'startup': [], 'cleanup': [['ok']], 'sdur': 0, 'cdur': 0, 'peering': True, 'plag': plag,
                        'nobj': 0, 'dmode': 'obey', 'trigger': (kind, t), 'fault': None, 'bound': 24, 'end': 60,
                        'edits': [], 'hdur': 0, 'ns2': False, 'nsdel': None})
    # the stop is asked for at the very end of the startup activity, k iterations of the event loop before the last startup handler returns
    for kind in ('stop',):       # (a cancellation cannot be asked for from within the operator's own task tree)
        for k in (0, 1, 2, 3, 4, 5, 6, 8, 12):
            out.append({'id': f'crafted-stop-at-startup-end-{kind}-{k}', 'startup': [['ok']], 'cleanup': [['ok']], 'sdur': 0, 'cdur': 0, 'peering': k % 2 == 1,
                        'nobj': 1, 'dmode': 'obey', 'trigger': None, 'stop_in_startup': (kind, k), 'fault': None, 'bound': 20, 'end': 60,
                        'edits': [], 'hdur': 0, 'ns2': False, 'nsdel': None})
    # an object is marked for deletion and its daemon (which leaves only when cancelled) is in the graceful stage of its termination
    # (the worker sleeps for the cancellation backoff) when the operator is stopped: the daemon is stopped all the same, before the cleanup
    for kind in ('stop', 'cancel'):
        for dback, d_stop in ((3, 1), (3, 2), (2, 1), (4, 0)):
            t = 10
            out.append({'id': f'crafted-deldaemon-{kind}-{dback}-{d_stop}', 'startup': [], 'cleanup': [['ok']], 'sdur': 0, 'cdur': 1, 'peering': False,
                        'nobj': 2, 'dmode': 'cancel', 'dback': dback, 'trigger': (kind, t + d_stop), 'fault': None, 'bound': 24, 'end': 70,
                        'edits': [], 'dels': [(t, 'p0')], 'hdur': 0, 'ns2': False, 'nsdel': None})
    # a saturated worker limit at the moment of the stop: handlers in flight on `limit` objects, more objects queued
    for kind in ('stop', 'cancel'):
        for lim, d_stop in ((1, 1), (1, 0), (2, 1)):
            t = 10
            out.append({'id': f'crafted-wlimit-{kind}-{lim}-{d_stop}', 'startup': [], 'cleanup': [['ok']], 'sdur': 0, 'cdur': 1, 'peering': False,
                        'nobj': 3, 'dmode': 'obey', 'trigger': (kind, t + d_stop), 'fault': None, 'bound': 24, 'end': 70,
                        'edits': [(t, 'p0'), (t, 'p1'), (t, 'p2')], 'hdur': 4, 'ns2': False, 'nsdel': None, 'wlimit': lim, 'nodaemon': True})
    return out
