"""Records for spec/Posting.tla: the real posting engine (kopf.event / info / warn / exception, log records of the object logger; the
poster task; clients/events.post_event through api.request) in virtual time against a fake session that accepts or refuses the POSTs."""
from __future__ import annotations

import asyncio
import logging
import random
from typing import Any

from vf import records


def run_case(sc: dict[str, Any]) -> dict[str, Any]:
    import kopf
    from kopf._cogs.clients import auth
    from kopf._cogs.structs import bodies, credentials, references
    from kopf._core.actions import loggers
    from kopf._core.engines import posting
    from sim.fakek8s import Resp, status_payload
    from sim.vloop import World
    world = World(wall_budget=0)
    loop = world.new_loop('posting')
    logging.getLogger().addHandler(logging.NullHandler())      # nothing goes to stderr; every record reaches the posting handler,
    logging.getLogger('kopf').setLevel(logging.DEBUG)          # which applies settings.posting.level itself
    requests: list[dict[str, Any]] = []
    fails = [c['fails'] for c in sc['calls']]

    class Sess:
        def __init__(self) -> None:
            self.headers: dict[str, str] = {}; self.closed = False

        async def close(self) -> None:
            self.closed = True

        async def request(self, method: str, url: str, json: Any = None, **_: Any) -> Any:
            await asyncio.sleep(0)
            if method.upper() != 'POST':
                return Resp(200, {})
            tag = int(json['message'].split('#', 1)[0]) if '#' in json.get('message', '') else -1
            bad = 0 <= tag < len(fails) and fails[tag]
            requests.append({'type': json['type'], 'reason': json['reason'], 'len': len(json['message']), 'ok': not bad})
            return Resp(422, status_payload(422, 'refused')) if bad else Resp(201, json)
    st = kopf.OperatorSettings()
    st.posting.enabled = sc['settings']['enabled']; st.posting.level = sc['settings']['level']; st.posting.loggers = sc['settings']['loggers']
    st.networking.error_backoffs = []
    state: dict[str, Any] = {}
    level_of = {10: logging.DEBUG, 20: logging.INFO, 30: logging.WARNING, 40: logging.ERROR, 50: logging.CRITICAL}

    async def main() -> None:
        vault = credentials.Vault()
        await vault.populate({'id': credentials.AiohttpSession(aiohttp_session=Sess(), server='http://fake', default_namespace='default')})
        auth.vault_var.set(vault)
        backbone = references.Backbone()
        await backbone.fill(resources=[references.Resource('', 'v1', 'events', kind='Event', namespaced=True, preferred=True,
                                                           verbs=frozenset({'create', 'list', 'watch', 'patch'}))])
        queue: Any = asyncio.Queue()
        posting.event_queue_loop_var.set(asyncio.get_running_loop()); posting.event_queue_var.set(queue); posting.settings_var.set(st)
        state['poster'] = asyncio.create_task(posting.poster(event_queue=queue, backbone=backbone, settings=st))
        thing = bodies.Body({'apiVersion': 'example.com/v1', 'kind': 'Thing', 'metadata': {'name': 'o1', 'namespace': 'ns', 'uid': 'u1'}})
        event = bodies.Body({'apiVersion': 'v1', 'kind': 'Event', 'metadata': {'name': 'e1', 'namespace': 'ns', 'uid': 'u2'}})
        olog = {'thing': loggers.ObjectLogger(body=thing, settings=st), 'event': loggers.ObjectLogger(body=event, settings=st)}
        for k, c in enumerate(sc['calls']):
            obj = thing if c['obj'] == 'thing' else event
            msg = f'{k}#' + 'x' * max(0, c['len'] - len(f'{k}#'))
            if c['fn'] == 'event': kopf.event(obj, type=c['type'], reason=c['reason'], message=msg)
            elif c['fn'] == 'info': kopf.info(obj, reason=c['reason'], message=msg)
            elif c['fn'] == 'warn': kopf.warn(obj, reason=c['reason'], message=msg)
            elif c['fn'] == 'exception': kopf.exception(obj, reason=c['reason'], message=msg, exc=None)
            else: olog[c['obj']].log(level_of[c['level']], msg)
            if c.get('gap'):
                await asyncio.sleep(c['gap'])
        await asyncio.sleep(5)
    task = loop.spawn(main())
    world.run_until(200, stop=lambda: task.done())
    alive = 'poster' in state and not state['poster'].done()
    err = repr(task.exception()) if task.done() and task.exception() else ''
    for tk in loop.pending_tasks():
        loop.enter()
        try: tk.cancel()
        finally: loop.leave()
    try: world.settle()
    except Exception: pass
    world.drop_loop(loop)
    calls = [{k: v for k, v in c.items() if k != 'gap'} for c in sc['calls']]
    for c in calls:      # kopf.exception appends the (absent) exception's text: the message is what was given
        c.setdefault('type', ''); c.setdefault('level', 0)
    return {'kind': 'posting', 'id': sc['id'], 'settings': sc['settings'], 'calls': calls, 'requests': requests, 'alive': alive and not err, 'err': err}


def scenarios(seed: int, n: int) -> list[dict[str, Any]]:
    rnd = random.Random(f'posting-{seed}')
    out = []
    for i in range(n):
        calls = []
        for _ in range(rnd.randint(1, 8)):
            fn = rnd.choice(['event', 'info', 'warn', 'exception', 'log', 'log'])
            calls.append({'fn': fn, 'type': rnd.choice(['Normal', 'Warning', 'Custom']) if fn == 'event' else '', 'reason': rnd.choice(['R1', 'Done', 'Oops']),
                          'level': rnd.choice([10, 20, 30, 40, 50]) if fn == 'log' else 0, 'len': rnd.choice([5, 40, 1024, 1025, 3000]),
                          'obj': rnd.choice(['thing', 'thing', 'thing', 'event']), 'fails': rnd.random() < 0.25, 'gap': rnd.choice([0, 0, 1])})
        out.append({'id': f'posting-{seed}-{i}', 'calls': calls,
                    'settings': {'enabled': rnd.random() < 0.75, 'level': rnd.choice([10, 20, 20, 30, 40]), 'loggers': rnd.random() < 0.6}})
    return out


def stage(ctx: Any, rep: Any) -> None:
    was = logging.root.manager.disable
    logging.disable(logging.NOTSET)          # (the checks silence all logging; log records are what is posted here)
    try:
        recs = [run_case(sc) for sc in scenarios(ctx.seed, 300 if ctx.quick else 6000)]
    finally:
        logging.disable(was)
    bad = records.judge('Rec_Posting', [{k: v for k, v in r.items() if k not in ('id', 'err')} for r in recs], rep=rep)
    rep.evaluations += len(recs); rep.traces += len(recs)
    p1 = 0
    for r in recs:
        if r['requests']:
            rep.nontrivial(r['requests'])
    for i, label in sorted(bad.items()):
        if label == 'P1':        # not a clause of a listed property: noted, not raised
            p1 += 1
        else:
            rep.violation(f'{recs[i]["id"]}: {label}: {str(recs[i])[:600]}', payload=recs[i])
    rep.extra['posting'] = {'records': len(recs), 'P1_warn_ignores_settings_posting_enabled': p1}
    if p1:
        rep.note(f'posting: in {p1} record(s) kopf.warn() posted although settings.posting.enabled is off (docs: "This also affects kopf.event() '
                 f'and similar functions"); not a clause of a listed property, noted only (Posting!ClassifyPosting: P1)')
