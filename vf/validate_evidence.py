"""Dev aid: validate evidence/*.json against the schema (run with python3-vt)."""
import json, glob, sys, jsonschema
schema = json.load(open('/root/.vp/EVIDENCE.schema.json'))
bad = 0
for f in sorted(glob.glob('/verif/evidence/C*.json')):
    try:
        jsonschema.validate(json.load(open(f)), schema); print('ok  ', f)
    except Exception as e:
        bad += 1; print('BAD ', f, str(e)[:300])
sys.exit(1 if bad else 0)
