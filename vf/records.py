"""Function-level pipeline: (input, output) records of the real code judged by a TLA+ classifier.

`judge(module, records)` writes the records as JSON, runs spec/<module>.tla (a Rec_* module whose
`Verdict` invariant prints `<<"REC", i, label>>` for every record whose label is not "ok") and
returns {index: label}. TLC is the judge; Python only drives and records. Completeness of the
run is checked through TLC's state count (every record must have been visited).
"""
from __future__ import annotations

import json
import os
import re
import tempfile
from concurrent.futures import ThreadPoolExecutor
from typing import Any

from vf import tlc
from vf.evidence import MachineryFailure

_RE = re.compile(r'<<\s*"REC",\s*(\d+),\s*"([^"]*)"(?:,\s*(.*?))?\s*>>', re.S)


def _one(module: str, recs: list[Any], nc: int, workers: int, constants: str, timeout: float) -> tuple[dict[int, str], Any]:
    fd, path = tempfile.mkstemp(prefix='vf-recs-', suffix='.json')
    try:
        with os.fdopen(fd, 'w') as f:
            json.dump(recs, f)
        cfg = f'SPECIFICATION Spec\nCONSTANT NC = {nc}\n{constants}\nINVARIANT Verdict\nCHECK_DEADLOCK FALSE\n'
        r = tlc.run(module, cfg_text=cfg, workers=workers, env={'REC_FILE': path}, timeout=timeout)
        if not r.ok:
            raise MachineryFailure(f'record validation with {module} failed: {r.violated} {r.errors}\n{r.out[-3000:]}')
        if r.distinct != len(recs) + nc:
            raise MachineryFailure(f'{module}: visited {r.distinct - nc} of {len(recs)} records')
        res = {}
        for m in _RE.finditer(r.out):
            res[int(m.group(1)) - 1] = m.group(2)
        return res, r
    finally:
        os.unlink(path)


def judge(module: str, recs: list[Any], *, constants: str = '', shard: int = 20000, timeout: float = 1800,
          rep: Any = None, name: str | None = None) -> dict[int, str]:
    """Label every record; returns only the non-"ok" ones as {index: label}."""
    if not recs:
        return {}
    shards = [recs[i:i + shard] for i in range(0, len(recs), shard)]
    out: dict[int, str] = {}
    if len(shards) == 1:
        res, r = _one(module, shards[0], 16, 16, constants, timeout)
        out.update(res)
        if rep is not None:
            rep.add_tlc(name or module, r)
        return out
    par = min(len(shards), 8)
    with ThreadPoolExecutor(par) as ex:
        futs = [ex.submit(_one, module, s, 4, max(2, 16 // par), constants, timeout) for s in shards]
        for k, fu in enumerate(futs):
            res, r = fu.result()
            for i, lab in res.items():
                out[k * shard + i] = lab
            if rep is not None:
                rep.add_tlc(f'{name or module}[{k}]', r)
    return out
