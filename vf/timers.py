"""Harness for timers (C10, timer part of C11/C09): the real operator with one @kopf.timer, scripted runs."""
from __future__ import annotations

import json
import os
import random
import shutil
import tempfile
from typing import Any

from vf import tlc
from vf.evidence import MachineryFailure
from vf.handling import _RE_VERDICT


def run_scenario(sc: dict[str, Any]) -> dict[str, Any]:
    import asyncio
    import kopf
    from sim.opsim import GROUP, PLURAL, VERSION, Sim, Stall
    sim = Sim(wall_budget=6)
    sim.world.max_steps = 300_000
    try:
        reg = sim.registry()
        script = list(sc['runs'])            # [(duration, outcome-kind, delay)]

        async def timer_fn(**kw):
            pass
        runs_left = script

        def next_run():
            return runs_left.pop(0) if runs_left else (0, 'ok', 0)
        state: dict[str, Any] = {}

        async def body(retry, **kw):
            dur, k, d = next_run()
            sim.rec('t.start', retry=retry, dur=dur, k=k, d=d)
            try:
                if dur:
                    await asyncio.sleep(dur)
                if k == 'temp': raise kopf.TemporaryError('scripted', delay=d)
                if k == 'perm': raise kopf.PermanentError('scripted')
                if k == 'exc': raise ValueError('scripted')
                return {'n': 1} if sc.get('result') else None
            finally:
                sim.rec('t.end', k=k)
        if sc.get('sync'):       # a synchronous timer function: kopf runs it in a thread (a virtual thread here), durations and all
            from sim import vthreads

            def body(retry, **kw):        # noqa: F811
                dur, k, d = next_run()
                sim.rec('t.start', retry=retry, dur=dur, k=k, d=d)
                try:
                    if dur:
                        vthreads.sleep(dur)
                    if k == 'temp': raise kopf.TemporaryError('scripted', delay=d)
                    if k == 'perm': raise kopf.PermanentError('scripted')
                    if k == 'exc': raise ValueError('scripted')
                    return {'n': 1} if sc.get('result') else None
                finally:
                    sim.rec('t.end', k=k)
        body.__name__ = body.__qualname__ = 'tick'
        c = sc['conf']
        kw: dict[str, Any] = dict(registry=reg, id='tick', backoff=c['backoff'])
        if c['interval']: kw['interval'] = c['interval']
        if c['sharp']: kw['sharp'] = True
        if c['idle']: kw['idle'] = c['idle']
        if c['initdelay']: kw['initial_delay'] = c['initdelay']
        toggles = sc.get('toggles') or []
        if toggles:          # the timer is filtered by a label which the scenario takes away and gives back
            kw['labels'] = {'tm': 'yes'}
        kopf.timer(GROUP, VERSION, PLURAL, **kw)(body)
        if sc.get('sibling'):    # a second timer of the same object, spawned with the first one, which the object leaves alone (its label goes):
            async def sib(**_):  # a timer is stopped by what concerns IT -- the first one goes on as if it were alone
                return None
            kopf.timer(GROUP, VERSION, PLURAL, registry=reg, id='sib', interval=1000, labels={'sb': 'yes'})(sib)
        if sc.get('change_handlers', True):
            kopf.on.create(GROUP, VERSION, PLURAL, registry=reg, id='noop')(sim.handler('noop'))
            kopf.on.update(GROUP, VERSION, PLURAL, registry=reg, id='noop')(sim.handler('noop'))
        if sc.get('patchfail'):          # the k-th PATCH that carries a result of the timer is refused with 409 (not retried)
            from sim.fakek8s import Fault, Plan
            cnt = {'n': 0}

            def policy(req):
                b_ = req.body if isinstance(req.body, dict) else {}
                if req.route.get('kind') == 'patch' and req.route.get('name') == 'o1' and 'tick' in (b_.get('status') or {}):
                    cnt['n'] += 1
                    if cnt['n'] == sc['patchfail']:
                        sim.rec('t.patchfail')
                        return Plan(fault=Fault('status', code=409))
                return None
            sim.srv.policy = policy
        if sc.get('plat'):               # the PATCH that carries a run's result takes `plat` seconds: the run is over when it has been applied
            from sim.fakek8s import Plan

            def lpolicy(req):
                b_ = req.body if isinstance(req.body, dict) else {}
                if req.route.get('kind') == 'patch' and req.route.get('name') == 'o1' and 'tick' in (b_.get('status') or {}):
                    return Plan(pre=sc['plat'])
                return None
            sim.srv.policy = lpolicy
        # (observed from outside: the instant at which the processing of a changed view resets the idle period of the object's timers)
        from kopf._core.engines import daemons as kdaemons
        orig_setattr = kdaemons.DaemonsMemory.__setattr__

        def rec_setattr(self_, k_, v_):
            orig_setattr(self_, k_, v_)
            if k_ == 'idle_reset_time' and 'forever_stopped' in self_.__dict__:      # (not the construction of the memory)
                sim.rec('t.idlereset')
        kdaemons.DaemonsMemory.__setattr__ = rec_setattr
        from kopf._core.actions import execution as kexec
        orig_once = kexec.execute_handlers_once

        async def once(*a_, **k_):
            if any(getattr(h_, 'id', None) == 'tick' for h_ in (k_.get('handlers') or [])):
                sim.rec('t.decide')
            return await orig_once(*a_, **k_)
        kexec.execute_handlers_once = once
        state['restore'] = lambda: (setattr(kdaemons.DaemonsMemory, '__setattr__', orig_setattr), setattr(kexec, 'execute_handlers_once', orig_once))
        op = sim.operator('op1', reg, sim.settings(watching__reconnect_backoff=1))      # whole seconds also when a stream is reopened
        t0 = 1
        labels0 = dict({'tm': 'yes'} if toggles else {}, **({'sb': 'yes'} if sc.get('sibling') else {}))
        sim.world.at(t0, lambda: sim.create('o1', {'x': 1}, labels=labels0 or None), 1)
        x = [1]
        edit_rvs: list[int] = []
        off_rvs: list[int] = []; on_rvs: list[int] = []

        def toggle(on):
            if sim.obj('o1') is None: return
            o = sim.edit('o1', lambda b: b['metadata'].setdefault('labels', {}).update(tm='yes' if on else 'no'))
            rv = int(o['metadata']['resourceVersion'])
            (on_rvs if on else off_rvs).append(rv)
        for (t, on) in toggles:
            sim.world.at(t, (lambda on=on: toggle(on)), 1)

        def edit():
            if sim.obj('o1') is None: return
            x[0] += 1
            o = sim.set_spec('o1', x=x[0]); edit_rvs.append(int(o['metadata']['resourceVersion']))
        for t in sc.get('changes', []):
            sim.world.at(t, edit, 1)

        def unsib():
            if sim.obj('o1') is None: return
            o = sim.edit('o1', lambda b: b['metadata'].setdefault('labels', {}).update(sb='no')); edit_rvs.append(int(o['metadata']['resourceVersion']))
        if sc.get('sibling'):
            sim.world.at(sc['sibling'], unsib, 1)

        def edit_unseen():          # the change is made while the stream is cut and its version is compacted away: learnt from a re-listing
            from sim.opsim import PLURAL
            for w in [w for w in sim.srv.watches if w.res.plural == PLURAL]: w.end('eof')
            edit()
            sim.srv.compact(sim.things)
        for t in sc.get('relist_changes', []):
            sim.world.at(t, edit_unseen, 1)
        if sc.get('delete_at') is not None:
            sim.world.at(sc['delete_at'], lambda: sim.delete('o1') if sim.obj('o1') else None, 1)
        stall = False
        try:
            sim.run(sc['end'])
            if not op.done: sim.rec('quiet')
            op.finish()
        except Stall as e:
            stall = True; sim.rec('stall', what=str(e))
        # ---- convert
        out = []
        del_rv = None
        for e in sim.recorder.events:
            if e['ev'] == 'srv.write' and e.get('how') == 'delete-mark': del_rv = e['rv']
        pending = None
        pending_change = None; reported_edits: set[int] = set(); decided = None
        for e in sim.recorder.events:
            ev = e['ev']
            if ev == 't.decide':
                # the instant at which the framework decides to call the function (a thread's function is entered a few loop cycles later:
                # what lands in between -- a change that resets the idle period -- was not there to be seen)
                decided = {'ev': 'start', 't': e['t'], '_open': True}
                out.append(decided)
            elif ev == 't.start':
                lat = sc['plat'] if sc.get('plat') and sc.get('result') and e['k'] == 'ok' else 0
                pending = {'ev': 'start', 't': e['t'], 'retry': e['retry'], 'dur': e['dur'] + lat, 'k': e['k'], 'd': e['d']}
                if decided is not None and decided.get('_open'):
                    decided.pop('_open'); decided.update({k_: v_ for k_, v_ in pending.items() if k_ != 't'}); pending = decided; decided = None
                else:
                    out.append(pending)
            elif ev == 't.end':
                lat = sc['plat'] if sc.get('plat') and sc.get('result') and e['k'] == 'ok' else 0
                out.append({'ev': 'end', 't': e['t'] + lat})
            elif ev == 't.patchfail':
                out.append({'ev': 'patchfail', 't': e['t']})
            elif ev == 't.idlereset':
                # the instant at which the change becomes visible to the timer (its idle period is counted from here): the `change` of the view
                # that is being processed is placed HERE, not at the start of that processing -- a timer that looked in between has not seen it
                if pending_change is not None:
                    out.append({'ev': 'change', 't': e['t']}); pending_change = None
            elif ev == 'q.proc.end' and e.get('res') == 'things':
                if pending_change is not None:      # (the processing never told the timer: the model will say what it thinks of that)
                    out.append({'ev': 'change', 't': pending_change}); pending_change = None
            elif ev == 'q.proc.begin' and e.get('res') == 'things':
                rv = int(e['rv'])
                if pending_change is not None:
                    out.append({'ev': 'change', 't': pending_change}); pending_change = None
                # a user's change is in this view if the view is as new as the edit or newer (a re-listing may show the edit under a later version)
                fresh_edits = [r for r in edit_rvs if r <= rv and r not in reported_edits]
                if fresh_edits:
                    reported_edits.update(fresh_edits); pending_change = e['t']
                elif not sc.get('change_handlers', True) and rv != del_rv and e.get('type') not in (None, 'ADDED', 'DELETED'):
                    out.append({'ev': 'selfchange', 't': e['t']})          # an event that is not a user's change (the echo of an own patch)
                if del_rv is not None and rv == del_rv: out.append({'ev': 'stop', 't': e['t']})
                if rv in off_rvs: out.append({'ev': 'unmatch', 't': e['t']})
                if rv in on_rvs: out.append({'ev': 'rematch', 't': e['t']})
            elif ev == 'quiet':
                out.append({'ev': 'quiet', 't': e['t']})
                break        # what follows is the harness stopping the operator (a running function is cancelled)
        out = [e_ for e_ in out if not e_.get('_open')]      # (a decision whose function was never entered: the run ended there)
        if sc.get('plat'):       # a run whose PATCH is still under way when the history ends has not ended
            tq = next((e['t'] for e in out if e['ev'] == 'quiet'), None)
            if tq is not None:
                out = [e for e in out if not (e['ev'] == 'end' and e['t'] > tq)]
                out = [e for e in out if e['ev'] != 'quiet'] + [e for e in out if e['ev'] == 'quiet']
        return {'id': sc['id'], 'conf': c, 't0': t0, 'events': out, 'stall': stall, 'scenario': sc}
    finally:
        if 'state' in dir() and state.get('restore'): state['restore']()
        sim.close()


def gen_scenarios(seed: int, n: int) -> list[dict[str, Any]]:
    rnd = random.Random(f'timers-{seed}')
    confs = [(3, False, 0, 0), (3, True, 0, 1), (3, False, 2, 0), (2, True, 3, 2), (0, False, 2, 0), (2, False, 0, 2), (5, True, 0, 0),
             (4, False, 6, 3), (0, False, 0, 0), (1, True, 0, 0), (3, True, 4, 0)]
    out = []
    for i in range(n):
        interval, sharp, idle, initd = rnd.choice(confs)
        conf = {'interval': interval, 'sharp': sharp, 'idle': idle, 'initdelay': initd, 'backoff': rnd.choice([1, 2, 3, 0])}
        runs = []
        for _ in range(rnd.randint(2, 7)):
            k = rnd.choices(['ok', 'temp', 'exc', 'perm'], [10, 3, 2, 1])[0]
            runs.append((rnd.choice([0, 0, 1, 2, interval, interval + 1, 2 * interval + 1] if interval else [0, 1, 2]), k, rnd.choice([1, 2, 4, 0]) if k == 'temp' else 0))
        changes = sorted(rnd.sample(range(2, 30), rnd.randint(0, 3)))
        out.append({'id': f'timer-{seed}-{i}', 'conf': conf, 'runs': runs, 'changes': changes,
                    'relist_changes': [changes.pop()] if changes and i % 4 == 3 else [],
                    'delete_at': rnd.choice([None, None, rnd.randint(5, 35)]), 'end': 60,
                    'sync': i % 5 == 2})
        if i % 6 == 1 and conf['interval']:      # the API refuses the PATCH of a run's result for good: the timer task ends there (F17)
            r3 = random.Random(f'timers-pf-{seed}-{i}')
            out[-1].update(result=True, patchfail=r3.choice([1, 2, 3]), sync=False)
            out[-1]['runs'] = [(d_, 'ok', 0) for (d_, _k, _x) in out[-1]['runs']] + [(0, 'ok', 0)] * 3
        if i % 6 == 2 and conf['interval']:      # the PATCH of a run's result takes time: a sharp timer stays on its grid all the same
            r4 = random.Random(f'timers-lat-{seed}-{i}')
            out[-1].update(result=True, plat=r4.choice([1, 1, 2]), sync=False, delete_at=None, changes=[], relist_changes=[])
        if i % 6 == 5:      # a sibling timer of the same object is stopped (the object leaves ITS filter): this timer goes on as if alone
            out[-1]['sibling'] = random.Random(f'timers-sib-{seed}-{i}').randint(3, 20)
        if i % 6 == 4:      # the object leaves the timer's filters (possibly in the middle of a run) and comes back
            r2 = random.Random(f'timers-tog-{seed}-{i}')
            t1 = r2.randint(3, 20); t2 = t1 + r2.choice([1, 2, 3, 6, 10])
            out[-1]['toggles'] = [(t1, False), (t2, True)] + ([(t2 + r2.choice([2, 5]), False)] if r2.random() < 0.3 else [])
            out[-1]['delete_at'] = None; out[-1]['relist_changes'] = []
    return out


def judge(traces: list[dict[str, Any]], rep: Any, perm_stops: bool = True) -> dict[str, dict[str, Any]]:
    scratch = tempfile.mkdtemp(prefix='vf-tt-')
    try:
        delays = sorted({e['d'] for t in traces for e in t['events'] if e['ev'] == 'start'} | {0})
        durs = sorted({e['dur'] for t in traces for e in t['events'] if e['ev'] == 'start'} | {0})
        path = os.path.join(scratch, 'traces.json')
        with open(path, 'w') as f:
            json.dump([{'id': t['id'], 'conf': t['conf'], 't0': t['t0'], 'events': t['events'],
                        'nochange': not t['scenario'].get('change_handlers', True)} for t in traces], f)
        cfg = ('SPECIFICATION TSpec\nCONSTANTS\n  ConfSet = {}\n  Durs = {%s}\n  Delays = {%s}\n  Horizon = 100000\n  MaxChanges = 1000\n'
               '  MaxFails = 1000\n  PermStops = %s\nCONSTRAINT Book\nPOSTCONDITION Verdicts\nCHECK_DEADLOCK FALSE\n'
               % (', '.join(map(str, durs)), ', '.join(map(str, delays)), 'TRUE' if perm_stops else 'FALSE'))
        r = tlc.run('Trace_Timers', cfg_text=cfg, workers=1, deque=True, env={'TRACE_FILE': path}, timeout=1800)
    finally:
        shutil.rmtree(scratch, ignore_errors=True)
    if not r.ok:
        raise MachineryFailure(f'Trace_Timers failed: {r.violated} {r.errors}\n{r.out[-3000:]}')
    rep.add_tlc('Trace_Timers', r)
    res = {}
    got = {int(m.group(1)): m for m in _RE_VERDICT.finditer(r.out)}
    if len(got) != len(traces):
        raise MachineryFailure(f'Trace_Timers printed {len(got)} verdicts for {len(traces)} traces\n{r.out[-2000:]}')
    for i, t in enumerate(traces, start=1):
        m = got[i]
        strict, loose, n, inv = int(m.group(3)), int(m.group(4)), int(m.group(5)), m.group(6)
        if strict == n: v = 'accepted'
        elif loose == n: v = f'invariant {inv} violated'
        else: v = f'rejected at event {loose + 1} of {n}: {t["events"][loose] if loose < len(t["events"]) else None}'
        res[t['id']] = {'verdict': v, 'loose': loose, 'inv': inv, 'family': m.group(7)}
    return res
