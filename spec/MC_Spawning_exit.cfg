SPECIFICATION Spec
CONSTANTS
  Hs = {"d1", "d2", "t1"}
  ConfSet <- ConfsExit
  Horizon = 9
  MaxEdits = 0
  MaxToggles = 0
  MaxDeletes = 1
  MaxForce = 0
  MaxStops = 1
  MaxKills = 0
  MaxPauses = 0
INVARIANT OneInstance
INVARIANT NoRespawnAfterOwnExit
INVARIANT CancelNotBeforeBackoff
INVARIANT StagesInOrder
INVARIANT FinalizerHeld
CHECK_DEADLOCK FALSE
