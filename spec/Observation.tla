---------------------------- MODULE Observation ----------------------------
(***************************************************************************)
(* C19 (cluster changes): what the resource observer and the namespace     *)
(* observer make of the cluster -- observation.revise_resources with its   *)
(* helpers (_update_resources, _disable_ambiguous_selectors,               *)
(* _disable_unsuitable_resources) and observation.revise_namespaces -- as  *)
(* reference functions over sets, and a classifier for the records of      *)
(* every call of the real functions inside running operators.              *)
(*                                                                         *)
(* A resource is a record [group, version, plural, kind, singular,         *)
(* shortcuts, categories, preferred, namespaced, verbs]; a selector is the *)
(* record of Filters!SelMatches ([group, version, nt, name], "any" = not   *)
(* given); callables are evaluated by the harness (field fnres: the keys   *)
(* of the scanned resources for which the callable said yes).              *)
(***************************************************************************)
EXTENDS Naturals, Sequences, FiniteSets, TLC
F == INSTANCE Filters

SetOf(s) == {s[i] : i \in DOMAIN s}
Key(r) == <<r.group, r.version, r.plural>>
Checks(sel, r) ==
  IF sel.nt = "fn"
  THEN (sel.group = "any" \/ sel.group = r.group) /\ (sel.version = "any" \/ sel.version = r.version)
       /\ Key(r) \in SetOf(sel.fnres) /\ ~F!IsEvents(r)
  ELSE F!SelMatches(sel, r)
\* a selector that names one thing (kind, plural, singular, short name, or just a name) as opposed to a category / everything / a callable
Specific(sel) == sel.nt \in {"kind", "plural", "singular", "shortcut", "any"}
\* Selector.select: among several matches a specific selector implicitly prefers the core group
Select(sel, src) ==
  LET m == {r \in src : Checks(sel, r)}
      core == {r \in m : r.group = ""}
  IN IF Specific(sel) /\ core # {} THEN core ELSE m
\* _update_resources: everything of the re-scanned group (or everything at all) is dropped, what the selectors pick from the fresh scan is taken
Update(cur, sels, group, src) ==
  (cur \ {r \in cur : group = "all" \/ r.group = group}) \cup UNION {Select(s, src) : s \in sels}
\* _disable_ambiguous_selectors: a specific selector that picks two or more resources picks none; the selectors are visited in no
\* particular order and each sees what the earlier ones have left: the set of possible results
RECURSIVE Disambiguated(_, _)
Disambiguated(res, sels) ==
  IF sels = {} THEN {res}
  ELSE UNION {Disambiguated(IF Specific(s) /\ Cardinality(Select(s, res)) > 1 THEN res \ Select(s, res) ELSE res, sels \ {s}) : s \in sels}
\* _disable_unsuitable_resources: what cannot be listed and watched is not served; what cannot be patched is not served if a handler
\* that keeps a state (changing / spawning) selects it
Has(r, verb) == \E i \in DOMAIN r.verbs : r.verbs[i] = verb
Suitable(res, patched) ==
  LET nowatch == {r \in res : ~Has(r, "watch") \/ ~Has(r, "list")}
      nopatch == {r \in res : ~Has(r, "patch")} \ nowatch
      needed == \E s \in patched : Select(s, nopatch) # {}
  IN (res \ nowatch) \ (IF needed THEN nopatch ELSE {})
Watched(cur, watchedSels, patchedSels, group, src) ==
  {Suitable(d, patchedSels) : d \in Disambiguated(Update(cur, watchedSels, group, src), watchedSels)}

\* ---- namespaces: a pattern is a sequence of globs [neg, kind ("exact" | "prefix" | "suffix" | "all"), text (code points)] read left to right
IsPrefix(p, s) == Len(p) <= Len(s) /\ \A i \in DOMAIN p : p[i] = s[i]
IsSuffix(p, s) == Len(p) <= Len(s) /\ \A i \in DOMAIN p : p[i] = s[Len(s) - Len(p) + i]
Glob(g, name) == CASE g.kind = "exact" -> g.text = name
                   [] g.kind = "prefix" -> IsPrefix(g.text, name)
                   [] g.kind = "suffix" -> IsSuffix(g.text, name)
                   [] g.kind = "all" -> TRUE
\* docs/scopes: the first glob should be an inclusive one -- unless it is, a catch-all is implied in front of it; every exclusive glob
\* un-matches the name if it was matched before; a later inclusive glob re-admits only a name that the first glob had admitted
CatchAll == [neg |-> FALSE, kind |-> "all", text |-> <<>>]
RECURSIVE Walk(_, _, _, _, _)
Walk(globs, i, name, matches, first) ==
  IF i > Len(globs) THEN matches
  ELSE LET g == globs[i] IN
       Walk(globs, i + 1, name, IF g.neg THEN matches /\ ~Glob(g, name) ELSE matches \/ (first /\ Glob(g, name)), first)
PatternMatches(globs0, name) ==
  LET globs == IF globs0 = <<>> \/ globs0[1].neg THEN <<CatchAll>> \o globs0 ELSE globs0
      first == Glob(globs[1], name)
  IN Walk(globs, 2, name, first, first)
NsMatches(patterns, name) == \E i \in DOMAIN patterns : PatternMatches(patterns[i], name)
\* revise_namespaces: a namespace is dropped when it is really gone (a DELETED event, or marked for deletion with its conditions
\* reported and none of them blocking); it is added when it matches and is not being deleted
RECURSIVE ReviseNs(_, _, _, _)
ReviseNs(cur, evs, i, patterns) ==
  IF i > Len(evs) THEN cur
  ELSE LET e == evs[i]
           deleted == (e.marked /\ e.hasconds) \/ e.type = "DELETED"
       IN ReviseNs(IF deleted /\ e.blocked THEN cur
                   ELSE IF deleted THEN cur \ {e.name}
                   ELSE IF NsMatches(patterns, e.codes) THEN cur \cup {e.name} ELSE cur, evs, i + 1, patterns)

ClassifyObs(rec) ==
  CASE rec.kind = "res" ->
         LET src == SetOf(rec.src)
             wsel == SetOf(rec.watched) psel == SetOf(rec.patched)
         IN IF SetOf(rec.after.webhook) # Update(SetOf(rec.before.webhook), SetOf(rec.webhooks), rec.group, src) THEN "webhook_resources_differ_from_the_reference"
            ELSE IF SetOf(rec.after.indexed) # Update(SetOf(rec.before.indexed), SetOf(rec.indexeds), rec.group, src) THEN "indexed_resources_differ_from_the_reference"
            ELSE IF SetOf(rec.after.watched) \notin Watched(SetOf(rec.before.watched), wsel, psel, rec.group, src) THEN "watched_resources_differ_from_the_reference"
            ELSE "ok"
    [] rec.kind = "ns" ->
         IF SetOf(rec.after) = ReviseNs(SetOf(rec.before), rec.events, 1, rec.patterns) THEN "ok" ELSE "served_namespaces_differ_from_the_reference"
    [] OTHER -> "unknown_record_kind"
=============================================================================
