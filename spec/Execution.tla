------------------------------ MODULE Execution ------------------------------
(***************************************************************************)
(* C11 at the level of one invocation (kopf/_core/actions/execution.py:    *)
(* execute_handler_once), for every kind of handler alike.                 *)
(* conf  = [timeout, retries, backoff (-1 = not set), mode ("" = default,  *)
(*          "temporary" | "permanent" | "ignored"), defbackoff]            *)
(* state = [runtime (seconds since the first attempt), retries (attempts   *)
(*          so far)]                                                       *)
(* res   = what the function does if invoked: [kind: "ok" | "temp" |       *)
(*          "perm" | "exc", delay (for temp; -1 = none given)]             *)
(* Reference reading of the statement: no attempt starts at or after T     *)
(* since the first one, at most N attempts; a retry that would only start  *)
(* at/after the limit is not scheduled: the handler fails for good now.    *)
(***************************************************************************)
EXTENDS Integers, Sequences, TLC
Unset == -1
Backoff(c) == IF c.backoff = Unset THEN c.defbackoff ELSE c.backoff
Mode(c) == IF c.mode = "" THEN "temporary" ELSE c.mode
TimedOut(c, rt) == c.timeout # Unset /\ rt >= c.timeout
Exhausted(c, n) == c.retries # Unset /\ n >= c.retries
Retry(d) == [invoked |-> TRUE, final |-> FALSE, failed |-> FALSE, delay |-> d]
Done == [invoked |-> TRUE, final |-> TRUE, failed |-> FALSE, delay |-> Unset]
Failed(inv) == [invoked |-> inv, final |-> TRUE, failed |-> TRUE, delay |-> Unset]
Expected(c, s, r) ==
  IF TimedOut(c, s.runtime) \/ Exhausted(c, s.retries) THEN Failed(FALSE)
  ELSE CASE r.kind = "ok" -> Done
         [] r.kind = "perm" -> Failed(TRUE)
         [] r.kind = "temp" -> LET d == IF r.delay = Unset THEN 0 ELSE r.delay IN
                               IF TimedOut(c, s.runtime + d) \/ Exhausted(c, s.retries + 1) THEN Failed(TRUE) ELSE Retry(r.delay)
         [] r.kind = "exc" ->
              CASE Mode(c) = "ignored" -> Done
                [] Mode(c) = "permanent" -> Failed(TRUE)
                [] OTHER -> IF TimedOut(c, s.runtime + Backoff(c)) \/ Exhausted(c, s.retries + 1) THEN Failed(TRUE) ELSE Retry(Backoff(c))
ClassifyC11(rec) ==
  LET e == Expected(rec.conf, rec.state, rec.res) o == rec.out IN
  IF o.invoked # e.invoked THEN (IF o.invoked THEN "attempt_started_after_the_timeout_or_retries_limit" ELSE "attempt_refused_before_the_limit")
  ELSE IF o.final # e.final THEN (IF o.final THEN "ended_for_good_though_a_retry_was_due" ELSE "retried_though_it_had_to_end")
  ELSE IF o.failed # e.failed THEN "wrong_final_verdict"
  ELSE IF ~o.final /\ o.delay # e.delay THEN "retry_delay_is_not_the_requested_one"
  ELSE "ok"
\* laws of the reference (checked by TLC over the whole input space in MC_Execution)
Law_NeverBeyond(c, s, r) == (TimedOut(c, s.runtime) \/ Exhausted(c, s.retries)) => ~Expected(c, s, r).invoked
Law_RetryWithin(c, s, r) == LET e == Expected(c, s, r) IN (~e.final) =>
   /\ ~TimedOut(c, s.runtime + (IF e.delay = Unset THEN 0 ELSE e.delay)) /\ ~Exhausted(c, s.retries + 1)
   /\ (r.kind = "temp" => e.delay = r.delay) /\ (r.kind = "exc" => e.delay = Backoff(c))
Law_Modes(c, s, r) == LET e == Expected(c, s, r) IN (e.invoked /\ r.kind = "exc") =>
   ((Mode(c) = "ignored" => e.final /\ ~e.failed) /\ (Mode(c) = "permanent" => e.final /\ e.failed))
=============================================================================
