--------------------------- MODULE WatchMonitor ---------------------------
(***************************************************************************)
(* C19 as a property automaton over recorded executions: what the fake API *)
(* server saw (list / watch requests with their resourceVersion, released  *)
(* lines, stream ends), what the operator's consumer got, and which        *)
(* (resource, namespace) pairs were served at the checkpoints.             *)
(* Events:                                                                 *)
(*   commit(o, rv, gone)     the server committed a change of object o     *)
(*   list(key, rv, objs)     a list response for stream key at version rv  *)
(*   open(key, since)        a watch request                               *)
(*   line(key, rv)           a line (event or bookmark) released on it     *)
(*   seen(o, rv, gone)       the consumer (an @on.event handler) got it    *)
(*   fatal(key, why)         an unknown ERROR line was injected ("line"),  *)
(*                           or a list/watch request escalated after its   *)
(*                           retries with a 5xx / 403 ("escalated")        *)
(*   notfound(key)           a list/watch request for the pair got a 404   *)
(*   check(served, watched, cscoped)  checkpoint at rest: sets of pair    *)
(*                           keys; cscoped = the pairs of cluster-scoped  *)
(*                           kinds                                        *)
(***************************************************************************)
EXTENDS Naturals, Sequences, FiniteSets, TLC, Json, IOUtils, TLCExt
Traces == JsonDeserialize(IOEnv.TRACE_FILE)
CONSTANT ObjsU
VARIABLES tid, l, last, srvrv, srvgone, seenrv, seengone, fatal, nf, verdict
vars == <<tid, l, last, srvrv, srvgone, seenrv, seengone, fatal, nf, verdict>>
\* fatal: "no" | "line" (F15) | "escalated" (F32)
T == Traces[tid].events
E == T[l]
Keys == {T[i].key : i \in {j \in DOMAIN T : T[j].ev \in {"list", "open", "line"}}}

Init == /\ tid \in 1..Len(Traces) /\ l = 1 /\ verdict = "ok" /\ fatal = "no" /\ nf = {}
        /\ last = [k \in {} |-> 0]                          \* stream key -> version of the last list / released line
        /\ srvrv = [o \in ObjsU |-> 0] /\ srvgone = [o \in ObjsU |-> TRUE]
        /\ seenrv = [o \in ObjsU |-> 0] /\ seengone = [o \in ObjsU |-> TRUE]

Bad(v) == verdict' = IF verdict = "ok" THEN v ELSE verdict
SetLast(k, v) == last' = [x \in DOMAIN last \cup {k} |-> IF x = k THEN v ELSE last[x]]
SetToSeq(s) == {s[i] : i \in DOMAIN s}

Step ==
  /\ l <= Len(T) /\ l' = l + 1 /\ UNCHANGED tid
  \* pairs whose last list/watch request was answered 404 (the kind had just been removed) and not re-opened since
  /\ nf' = CASE E.ev = "notfound" -> nf \cup {E.key} [] E.ev = "open" -> nf \ {E.key} [] OTHER -> nf
  /\ CASE E.ev = "commit" ->
            /\ srvrv' = [srvrv EXCEPT ![E.o] = E.rv] /\ srvgone' = [srvgone EXCEPT ![E.o] = E.gone]
            /\ UNCHANGED <<last, seenrv, seengone, fatal, verdict>>
       [] E.ev = "list" ->
            /\ SetLast(E.key, E.rv)
            \* a listing is level-triggered: whatever it does not show is known to be gone
            /\ seengone' = [o \in ObjsU |-> IF E.covers /\ o \notin SetToSeq(E.objs) THEN TRUE ELSE seengone[o]]
            /\ UNCHANGED <<srvrv, srvgone, seenrv, fatal, verdict>>
       [] E.ev = "open" ->
            /\ UNCHANGED <<last, srvrv, srvgone, seenrv, seengone, fatal>>
            /\ IF E.key \notin DOMAIN last THEN Bad("watch_without_listing")
               ELSE IF E.since # last[E.key] THEN Bad("resumed_from_a_version_that_was_not_the_latest_seen")
               ELSE UNCHANGED verdict
       [] E.ev = "line" ->
            /\ SetLast(E.key, E.rv) /\ UNCHANGED <<srvrv, srvgone, seenrv, seengone, fatal, verdict>>
       [] E.ev = "seen" ->
            /\ seenrv' = [seenrv EXCEPT ![E.o] = IF E.rv > @ THEN E.rv ELSE @] /\ seengone' = [seengone EXCEPT ![E.o] = E.gone]
            /\ UNCHANGED <<last, srvrv, srvgone, fatal, verdict>>
       [] E.ev = "notfound" -> UNCHANGED <<last, srvrv, srvgone, seenrv, seengone, fatal, verdict>>
       [] E.ev = "fatal" ->
            /\ fatal' = (IF fatal = "no" THEN E.why ELSE fatal) /\ UNCHANGED <<last, srvrv, srvgone, seenrv, seengone, verdict>>
       [] E.ev = "check" ->
            /\ UNCHANGED <<last, srvrv, srvgone, seenrv, seengone, fatal>>
            /\ LET served == SetToSeq(E.served) watched == SetToSeq(E.watched)
                   dup == \E i \in DOMAIN E.watched : \E j \in DOMAIN E.watched : i # j /\ E.watched[i] = E.watched[j]
                   lost == \E o \in ObjsU : (~srvgone[o] /\ (seengone[o] \/ seenrv[o] # srvrv[o])) \/ (srvgone[o] /\ ~seengone[o])
               IN IF dup THEN Bad("two_watches_for_one_pair")
                  ELSE IF watched # served THEN
                         (IF fatal = "line" THEN Bad("F15") ELSE IF fatal = "escalated" THEN Bad("F32")
                          \* F25: the watcher died of a 404 while its kind was being removed, the kind came back before the
                          \* operator rescanned, and nothing respawns the dead watcher
                          ELSE IF watched \subseteq served /\ (served \ watched) \subseteq nf THEN Bad("F25")
                          \* F34: the watch of a cluster-scoped kind, spawned with the first served namespace, is kept when the last one goes
                          ELSE IF served = {} /\ watched \subseteq SetToSeq(E.cscoped) THEN Bad("F34")
                          ELSE Bad("watches_differ_from_served_pairs"))
                  ELSE IF E.settled /\ lost THEN (IF fatal = "line" THEN Bad("F15") ELSE IF fatal = "escalated" THEN Bad("F32")
                                                 ELSE Bad("a_change_never_reached_processing"))
                  ELSE UNCHANGED verdict
Spec == Init /\ [][Step]_vars
Book == IF l = Len(T) + 1 THEN TLCSet(1, [TLCGet(1) EXCEPT ![tid] = verdict]) ELSE TRUE
ASSUME TLCSet(1, [i \in 1..Len(Traces) |-> "incomplete"])
Verdicts == \A i \in 1..Len(Traces) : PrintT(<<"MONITOR", i, Traces[i].id, TLCGet(1)[i]>>)
=============================================================================
