SPECIFICATION SafeSpec
CONSTANTS
  H = {"a", "b"}
  ConfSet <- Confs_ab_one
  Delays = {1}
  EssVals = {1, 2}
  Foreign = {}
  Horizon = 5
  Doors <- NoDoors
  MaxEdits = 1
  MaxFails = 0
  MaxKills = 0
  MaxStops = 0
  MaxDeletes = 0
  MaxForeign = 0
  MaxToggles = 0
  MaxRelists = 0
  MaxHolds = 0
INVARIANT FinalStateSeen
CHECK_DEADLOCK FALSE
