SPECIFICATION Spec
CONSTANTS
  MaxChanges = 4
  MaxFaults = 3
  RememberAfterYield = FALSE
  EagerBookmark = TRUE
INVARIANT NoSkip
INVARIANT SinceNeverAhead
INVARIANT AllReach
CHECK_DEADLOCK FALSE
