---------------------------- MODULE MC_Handling ----------------------------
(* Exhaustive configurations of Handling.tla: handler sets are defined here, budgets in the cfg files. *)
EXTENDS Handling
None == [reasons |-> {}, optional |-> FALSE, deleted |-> FALSE, retries |-> 0, mode |-> "temporary", backoff |-> 2]
Hdl(reasons) == [reasons |-> reasons, optional |-> FALSE, deleted |-> FALSE, retries |-> 0, mode |-> "temporary", backoff |-> 2]
\* two handlers registered for creation and update (same ids), one-by-one / all-at-once / asap
HC_ab == [a |-> Hdl({"create", "update"}), b |-> Hdl({"create", "update"})]
Order_ab == <<"a", "b">>
\* creation/update handler + mandatory deletion handler + resume handler
HC_adr == [a |-> Hdl({"create", "update"}), d |-> Hdl({"delete"}), r |-> Hdl({"resume"})]
Order_adr == <<"a", "d", "r">>
\* optional deletion handler only (no finalizer), plus a retries-limited creation handler
HC_lim == [a |-> [Hdl({"create"}) EXCEPT !.retries = 2], o |-> [Hdl({"delete"}) EXCEPT !.optional = TRUE]]
Order_lim == <<"a", "o">>
Conf(hc, order, lc, ct) == [hc |-> [h \in H |-> IF h \in DOMAIN hc THEN hc[h] ELSE None], order |-> order, lifecycle |-> lc, ctimeout |-> ct]
Confs_ab == {Conf(HC_ab, Order_ab, lc, 2) : lc \in {"one", "all", "asap"}}
Confs_ab_one == {Conf(HC_ab, Order_ab, "one", 2)}
Confs_adr == {Conf(HC_adr, Order_adr, lc, 2) : lc \in {"one", "all"}}
Confs_lim == {Conf(HC_lim, Order_lim, "asap", 2)}
HC_ad == [a |-> Hdl({"create", "update"}), d |-> Hdl({"delete"})]
Confs_ad == {Conf(HC_ad, <<"a", "d">>, "asap", 2)}
HC_ar == [a |-> Hdl({"create", "update"}), r |-> Hdl({"resume"})]
Confs_ar == {Conf(HC_ar, <<"a", "r">>, "asap", 2)}
\* a creation/update handler, a mandatory deletion handler AND a daemon on the same object (the daemon's function reacts as it likes)
Dmn(b, t) == [kind |-> "daemon", backoff |-> b, timeout |-> t, sync |-> FALSE]
ConfD(hc, order, lc, ct, dh) == [hc |-> [h \in H |-> IF h \in DOMAIN hc THEN hc[h] ELSE None], order |-> order, lifecycle |-> lc, ctimeout |-> ct,
                                 dh |-> dh, polling |-> 2, exitto |-> 2]
Confs_mixed == {ConfD(HC_ad, <<"a", "d">>, "asap", 2, [d1 |-> Dmn(b, t)]) : b \in {0, 1}, t \in {0, 2}}
Confs_mixed_a == {ConfD([a |-> Hdl({"create", "update"})], <<"a">>, "asap", 2, [d1 |-> Dmn(1, t)]) : t \in {0, 2}}
\* witness: the daemon alone holds the object (every mandatory deletion handler is done, the finalizer is still there)
NoHeldByDaemon == ~(obj.deleting /\ Blocked(obj) /\ Mandatory \subseteq gh.deldone /\ \E h \in DHs : Entitled(h))
\* a handler with two sub-handlers beside a plain one
ConfS(hc, order, lc, ct, subs) == [hc |-> [h \in H |-> IF h \in DOMAIN hc THEN hc[h] ELSE None], order |-> order, lifecycle |-> lc, ctimeout |-> ct,
                                   subs |-> [h \in H |-> IF h \in DOMAIN subs THEN subs[h] ELSE <<>>]]
HC_pq == [p |-> Hdl({"create", "update"}), q |-> Hdl({"create", "update"})]
Confs_sub == {ConfS(HC_pq, <<"p", "q">>, lc, 2, [p |-> <<"p/x", "p/y">>]) : lc \in {"one", "all", "asap"}}
\* a handler with a timeout: retried on temporary / arbitrary errors, across kills and restarts
HdlT(reasons, t) == [reasons |-> reasons, optional |-> FALSE, deleted |-> FALSE, retries |-> 0, mode |-> "temporary", backoff |-> 1, timeout |-> t]
NoneT == [reasons |-> {}, optional |-> FALSE, deleted |-> FALSE, retries |-> 0, mode |-> "temporary", backoff |-> 2, timeout |-> 0]
Confs_to == {[hc |-> [h \in H |-> IF h = "a" THEN HdlT({"create", "update"}, t) ELSE NoneT], order |-> <<"a">>, lifecycle |-> "asap", ctimeout |-> 2] : t \in {2, 3}}
\* handlers that return results (status.<id>), on a kind without / with the status subresource (the status part is a request of its own)
ConfR(hc, order, lc, ct, sb) == [hc |-> [h \in H |-> IF h \in DOMAIN hc THEN hc[h] ELSE None], order |-> order, lifecycle |-> lc, ctimeout |-> ct,
                                 res |-> [ssub |-> sb, vals |-> {1, 2}, ev |-> "off"]]
ConfRE(hc, order, lc, ct, sb, ev) == [ConfR(hc, order, lc, ct, sb) EXCEPT !.res.ev = ev, !.res.vals = {}]
Confs_res_ev == {ConfRE(HC_ab, Order_ab, lc, 2, sb, ev) : lc \in {"one", "asap"}, sb \in BOOLEAN, ev \in {"mirror", "const"}}
Confs_f38 == {ConfRE(HC_ad, <<"a", "d">>, "asap", 2, sb, ev) : sb \in BOOLEAN, ev \in {"mirror", "const"}}
Confs_res == {ConfR(HC_ab, Order_ab, lc, 2, sb) : lc \in {"one", "asap"}, sb \in BOOLEAN}
Confs_res_ad == {ConfR(HC_ad, <<"a", "d">>, "asap", 2, sb) : sb \in BOOLEAN}
F36Code == TRUE       \* the code before fix F36: the version a patch returns is expected even if it is the one already seen
F35Code == FALSE      \* the code before fix F35: no sleep after a patch, even if the patch has changed nothing
NoDoors == {}
AllDoors == {"kill", "lost", "late", "stop"}
LateOnly == {"late"}
KillStop == {"kill", "stop"}
=============================================================================
