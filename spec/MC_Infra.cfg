SPECIFICATION Spec
INVARIANT LawCount
INVARIANT LawGapRetryAfter
INVARIANT LawGapBackoff
INVARIANT LawNonRetryableAtOnce
INVARIANT LawOkEnds
CHECK_DEADLOCK FALSE
