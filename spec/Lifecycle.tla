----------------------------- MODULE Lifecycle -----------------------------
(***************************************************************************)
(* The life of one operator process as kopf/_core/reactor/running.py       *)
(* arranges it: the startup/cleanup task (`sc`), the root tasks that are   *)
(* gated by started_flag, their children (watch streams and the peering    *)
(* record under the orchestrator, daemons under the daemon killer), and    *)
(* run_tasks() (`runner`) which waits for the first root task to finish,   *)
(* stops the others, and re-raises.                                        *)
(* One action per step of that mechanism; the properties of C20 are        *)
(* invariants and a leads-to over it.                                      *)
(***************************************************************************)
EXTENDS Naturals, Sequences, FiniteSets, TLC

CONSTANTS NoConf, MaxKids
VARIABLES conf,      \* [startup, cleanup : sequences (one per handler) of outcome scripts "ok" | "temp" | "perm"; peering] never changes
          sc,        \* the startup/cleanup task: "startup" | "sleep" | "waitroots" | "cleanup" | "ok" | "failed" | "cancelled"
          hs,        \* handlers of the activity in progress -> [n: invocations so far, st: "pending" | "ok" | "failed"]
          started, ready,
          rt,        \* root tasks -> "gated" | "run" | "cancelling" | "done" | "failed"
          watch, busy, rec, daemons,  \* children: open streams, handlers in flight, the peering record, live daemons
          trigger,   \* "none" | "flag" | "cancel"
          runner,    \* run_tasks(): "wait" | "stopping" | "returned" | "raised" | "cancelled"
          apis,      \* ghost: API requests issued so far
          sfail,     \* ghost: the startup activity failed
          cran,      \* ghost: a cleanup handler has been invoked
          lateD,     \* ghost: a daemon was spawned while the orchestrator was already being cancelled (family F29)
          orphans    \* ghost: live daemons whose object has vanished -- its memory is forgotten with the DELETED event, the daemon
                     \* killer iterates over the memories and cannot reach them anymore (family F5)
vars == <<conf, sc, hs, started, ready, rt, watch, busy, rec, daemons, trigger, runner, apis, sfail, cran, lateD, orphans>>

Roots == {"killer", "resobs", "nsobs", "orch", "poster"}
Ended(t) == rt[t] \in {"done", "failed"}
ScEnded == sc \in {"ok", "failed", "cancelled"}
Fresh(scripts) == [h \in 1..Len(scripts) |-> [n |-> 0, st |-> "pending"]]

Init0(c) ==
  /\ conf = c /\ sc = "startup" /\ hs = Fresh(c.startup) /\ started = FALSE /\ ready = FALSE
  /\ rt = [t \in Roots |-> "gated"] /\ watch = 0 /\ busy = 0 /\ rec = FALSE /\ daemons = 0
  /\ trigger = "none" /\ runner = "wait" /\ apis = 0 /\ sfail = FALSE /\ cran = FALSE /\ lateD = FALSE /\ orphans = 0

\* ---- the startup/cleanup task -------------------------------------------------------------------
\* (activities.run_activity: every pending handler is invoked in rounds until none is pending; a permanently failed one is not
\* retried; the activity fails, after all of them have finished, if any of them failed)
Script(s, i) == IF i + 1 <= Len(s) THEN s[i + 1] ELSE "ok"
After(out) == CASE out = "ok" -> "ok" [] out = "temp" -> "pending" [] OTHER -> "failed"
AllDone == \A h \in DOMAIN hs : hs[h].st # "pending"
AnyFailed == \E h \in DOMAIN hs : hs[h].st = "failed"
StartupStep(h, out) ==
  /\ sc = "startup" /\ h \in DOMAIN hs /\ hs[h].st = "pending" /\ out = Script(conf.startup[h], hs[h].n)
  /\ hs' = [hs EXCEPT ![h] = [n |-> @.n + 1, st |-> After(out)]]
  /\ UNCHANGED <<conf, sc, started, ready, rt, watch, busy, rec, daemons, trigger, runner, apis, sfail, cran, lateD, orphans>>
StartupEnds ==
  /\ sc = "startup" /\ AllDone /\ runner = "wait"
  /\ IF AnyFailed THEN sc' = "failed" /\ sfail' = TRUE /\ UNCHANGED <<started, ready>>        \* no cleanup after a failed startup
                  ELSE sc' = "sleep" /\ started' = TRUE /\ ready' = TRUE /\ sfail' = sfail
  /\ UNCHANGED <<conf, hs, rt, watch, busy, rec, daemons, trigger, runner, apis, cran, lateD, orphans>>
\* cancelled out of its sleep: wait for all the other root tasks, then clean up
ScWaitsRoots ==
  /\ sc = "sleep" /\ runner = "stopping" /\ sc' = "waitroots"
  /\ UNCHANGED <<conf, hs, started, ready, rt, watch, busy, rec, daemons, trigger, runner, apis, sfail, cran, lateD, orphans>>
ScBeginsCleanup ==
  /\ sc = "waitroots" /\ \A t \in Roots : Ended(t) /\ sc' = "cleanup" /\ hs' = Fresh(conf.cleanup)
  /\ UNCHANGED <<conf, started, ready, rt, watch, busy, rec, daemons, trigger, runner, apis, sfail, cran, lateD, orphans>>
CleanupStep(h, out) ==
  /\ sc = "cleanup" /\ h \in DOMAIN hs /\ hs[h].st = "pending" /\ out = Script(conf.cleanup[h], hs[h].n)
  /\ hs' = [hs EXCEPT ![h] = [n |-> @.n + 1, st |-> After(out)]] /\ cran' = TRUE
  /\ UNCHANGED <<conf, sc, started, ready, rt, watch, busy, rec, daemons, trigger, runner, apis, sfail, lateD, orphans>>
CleanupEnds ==
  /\ sc = "cleanup" /\ AllDone /\ sc' = (IF AnyFailed THEN "failed" ELSE "ok")
  /\ UNCHANGED <<conf, hs, started, ready, rt, watch, busy, rec, daemons, trigger, runner, apis, sfail, cran, lateD, orphans>>
\* cancelled while the startup handlers are still running: partial startup, no cleanup
ScCancelledInStartup ==
  /\ sc = "startup" /\ runner = "stopping" /\ sc' = "cancelled"
  /\ UNCHANGED <<conf, hs, started, ready, rt, watch, busy, rec, daemons, trigger, runner, apis, sfail, cran, lateD, orphans>>

\* ---- root tasks and their children ---------------------------------------------------------------
\* (all the guarded tasks wait for the same flag and are resumed by the same set(): they enter together)
GatesOpen ==
  /\ started /\ runner = "wait" /\ \E t \in Roots : rt[t] = "gated"
  /\ rt' = [t \in Roots |-> IF rt[t] = "gated" THEN "run" ELSE rt[t]]
  /\ UNCHANGED <<conf, sc, hs, started, ready, watch, busy, rec, daemons, trigger, runner, apis, sfail, cran, lateD, orphans>>
Api(t) ==
  /\ rt[t] \in {"run", "cancelling"} /\ apis' = apis + 1
  /\ UNCHANGED <<conf, sc, hs, started, ready, rt, watch, busy, rec, daemons, trigger, runner, sfail, cran, lateD, orphans>>
WatchOpens == /\ rt["orch"] = "run" /\ watch < MaxKids /\ watch' = watch + 1 /\ apis' = apis + 1
              /\ UNCHANGED <<conf, sc, hs, started, ready, rt, busy, rec, daemons, trigger, runner, sfail, cran, lateD, orphans>>
Announce ==   /\ rt["orch"] = "run" /\ conf.peering /\ ~rec /\ rec' = TRUE /\ apis' = apis + 1
              /\ UNCHANGED <<conf, sc, hs, started, ready, rt, watch, busy, daemons, trigger, runner, sfail, cran, lateD, orphans>>
DaemonStarts == /\ rt["orch"] = "run" /\ daemons < MaxKids /\ daemons' = daemons + 1
                /\ UNCHANGED <<conf, sc, hs, started, ready, rt, watch, busy, rec, trigger, runner, apis, sfail, cran, lateD, orphans>>
\* (while the orchestrator is being cancelled the workers still drain what was queued: only the trace specification uses `late`)
HandlerStartsIn(late) == /\ rt["orch"] \in (IF late THEN {"run", "cancelling"} ELSE {"run"}) /\ busy < MaxKids /\ busy' = busy + 1
                 /\ UNCHANGED <<conf, sc, hs, started, ready, rt, watch, rec, daemons, trigger, runner, apis, sfail, cran, lateD, orphans>>
\* what the code does (F29): a worker that is still draining its queue while the operator shuts down processes the object once
\* more and spawns its daemons again, after the daemon killer's final pass; such a daemon lives through the cleanup handlers
\* and is only cancelled with the hung tasks at the very end
DaemonStartsLate == /\ rt["orch"] = "cancelling" /\ daemons < MaxKids /\ daemons' = daemons + 1 /\ lateD' = TRUE
                    /\ UNCHANGED <<conf, sc, hs, started, ready, rt, watch, busy, rec, trigger, runner, apis, sfail, cran, orphans>>
\* what the code does (F5): the DELETED event of an object whose daemon is (still, or -- started from an older view -- again) running is
\* processed: the memory of the object is forgotten, the daemon goes on; nobody stops it before the final sweep of run_tasks()
Orphaned == /\ orphans < daemons /\ orphans' = orphans + 1
            /\ UNCHANGED <<conf, sc, hs, started, ready, rt, watch, busy, rec, daemons, trigger, runner, apis, sfail, cran, lateD>>
OrphanExits == /\ orphans > 0 /\ daemons > 0 /\ daemons' = daemons - 1 /\ orphans' = orphans - 1
               /\ UNCHANGED <<conf, sc, hs, started, ready, rt, watch, busy, rec, trigger, runner, apis, sfail, cran, lateD>>
LateDaemonExits == /\ lateD /\ daemons > 0 /\ daemons' = daemons - 1
                   /\ UNCHANGED <<conf, sc, hs, started, ready, rt, watch, busy, rec, trigger, runner, apis, sfail, cran, lateD, orphans>>
HandlerStarts == HandlerStartsIn(FALSE)
HandlerEnds == /\ busy > 0 /\ busy' = busy - 1
               /\ UNCHANGED <<conf, sc, hs, started, ready, rt, watch, rec, daemons, trigger, runner, apis, sfail, cran, lateD, orphans>>
\* children end when their parent is being cancelled (the parent awaits them), or when their own subject goes away
WatchCloses == /\ rt["orch"] \in {"run", "cancelling"} /\ watch > 0 /\ watch' = watch - 1
               /\ UNCHANGED <<conf, sc, hs, started, ready, rt, busy, rec, daemons, trigger, runner, apis, sfail, cran, lateD, orphans>>
Withdraws ==   /\ rt["orch"] = "cancelling" /\ rec /\ rec' = FALSE /\ apis' = apis + 1
               /\ UNCHANGED <<conf, sc, hs, started, ready, rt, watch, busy, daemons, trigger, runner, sfail, cran, lateD, orphans>>
DaemonExits == /\ daemons > orphans /\ (rt["killer"] = "cancelling" \/ rt["killer"] = "run") /\ daemons' = daemons - 1
               /\ UNCHANGED <<conf, sc, hs, started, ready, rt, watch, busy, rec, trigger, runner, apis, sfail, cran, lateD, orphans>>
ChildrenGone(t) == (t = "orch" => watch = 0 /\ busy = 0 /\ ~rec) /\ (t = "killer" => (daemons = orphans \/ lateD))
Unwinds(t) ==
  /\ rt[t] = "cancelling" /\ ChildrenGone(t) /\ rt' = [rt EXCEPT ![t] = "done"]
  /\ UNCHANGED <<conf, sc, hs, started, ready, watch, busy, rec, daemons, trigger, runner, apis, sfail, cran, lateD, orphans>>
\* an essential task fails on its own (an unrecoverable error of an observer's stream, exhausted retries, ...)
Fails(t) ==
  /\ rt[t] = "run" /\ t \in {"resobs", "nsobs", "poster"} /\ rt' = [rt EXCEPT ![t] = "failed"]
  /\ UNCHANGED <<conf, sc, hs, started, ready, watch, busy, rec, daemons, trigger, runner, apis, sfail, cran, lateD, orphans>>

\* ---- the environment and run_tasks() ---------------------------------------------------------------
StopFlag == /\ trigger = "none" /\ runner = "wait" /\ trigger' = "flag"
            /\ UNCHANGED <<conf, sc, hs, started, ready, rt, watch, busy, rec, daemons, runner, apis, sfail, cran, lateD, orphans>>
Cancel ==   /\ trigger = "none" /\ runner = "wait" /\ trigger' = "cancel"
            /\ UNCHANGED <<conf, sc, hs, started, ready, rt, watch, busy, rec, daemons, runner, apis, sfail, cran, lateD, orphans>>
\* the first root task has finished (the stop-flag checker, a failed task, the failed startup) or run_tasks() itself is cancelled:
\* every other root task is cancelled
RunnerStops ==
  /\ runner = "wait" /\ (trigger # "none" \/ ScEnded \/ \E t \in Roots : Ended(t))
  /\ runner' = "stopping"
  /\ rt' = [t \in Roots |-> IF rt[t] = "run" THEN "cancelling" ELSE IF rt[t] = "gated" THEN "done" ELSE rt[t]]
  /\ UNCHANGED <<conf, sc, hs, started, ready, watch, busy, rec, daemons, trigger, apis, sfail, cran, lateD, orphans>>
Outcome == IF trigger = "cancel" THEN "cancelled"
           ELSE IF sc = "failed" \/ \E t \in Roots : rt[t] = "failed" THEN "raised" ELSE "returned"
RunnerReturns ==
  /\ runner = "stopping" /\ ScEnded /\ \A t \in Roots : Ended(t)
  /\ runner' = Outcome
  /\ UNCHANGED <<conf, sc, hs, started, ready, rt, watch, busy, rec, daemons, trigger, apis, sfail, cran, lateD, orphans>>

Progress == \/ \E h \in DOMAIN hs : \E out \in {"ok", "temp", "perm"} : StartupStep(h, out) \/ CleanupStep(h, out)
            \/ StartupEnds \/ CleanupEnds \/ ScWaitsRoots \/ ScBeginsCleanup \/ ScCancelledInStartup
            \/ GatesOpen \/ \E t \in Roots : Unwinds(t)
            \/ RunnerStops \/ RunnerReturns
KidsEnd == LateDaemonExits \/ OrphanExits \/ (WatchCloses /\ rt["orch"] = "cancelling") \/ Withdraws \/ (DaemonExits /\ rt["killer"] = "cancelling") \/ HandlerEnds
OpNext == Progress \/ KidsEnd
Fair == /\ WF_vars(WatchCloses /\ rt["orch"] = "cancelling") /\ WF_vars(Withdraws) /\ WF_vars(HandlerEnds)
        /\ WF_vars(DaemonExits /\ rt["killer"] = "cancelling") /\ WF_vars(LateDaemonExits)
Optional == \/ \E t \in Roots : Api(t) \/ Fails(t)
            \/ WatchOpens \/ Announce \/ DaemonStarts \/ HandlerStarts \/ (DaemonExits /\ rt["killer"] = "run")
            \/ (WatchCloses /\ rt["orch"] = "run")
            \/ StopFlag \/ Cancel \/ DaemonStartsLate \/ (Orphaned /\ rt["orch"] \in {"run", "cancelling"})
Next == OpNext \/ Optional
Spec == Init0([startup |-> <<>>, cleanup |-> <<>>, peering |-> TRUE]) /\ [][Next]_vars /\ WF_vars(Progress) /\ Fair

-----------------------------------------------------------------------------
NoApiBeforeStartup == apis > 0 => started
ReadyAfterStartup  == ready => started
FailedStartupNoApi == sfail => (apis = 0 /\ ~ready /\ ~cran)
CleanupLast == (sc = "cleanup" \/ cran) => ((daemons = orphans \/ lateD) /\ watch = 0 /\ busy = 0 /\ ~rec /\ \A t \in Roots : Ended(t))
Family_F29 == lateD /\ daemons > 0 /\ (sc = "cleanup" \/ cran \/ runner \in {"returned", "raised", "cancelled"})
NoLateDaemon == ~lateD
Family_F5 == orphans > 0 /\ (sc = "cleanup" \/ cran \/ runner \in {"returned", "raised", "cancelled"})
NoOrphan == orphans = 0
Finished == runner \in {"returned", "raised", "cancelled"}
NothingLingers == Finished => ((daemons = orphans \/ lateD) /\ watch = 0 /\ busy = 0 /\ ~rec /\ ScEnded /\ \A t \in Roots : Ended(t))
ReRaises == (runner = "returned") => (sc = "ok" \/ sc = "cancelled") /\ \A t \in Roots : rt[t] # "failed"
\* fail-fast: once any essential task has failed or a stop was asked for, the run call returns
FailFast == ((trigger # "none") \/ sfail \/ \E t \in Roots : rt[t] = "failed") ~> Finished
=============================================================================
