SPECIFICATION SafeSpec
CONSTANTS
  H = {"a", "b"}
  ConfSet <- Confs_ab
  Delays = {1}
  EssVals = {1, 2}
  Foreign = {}
  Horizon = 5
  Doors <- AllDoors
  MaxEdits = 0
  MaxFails = 1
  MaxKills = 1
  MaxStops = 0
  MaxDeletes = 0
  MaxForeign = 0
  MaxToggles = 0
  MaxRelists = 0
  MaxHolds = 0
INVARIANT AtMostOnce
CHECK_DEADLOCK FALSE
