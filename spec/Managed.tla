------------------------------ MODULE Managed ------------------------------
(***************************************************************************)
(* How the managed webhook configurations follow their two sources         *)
(* (running.py: the tasks "admission webhook server", "admission insights  *)
(* chain", the validating and the mutating "configuration manager";        *)
(* aiovalues.Container, aiobindings.condition_chain, the observers'        *)
(* `async with insights.revised: ... notify_all()`), with asyncio's Lock   *)
(* and Condition as they behave (FIFO hand-over, wait = release + queue +  *)
(* re-acquire):                                                            *)
(*   server    container.set(cc): under `changed`, notify_all              *)
(*   observer  revises the resources: under `revised`, notify_all          *)
(*   chain     async with revised: forever { wait(revised);                *)
(*                       async with changed: notify_all(changed) }         *)
(*   manager m async with changed: forever { if a value is there:          *)
(*                 build from (value, resources NOW) and PATCH;            *)
(*                 wait(changed) }                                         *)
(* Property: at rest every manager's last PATCH was built from the latest  *)
(* client config and the latest resources (no update is lost), and the     *)
(* system never deadlocks.  Variant "unlocked" is a chain that lets go of  *)
(* `revised` between the wake-up and the notification: a revision made in  *)
(* that gap is lost (the witness configuration must fail).                 *)
(* Bound to the code through its consequence: the configuration objects    *)
(* that the real operator leaves in the cluster at rest (vf/webhooks.py,   *)
(* managed_case) are built from the latest client config and the kinds     *)
(* that are there.                                                         *)
(***************************************************************************)
EXTENDS Naturals, Sequences, FiniteSets, TLC
CONSTANTS MaxCC, MaxRes, Variant
Mgrs == {"V", "M"}
Tasks == {"server", "observer", "chain"} \cup Mgrs
NoTask == "none"
VARIABLES cc, res,            \* the versions of the client config (0: none yet) and of the resources
          holder, lockQ,      \* per lock ("rev", "chg"): who holds it, who queues for it (FIFO)
          condQ,              \* per condition: who waits for a notification (FIFO)
          pc, cfg             \* per task: where it is; per manager: what its last PATCH was built from
vars == <<cc, res, holder, lockQ, condQ, pc, cfg>>
Locks == {"rev", "chg"}

\* The chain is created before the observers and reaches its first wait() in its very first step (a free lock is acquired without
\* yielding), so it is already waiting when anything else moves.  Variant "latechain" drops that: the chain starts like any other
\* task -- a revision made before it waits is lost (the second witness: the design leans on the order in which the tasks are made).
Init == /\ cc = 0 /\ res = 0
        /\ holder = [k \in Locks |-> NoTask] /\ lockQ = [k \in Locks |-> <<>>]
        /\ condQ = [k \in Locks |-> IF k = "rev" /\ Variant # "latechain" THEN <<"chain">> ELSE <<>>]
        /\ pc = [t \in Tasks |-> IF t = "chain" /\ Variant # "latechain" THEN "woken" ELSE "start"] /\ cfg = [m \in Mgrs |-> <<0, 0>>]

\* ---- asyncio.Lock / asyncio.Condition
Acquire(t, k, then, queued) ==      \* `async with k:` -- at once if free and nobody queues, else behind the others
  IF holder[k] = NoTask /\ lockQ[k] = <<>>
  THEN holder' = [holder EXCEPT ![k] = t] /\ pc' = [pc EXCEPT ![t] = then] /\ UNCHANGED lockQ
  ELSE lockQ' = [lockQ EXCEPT ![k] = Append(@, t)] /\ pc' = [pc EXCEPT ![t] = queued] /\ UNCHANGED holder
Granted(t, k) == holder[k] = t
ReleaseTo(k) ==                     \* release(): the first one queueing gets the lock
  IF lockQ[k] = <<>> THEN holder' = [holder EXCEPT ![k] = NoTask] /\ UNCHANGED lockQ
  ELSE holder' = [holder EXCEPT ![k] = Head(lockQ[k])] /\ lockQ' = [lockQ EXCEPT ![k] = Tail(@)]
\* wait(): release the lock, queue for the notification; notify_all(): the waiters queue for the lock, in their order
WaitOn(t, k, then) == /\ ReleaseTo(k) /\ condQ' = [condQ EXCEPT ![k] = Append(@, t)] /\ pc' = [pc EXCEPT ![t] = then]
NotifyAll(k) == /\ lockQ' = [lockQ EXCEPT ![k] = @ \o condQ[k]] /\ condQ' = [condQ EXCEPT ![k] = <<>>]

\* ---- the tasks
Server ==
  \/ /\ pc["server"] = "start" /\ cc < MaxCC /\ Acquire("server", "chg", "set", "q") /\ UNCHANGED <<cc, res, condQ, cfg>>
  \/ /\ pc["server"] = "q" /\ Granted("server", "chg") /\ pc' = [pc EXCEPT !["server"] = "set"] /\ UNCHANGED <<cc, res, holder, lockQ, condQ, cfg>>
  \/ /\ pc["server"] = "set" /\ cc' = cc + 1 /\ NotifyAll("chg") /\ pc' = [pc EXCEPT !["server"] = "rel"] /\ UNCHANGED <<res, holder, cfg>>
  \/ /\ pc["server"] = "rel" /\ ReleaseTo("chg") /\ pc' = [pc EXCEPT !["server"] = "start"] /\ UNCHANGED <<cc, res, condQ, cfg>>
Observer ==
  \/ /\ pc["observer"] = "start" /\ res < MaxRes /\ Acquire("observer", "rev", "set", "q") /\ UNCHANGED <<cc, res, condQ, cfg>>
  \/ /\ pc["observer"] = "q" /\ Granted("observer", "rev") /\ pc' = [pc EXCEPT !["observer"] = "set"] /\ UNCHANGED <<cc, res, holder, lockQ, condQ, cfg>>
  \/ /\ pc["observer"] = "set" /\ res' = res + 1 /\ NotifyAll("rev") /\ pc' = [pc EXCEPT !["observer"] = "rel"] /\ UNCHANGED <<cc, holder, cfg>>
  \/ /\ pc["observer"] = "rel" /\ ReleaseTo("rev") /\ pc' = [pc EXCEPT !["observer"] = "start"] /\ UNCHANGED <<cc, res, condQ, cfg>>
Chain ==
  LET t == "chain" IN
  \/ /\ pc[t] = "start" /\ Acquire(t, "rev", "wait", "q0") /\ UNCHANGED <<cc, res, condQ, cfg>>
  \/ /\ pc[t] = "q0" /\ Granted(t, "rev") /\ pc' = [pc EXCEPT ![t] = "wait"] /\ UNCHANGED <<cc, res, holder, lockQ, condQ, cfg>>
  \/ /\ pc[t] = "wait" /\ WaitOn(t, "rev", "woken") /\ UNCHANGED <<cc, res, cfg>>
  \/ /\ pc[t] = "woken" /\ Granted(t, "rev")           \* notified and the lock re-acquired
     /\ IF Variant = "unlocked" THEN ReleaseTo("rev") /\ pc' = [pc EXCEPT ![t] = "tgt"] ELSE pc' = [pc EXCEPT ![t] = "tgt"] /\ UNCHANGED <<holder, lockQ>>
     /\ UNCHANGED <<cc, res, condQ, cfg>>
  \/ /\ pc[t] = "tgt" /\ Acquire(t, "chg", "notify", "q1") /\ UNCHANGED <<cc, res, condQ, cfg>>
  \/ /\ pc[t] = "q1" /\ Granted(t, "chg") /\ pc' = [pc EXCEPT ![t] = "notify"] /\ UNCHANGED <<cc, res, holder, lockQ, condQ, cfg>>
  \/ /\ pc[t] = "notify" /\ NotifyAll("chg") /\ pc' = [pc EXCEPT ![t] = "rel"] /\ UNCHANGED <<cc, res, holder, cfg>>
  \/ /\ pc[t] = "rel" /\ ReleaseTo("chg") /\ pc' = [pc EXCEPT ![t] = IF Variant = "unlocked" THEN "start" ELSE "wait"] /\ UNCHANGED <<cc, res, condQ, cfg>>
Manager(m) ==
  \/ /\ pc[m] = "start" /\ Acquire(m, "chg", "look", "q") /\ UNCHANGED <<cc, res, condQ, cfg>>
  \/ /\ pc[m] = "q" /\ Granted(m, "chg") /\ pc' = [pc EXCEPT ![m] = "look"] /\ UNCHANGED <<cc, res, holder, lockQ, condQ, cfg>>
  \* a value is there: build from it and from the resources as they are now, PATCH (the lock is held all the while); none: just wait
  \/ /\ pc[m] = "look" /\ cfg' = IF cc # 0 THEN [cfg EXCEPT ![m] = <<cc, res>>] ELSE cfg
     /\ pc' = [pc EXCEPT ![m] = "patched"] /\ UNCHANGED <<cc, res, holder, lockQ, condQ>>
  \/ /\ pc[m] = "patched" /\ WaitOn(m, "chg", "woken") /\ UNCHANGED <<cc, res, cfg>>
  \/ /\ pc[m] = "woken" /\ Granted(m, "chg") /\ pc' = [pc EXCEPT ![m] = "look"] /\ UNCHANGED <<cc, res, holder, lockQ, condQ, cfg>>
Next == Server \/ Observer \/ Chain \/ \E m \in Mgrs : Manager(m)
Spec == Init /\ [][Next]_vars /\ WF_vars(Next)

\* ---- properties
InQ(t, q) == \E i \in DOMAIN q : q[i] = t
LockDiscipline == \A k \in Locks : \A i, j \in DOMAIN lockQ[k] : i # j => lockQ[k][i] # lockQ[k][j]
AtRest == ~ENABLED Next
\* at rest every manager's last PATCH was built from the latest client config and the latest resources
AtRestLatest == AtRest => (cc = 0 \/ \A m \in Mgrs : cfg[m] = <<cc, res>>)
\* at rest everybody sleeps where he is meant to: the sources are exhausted, the chain and the managers wait for a notification
NoDeadlock == AtRest => /\ pc["server"] = "start" /\ pc["observer"] = "start" /\ cc = MaxCC /\ res = MaxRes
                        /\ InQ("chain", condQ["rev"]) /\ \A m \in Mgrs : InQ(m, condQ["chg"])
                        /\ \A k \in Locks : holder[k] = NoTask
\* a PATCH is never built from something older than the previous one of the same manager
Monotone == [][\A m \in Mgrs : cfg'[m][1] >= cfg[m][1] /\ cfg'[m][2] >= cfg[m][2]]_vars
Eventually == <>[](cc = MaxCC /\ res = MaxRes /\ \A m \in Mgrs : cfg[m] = <<cc, res>>)
=============================================================================
