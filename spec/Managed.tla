------------------------------ MODULE Managed ------------------------------
(***************************************************************************)
(* How the managed webhook configurations follow their two sources         *)
(* (running.py: the tasks "admission webhook server", "admission insights  *)
(* chain", the validating and the mutating "configuration manager", the    *)
(* orchestrator; aiovalues.Container, aiobindings.condition_chain, the     *)
(* observers' `async with insights.revised: ... notify_all()`), with       *)
(* asyncio's Lock and Condition as they behave (a free lock is taken at    *)
(* once, else FIFO hand-over; wait = release + queue for the notification; *)
(* a notified task runs again and takes or queues for the lock like        *)
(* anybody else):                                                          *)
(*   server    container.set(cc): under `changed`, notify_all              *)
(*   observer  (several: the observers' own tasks and their workers)       *)
(*             revises the insights: under `revised`, notify_all           *)
(*   chain     async with revised: forever { wait(revised);                *)
(*                       async with changed: notify_all(changed) }         *)
(*   orch      async with revised: forever { wait(revised); adjust }       *)
(*   manager m async with changed: forever { if a value is there:          *)
(*                 build from (value, resources NOW) and PATCH;            *)
(*                 wait(changed) }                                         *)
(* Property: at rest every manager's last PATCH was built from the latest  *)
(* client config and the latest resources (no update is lost), and the     *)
(* system never deadlocks.  Variant "unlocked" is a chain that lets go of  *)
(* `revised` between the wake-up and the notification: a revision made in  *)
(* that gap is lost (the witness configuration must fail).                 *)
(* Bound to the code twice: by trace validation (Trace_Managed: the two    *)
(* conditions of a real operator replaced by recording ones, every lock /  *)
(* condition event and every build of a configuration is one step here),   *)
(* and through its consequence -- the configuration objects the operator   *)
(* leaves in the cluster at rest (vf/webhooks.py).                         *)
(***************************************************************************)
EXTENDS Naturals, Sequences, FiniteSets, TLC
CONSTANTS MaxCC, MaxRev, ResVals, Obs, Variant
Mgrs == {"V", "M"}
Tasks == {"server", "chain", "orch"} \cup Mgrs \cup Obs
NoTask == "none"
VARIABLES cc, res, nrev,      \* the client config (0: none yet), the resources, how many revisions were made
          holder, lockQ,      \* per lock ("rev", "chg"): who holds it, who queues for it (FIFO)
          condQ,              \* per condition: who waits for a notification
          pc, cfg             \* per task: where it is; per manager: what its last PATCH was built from
vars == <<cc, res, nrev, holder, lockQ, condQ, pc, cfg>>
Locks == {"rev", "chg"}

\* The chain and the orchestrator are created before the observers and reach their first wait() in their very first step (a free
\* lock is acquired without yielding), so they are already waiting when anything else moves.  Variant "latechain" drops that for the
\* chain: it starts like any other task -- a revision made before it waits is lost (the second witness: the design leans on the order
\* in which the tasks are made).  Variant "trace" starts everybody at the beginning: the recorded execution shows who waits first.
Early == IF Variant = "trace" THEN {} ELSE IF Variant = "latechain" THEN {"orch"} ELSE {"chain", "orch"}
Init == /\ cc = 0 /\ res = 0 /\ nrev = 0
        /\ holder = [k \in Locks |-> NoTask] /\ lockQ = [k \in Locks |-> <<>>]
        /\ condQ = [k \in Locks |-> IF k = "rev" THEN Early ELSE {}]
        /\ pc = [t \in Tasks |-> IF t \in Early THEN "waiting" ELSE "start"] /\ cfg = [m \in Mgrs |-> <<0, 0>>]

\* ---- asyncio.Lock / asyncio.Condition
Free(k) == holder[k] = NoTask /\ lockQ[k] = <<>>
Take(t, k, then) == Free(k) /\ holder' = [holder EXCEPT ![k] = t] /\ pc' = [pc EXCEPT ![t] = then] /\ UNCHANGED lockQ
Queue(t, k, queued) == ~Free(k) /\ lockQ' = [lockQ EXCEPT ![k] = Append(@, t)] /\ pc' = [pc EXCEPT ![t] = queued] /\ UNCHANGED holder
Acquire(t, k, then, queued) == Take(t, k, then) \/ Queue(t, k, queued)
Granted(t, k) == holder[k] = t
ReleaseTo(k) ==                     \* release(): the first one queueing gets the lock
  IF lockQ[k] = <<>> THEN holder' = [holder EXCEPT ![k] = NoTask] /\ UNCHANGED lockQ
  ELSE holder' = [holder EXCEPT ![k] = Head(lockQ[k])] /\ lockQ' = [lockQ EXCEPT ![k] = Tail(@)]
\* wait(): release the lock, wait for the notification; notify_all(): the waiters run again (and take or queue for the lock themselves)
WaitOn(t, k) == /\ ReleaseTo(k) /\ condQ' = [condQ EXCEPT ![k] = @ \cup {t}] /\ pc' = [pc EXCEPT ![t] = "waiting"]
NotifyAll(t, k, then) == /\ condQ' = [condQ EXCEPT ![k] = {}]
                         /\ pc' = [x \in Tasks |-> IF x \in condQ[k] THEN "notified" ELSE IF x = t THEN then ELSE pc[x]]
Only(t) == \A x \in Tasks \ {t} : pc'[x] = pc[x]

\* ---- the tasks (every disjunct is one step; the names are those of the trace events)
LockNow(t, k, from, then) == pc[t] = from /\ Take(t, k, then) /\ UNCHANGED <<cc, res, nrev, condQ, cfg>>
LockQueue(t, k, from, queued) == pc[t] = from /\ Queue(t, k, queued) /\ UNCHANGED <<cc, res, nrev, condQ, cfg>>
LockGot(t, k, queued, then) == pc[t] = queued /\ Granted(t, k) /\ pc' = [pc EXCEPT ![t] = then] /\ UNCHANGED <<cc, res, nrev, holder, lockQ, condQ, cfg>>
LockRel(t, k, from, then) == pc[t] = from /\ Granted(t, k) /\ ReleaseTo(k) /\ pc' = [pc EXCEPT ![t] = then] /\ UNCHANGED <<cc, res, nrev, condQ, cfg>>
CondWait(t, k, from) == pc[t] = from /\ Granted(t, k) /\ WaitOn(t, k) /\ UNCHANGED <<cc, res, nrev, cfg>>
CondWake(t) == pc[t] = "notified" /\ pc' = [pc EXCEPT ![t] = "reacq"] /\ UNCHANGED <<cc, res, nrev, holder, lockQ, condQ, cfg>>

Server == LET t == "server" IN
  \/ cc < MaxCC /\ (LockNow(t, "chg", "start", "set") \/ LockQueue(t, "chg", "start", "q"))
  \/ LockGot(t, "chg", "q", "set")
  \/ pc[t] = "set" /\ cc' = cc + 1 /\ NotifyAll(t, "chg", "rel") /\ UNCHANGED <<res, nrev, holder, lockQ, cfg>>
  \/ LockRel(t, "chg", "rel", "start")
Observer(t) ==
  \/ nrev < MaxRev /\ (LockNow(t, "rev", "start", "set") \/ LockQueue(t, "rev", "start", "q"))
  \/ LockGot(t, "rev", "q", "set")
  \* the insights are revised under the lock (the resources may change or not: a revision of the namespaces leaves them), then notified;
  \* the managers do not take this lock: they may read the new resources before the notification is out
  \/ pc[t] = "set" /\ res' \in ResVals /\ nrev' = nrev + 1 /\ pc' = [pc EXCEPT ![t] = "set2"] /\ UNCHANGED <<cc, holder, lockQ, condQ, cfg>>
  \/ pc[t] \in {"set", "set2"} /\ nrev' = (IF pc[t] = "set" THEN nrev + 1 ELSE nrev) /\ NotifyAll(t, "rev", "rel") /\ UNCHANGED <<cc, res, holder, lockQ, cfg>>
  \/ LockRel(t, "rev", "rel", "start")
Chain == LET t == "chain" IN
  \/ LockNow(t, "rev", "start", "held") \/ LockQueue(t, "rev", "start", "q0") \/ LockGot(t, "rev", "q0", "held")
  \/ CondWait(t, "rev", "held")
  \/ CondWake(t)
  \/ LockNow(t, "rev", "reacq", "woken") \/ LockQueue(t, "rev", "reacq", "rq") \/ LockGot(t, "rev", "rq", "woken")
  \/ (Variant = "unlocked" /\ LockRel(t, "rev", "woken", "tgt"))
  \/ LockNow(t, "chg", IF Variant = "unlocked" THEN "tgt" ELSE "woken", "notify")
  \/ LockQueue(t, "chg", IF Variant = "unlocked" THEN "tgt" ELSE "woken", "q1") \/ LockGot(t, "chg", "q1", "notify")
  \/ pc[t] = "notify" /\ NotifyAll(t, "chg", "rel") /\ UNCHANGED <<cc, res, nrev, holder, lockQ, cfg>>
  \/ LockRel(t, "chg", "rel", IF Variant = "unlocked" THEN "start" ELSE "held")
Orch == LET t == "orch" IN
  \/ LockNow(t, "rev", "start", "held") \/ LockQueue(t, "rev", "start", "q0") \/ LockGot(t, "rev", "q0", "held")
  \/ CondWait(t, "rev", "held")
  \/ CondWake(t)
  \/ LockNow(t, "rev", "reacq", "held") \/ LockQueue(t, "rev", "reacq", "rq") \/ LockGot(t, "rev", "rq", "held")      \* (adjust_tasks, then wait again)
Manager(m) ==
  \/ LockNow(m, "chg", "start", "look") \/ LockQueue(m, "chg", "start", "q") \/ LockGot(m, "chg", "q", "look")
  \* a value is there: build from it and from the resources as they are now, PATCH (the lock is held all the while); none: just wait
  \/ /\ pc[m] = "look" /\ cfg' = IF cc # 0 THEN [cfg EXCEPT ![m] = <<cc, res>>] ELSE cfg
     /\ pc' = [pc EXCEPT ![m] = "patched"] /\ UNCHANGED <<cc, res, nrev, holder, lockQ, condQ>>
  \/ CondWait(m, "chg", "patched")
  \/ CondWake(m)
  \/ LockNow(m, "chg", "reacq", "look") \/ LockQueue(m, "chg", "reacq", "rq") \/ LockGot(m, "chg", "rq", "look")
Next == Server \/ Chain \/ Orch \/ (\E o \in Obs : Observer(o)) \/ (\E m \in Mgrs : Manager(m))
Spec == Init /\ [][Next]_vars /\ WF_vars(Next)

\* ---- properties
InQ(t, q) == \E i \in DOMAIN q : q[i] = t
LockDiscipline == /\ \A k \in Locks : \A i, j \in DOMAIN lockQ[k] : i # j => lockQ[k][i] # lockQ[k][j]
                  /\ \A k \in Locks : \A t \in Tasks : ~(holder[k] = t /\ InQ(t, lockQ[k]))
AtRest == ~ENABLED Next
\* at rest every manager's last PATCH was built from the latest client config and the latest resources
AtRestLatest == AtRest => (cc = 0 \/ \A m \in Mgrs : cfg[m] = <<cc, res>>)
\* at rest everybody sleeps where he is meant to: the sources are exhausted, the chain, the orchestrator and the managers wait
NoDeadlock == AtRest => /\ pc["server"] = "start" /\ (\A o \in Obs : pc[o] = "start") /\ cc = MaxCC /\ nrev >= MaxRev
                        /\ {"chain", "orch"} \subseteq condQ["rev"] /\ Mgrs \subseteq condQ["chg"]
                        /\ \A k \in Locks : holder[k] = NoTask
\* a PATCH is never built from a client config older than the previous one of the same manager
Monotone == [][\A m \in Mgrs : cfg'[m][1] >= cfg[m][1]]_vars
Eventually == <>[](cc = MaxCC /\ nrev >= MaxRev /\ \A m \in Mgrs : cfg[m] = <<cc, res>>)
=============================================================================
