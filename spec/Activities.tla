----------------------------- MODULE Activities -----------------------------
(***************************************************************************)
(* C11 for whole activities (kopf/_core/engines/activities.py:             *)
(* run_activity -- startup, cleanup, login, probe handlers): the           *)
(* reference of one invocation (Execution.tla) iterated over the rounds.   *)
(* A record: [handlers: sequence of [conf, script (what the function does  *)
(* at its 1st, 2nd, ... attempt), times (the attempt instants observed),   *)
(* failed, result], raised (the activity failed)].                         *)
(***************************************************************************)
EXTENDS Execution
\* ---- a whole activity (activities.run_activity): every handler is attempted, per the rules above, at the instants its own
\* delays give, until each has ended; the activity fails iff some handler has ended as failed -- in whichever round
RECURSIVE RunH(_, _, _, _)
RunH(c, sc, s, t) ==          \* sc: what the function does at its 1st, 2nd, ... attempt
  IF sc = <<>> THEN [times |-> <<>>, verdict |-> "open", last |-> ""]
  ELSE LET e == Expected(c, s, Head(sc)) IN
       IF ~e.invoked THEN [times |-> <<>>, verdict |-> "failed", last |-> ""]
       ELSE IF e.final THEN [times |-> <<t>>, verdict |-> IF e.failed THEN "failed" ELSE "ok", last |-> Head(sc).kind]
       ELSE LET d == IF e.delay = Unset THEN 0 ELSE e.delay
                rest == RunH(c, Tail(sc), [runtime |-> s.runtime + d, retries |-> s.retries + 1], t + d)
            IN [times |-> <<t>> \o rest.times, verdict |-> rest.verdict, last |-> rest.last]
ClassifyActivity(rec) ==
  LET ref == [i \in DOMAIN rec.handlers |-> RunH(rec.handlers[i].conf, rec.handlers[i].script, [runtime |-> 0, retries |-> 0], 0)]
      anyFailed == \E i \in DOMAIN ref : ref[i].verdict = "failed"
  IN IF \E i \in DOMAIN ref : ref[i].verdict = "open" THEN "script_too_short"
     ELSE IF \E i \in DOMAIN ref : rec.handlers[i].times # ref[i].times THEN "attempts_of_an_activity_handler_differ_from_the_policy"
     ELSE IF rec.raised # anyFailed THEN (IF anyFailed THEN "a_handler_failed_for_good_but_the_activity_succeeded" ELSE "activity_failed_though_no_handler_did")
     ELSE IF \E i \in DOMAIN ref : rec.handlers[i].failed # (ref[i].verdict = "failed") THEN "wrong_final_verdict_of_an_activity_handler"
     ELSE IF ~rec.raised /\ \E i \in DOMAIN ref : ref[i].last = "ok" /\ ~rec.handlers[i].result THEN "result_of_a_succeeded_handler_lost"
     ELSE "ok"
ClassifyC11x(rec) == IF rec.kind = "actrun" THEN ClassifyActivity(rec) ELSE ClassifyC11(rec)
=============================================================================
