SPECIFICATION SafeSpec
CONSTANTS
  H = {"a", "b"}
  ConfSet <- Confs_ab
  Delays = {1}
  EssVals = {1, 2, 3}
  Foreign = {}
  Horizon = 6
  Doors <- AllDoors
  MaxEdits = 1
  MaxFails = 1
  MaxKills = 1
  MaxStops = 0
  MaxDeletes = 0
  MaxForeign = 0
  MaxToggles = 0
  MaxRelists = 0
  MaxHolds = 0
INVARIANT InvokeGoverned
INVARIANT InvokeCauseOk
INVARIANT CloseExactlyWhenDone
INVARIANT NeverEarly
INVARIANT ForeignUntouched
INVARIANT AtMostOnce
CHECK_DEADLOCK FALSE
