SPECIFICATION MCSpec
CONSTANT NoConf = NoConf
CONSTANT MaxKids = 2
CONSTRAINT BoundedQ
INVARIANT NoLateDaemon
CHECK_DEADLOCK FALSE
