---------------------------- MODULE MC_Webhooks ----------------------------
(* The design of the announcement, checked for EVERY declaration x cluster x review of a small alphabet (no records involved):
   the entry that Webhooks.tla expects for a handler sends a review to its webhook exactly when the handler's declared criteria hold for
   that review -- as an API server reads the announced rules (Law), and, subresource "*" aside (the noted deviation W1), as the docs and
   the serving side read them (LawAsDocumented; NoW1 is the witness that must FAIL: the main body of a kind is not sent to a "*" handler). *)
EXTENDS Webhooks, SequencesExt
VARIABLES h, res, rv
vars == <<h, res, rv>>
R1 == [group |-> "g.io", version |-> "v1", plural |-> "things", kind |-> "Thing", singular |-> "thing", shortcuts |-> <<"th">>, categories |-> <<"catx">>, preferred |-> TRUE]
R2 == [group |-> "g.io", version |-> "v2", plural |-> "things", kind |-> "Thing", singular |-> "thing", shortcuts |-> <<"th">>, categories |-> <<"catx">>, preferred |-> FALSE]
R3 == [group |-> "o.io", version |-> "v1", plural |-> "things", kind |-> "Thing", singular |-> "thing", shortcuts |-> <<>>, categories |-> <<>>, preferred |-> TRUE]
R4 == [group |-> "g.io", version |-> "v1", plural |-> "widgets", kind |-> "Widget", singular |-> "widget", shortcuts |-> <<>>, categories |-> <<"catx">>, preferred |-> TRUE]
Clusters == {<<R1>>, <<R1, R2>>, <<R1, R2, R3, R4>>, <<R3, R4>>, <<>>}
Sels == {[group |-> "g.io", version |-> "v1", nt |-> "plural", name |-> "things"], [group |-> "g.io", version |-> "any", nt |-> "plural", name |-> "things"],
         [group |-> "any", version |-> "any", nt |-> "plural", name |-> "things"], [group |-> "g.io", version |-> "v2", nt |-> "any", name |-> "th"],
         [group |-> "any", version |-> "any", nt |-> "category", name |-> "catx"], [group |-> "any", version |-> "any", nt |-> "everything", name |-> ""]}
LabelSets == {<<>>, <<[key |-> "a", kind |-> "eq", value |-> "x"]>>, <<[key |-> "a", kind |-> "present", value |-> ""]>>, <<[key |-> "a", kind |-> "absent", value |-> ""]>>,
              <<[key |-> "a", kind |-> "callable", value |-> ""]>>, <<[key |-> "a", kind |-> "eq", value |-> "x"], [key |-> "b", kind |-> "absent", value |-> ""]>>}
Decls == [sel : Sels, ops : {<<>>, <<"CREATE">>, <<"UPDATE", "DELETE">>}, sub : {"", "status", "*"}, labels : LabelSets]
Objs == {[c |-> 0], [a |-> "x"], [a |-> "y"], [b |-> "x"], [a |-> "x", b |-> "x"]}      \* ([c |-> 0]: neither a nor b)
Reviews == [group : {"g.io", "o.io", "n.io"}, version : {"v1", "v2"}, plural : {"things", "widgets"}, op : {"CREATE", "UPDATE", "DELETE", "CONNECT"},
            sub : {"", "status", "scale"}, labels : Objs]
Entry(d, cluster) == [rules |-> SetToSeq(ExpectedRules(d, cluster)),
                      selector |-> [none |-> ExpectedExprs(d) = {}, exprs |-> SetToSeq(ExpectedExprs(d))]]
Init == h \in Decls /\ res \in Clusters /\ rv \in Reviews
Next == UNCHANGED vars
Spec == Init /\ [][Next]_vars
Law == Dispatch(Entry(h, res), rv) <=> Declared(h, res, rv, SubHoldsAsAnnounced)
LawAsDocumented == h.sub # "*" => (Dispatch(Entry(h, res), rv) <=> Declared(h, res, rv, SubHolds))
NeverTooMuch == Dispatch(Entry(h, res), rv) => Declared(h, res, rv, SubHolds)
NoW1 == ~(~Dispatch(Entry(h, res), rv) /\ Declared(h, res, rv, SubHolds))
=============================================================================
