---- MODULE MC_Lifecycle_TTrace_1790244116 ----
EXTENDS Sequences, TLCExt, MC_Lifecycle, Toolbox, Naturals, TLC

_expression ==
    LET MC_Lifecycle_TEExpression == INSTANCE MC_Lifecycle_TEExpression
    IN MC_Lifecycle_TEExpression!expression
----

_trace ==
    LET MC_Lifecycle_TETrace == INSTANCE MC_Lifecycle_TETrace
    IN MC_Lifecycle_TETrace!trace
----

_inv ==
    ~(
        TLCGet("level") = Len(_TETrace)
        /\
        lateD = ()
        /\
        rt = ([killer |-> "gated", resobs |-> "gated", nsobs |-> "gated", orch |-> "gated", poster |-> "gated"])
        /\
        conf = ([startup |-> <<>>, cleanup |-> <<>>, peering |-> FALSE])
        /\
        started = (TRUE)
        /\
        trigger = ("none")
        /\
        hs = (<<>>)
        /\
        sc = ("sleep")
        /\
        rec = (FALSE)
        /\
        cran = (FALSE)
        /\
        apis = (0)
        /\
        sfail = (FALSE)
        /\
        watch = (0)
        /\
        ready = (TRUE)
        /\
        busy = (0)
        /\
        daemons = (0)
        /\
        runner = ("wait")
    )
----

_init ==
    /\ ready = _TETrace[1].ready
    /\ conf = _TETrace[1].conf
    /\ runner = _TETrace[1].runner
    /\ trigger = _TETrace[1].trigger
    /\ rec = _TETrace[1].rec
    /\ sfail = _TETrace[1].sfail
    /\ rt = _TETrace[1].rt
    /\ sc = _TETrace[1].sc
    /\ hs = _TETrace[1].hs
    /\ cran = _TETrace[1].cran
    /\ apis = _TETrace[1].apis
    /\ daemons = _TETrace[1].daemons
    /\ lateD = _TETrace[1].lateD
    /\ started = _TETrace[1].started
    /\ watch = _TETrace[1].watch
    /\ busy = _TETrace[1].busy
----

_next ==
    /\ \E i,j \in DOMAIN _TETrace:
        /\ \/ /\ j = i + 1
              /\ i = TLCGet("level")
        /\ ready  = _TETrace[i].ready
        /\ ready' = _TETrace[j].ready
        /\ conf  = _TETrace[i].conf
        /\ conf' = _TETrace[j].conf
        /\ runner  = _TETrace[i].runner
        /\ runner' = _TETrace[j].runner
        /\ trigger  = _TETrace[i].trigger
        /\ trigger' = _TETrace[j].trigger
        /\ rec  = _TETrace[i].rec
        /\ rec' = _TETrace[j].rec
        /\ sfail  = _TETrace[i].sfail
        /\ sfail' = _TETrace[j].sfail
        /\ rt  = _TETrace[i].rt
        /\ rt' = _TETrace[j].rt
        /\ sc  = _TETrace[i].sc
        /\ sc' = _TETrace[j].sc
        /\ hs  = _TETrace[i].hs
        /\ hs' = _TETrace[j].hs
        /\ cran  = _TETrace[i].cran
        /\ cran' = _TETrace[j].cran
        /\ apis  = _TETrace[i].apis
        /\ apis' = _TETrace[j].apis
        /\ daemons  = _TETrace[i].daemons
        /\ daemons' = _TETrace[j].daemons
        /\ lateD  = _TETrace[i].lateD
        /\ lateD' = _TETrace[j].lateD
        /\ started  = _TETrace[i].started
        /\ started' = _TETrace[j].started
        /\ watch  = _TETrace[i].watch
        /\ watch' = _TETrace[j].watch
        /\ busy  = _TETrace[i].busy
        /\ busy' = _TETrace[j].busy

\* Uncomment the ASSUME below to write the states of the error trace
\* to the given file in Json format. Note that you can pass any tuple
\* to `JsonSerialize`. For example, a sub-sequence of _TETrace.
    \* ASSUME
    \*     LET J == INSTANCE Json
    \*         IN J!JsonSerialize("MC_Lifecycle_TTrace_1790244116.json", _TETrace)

=============================================================================

 Note that you can extract this module `MC_Lifecycle_TEExpression`
  to a dedicated file to reuse `expression` (the module in the 
  dedicated `MC_Lifecycle_TEExpression.tla` file takes precedence 
  over the module `MC_Lifecycle_TEExpression` below).

---- MODULE MC_Lifecycle_TEExpression ----
EXTENDS Sequences, TLCExt, MC_Lifecycle, Toolbox, Naturals, TLC

expression == 
    [
        \* To hide variables of the `MC_Lifecycle` spec from the error trace,
        \* remove the variables below.  The trace will be written in the order
        \* of the fields of this record.
        ready |-> ready
        ,conf |-> conf
        ,runner |-> runner
        ,trigger |-> trigger
        ,rec |-> rec
        ,sfail |-> sfail
        ,rt |-> rt
        ,sc |-> sc
        ,hs |-> hs
        ,cran |-> cran
        ,apis |-> apis
        ,daemons |-> daemons
        ,lateD |-> lateD
        ,started |-> started
        ,watch |-> watch
        ,busy |-> busy
        
        \* Put additional constant-, state-, and action-level expressions here:
        \* ,_stateNumber |-> _TEPosition
        \* ,_readyUnchanged |-> ready = ready'
        
        \* Format the `ready` variable as Json value.
        \* ,_readyJson |->
        \*     LET J == INSTANCE Json
        \*     IN J!ToJson(ready)
        
        \* Lastly, you may build expressions over arbitrary sets of states by
        \* leveraging the _TETrace operator.  For example, this is how to
        \* count the number of times a spec variable changed up to the current
        \* state in the trace.
        \* ,_readyModCount |->
        \*     LET F[s \in DOMAIN _TETrace] ==
        \*         IF s = 1 THEN 0
        \*         ELSE IF _TETrace[s].ready # _TETrace[s-1].ready
        \*             THEN 1 + F[s-1] ELSE F[s-1]
        \*     IN F[_TEPosition - 1]
    ]

=============================================================================



Parsing and semantic processing can take forever if the trace below is long.
 In this case, it is advised to uncomment the module below to deserialize the
 trace from a generated binary file.

\*
\*---- MODULE MC_Lifecycle_TETrace ----
\*EXTENDS IOUtils, MC_Lifecycle, TLC
\*
\*trace == IODeserialize("MC_Lifecycle_TTrace_1790244116.bin", TRUE)
\*
\*=============================================================================
\*

---- MODULE MC_Lifecycle_TETrace ----
EXTENDS MC_Lifecycle, TLC

trace == 
    <<
    ([lateD |-> FALSE,rt |-> [killer |-> "gated", resobs |-> "gated", nsobs |-> "gated", orch |-> "gated", poster |-> "gated"],conf |-> [startup |-> <<>>, cleanup |-> <<>>, peering |-> FALSE],started |-> FALSE,trigger |-> "none",hs |-> <<>>,sc |-> "startup",rec |-> FALSE,cran |-> FALSE,apis |-> 0,sfail |-> FALSE,watch |-> 0,ready |-> FALSE,busy |-> 0,daemons |-> 0,runner |-> "wait"]),
    ([lateD |-> ,rt |-> [killer |-> "gated", resobs |-> "gated", nsobs |-> "gated", orch |-> "gated", poster |-> "gated"],conf |-> [startup |-> <<>>, cleanup |-> <<>>, peering |-> FALSE],started |-> TRUE,trigger |-> "none",hs |-> <<>>,sc |-> "sleep",rec |-> FALSE,cran |-> FALSE,apis |-> 0,sfail |-> FALSE,watch |-> 0,ready |-> TRUE,busy |-> 0,daemons |-> 0,runner |-> "wait"])
    >>
----


=============================================================================

---- CONFIG MC_Lifecycle_TTrace_1790244116 ----
CONSTANTS
    NoConf = NoConf
    MaxKids = 2
    NoConf = NoConf

INVARIANT
    _inv

CHECK_DEADLOCK
    \* CHECK_DEADLOCK off because of PROPERTY or INVARIANT above.
    FALSE

INIT
    _init

NEXT
    _next

CONSTANT
    _TETrace <- _trace

ALIAS
    _expression
=============================================================================
\* Generated on Thu Sep 24 10:01:58 UTC 2026