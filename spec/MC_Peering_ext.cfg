SPECIFICATION MCSpec
CONSTANTS
  Ops = {"a", "b"}
  Ext_ = {"x"}
  NoConf = NoConf
  QMax = 2
  TrackVer = FALSE
  PrioC <- P123
  LifeC <- L4
  PeriodC <- Per2
  MaxStarts = 3
  MaxStops = 1
  MaxKills = 1
  MaxExt = 2
  ExtRecs <- SomeExt
INVARIANT RenewsInTime
INVARIANT WithdrawsOnExit
PROPERTY EventuallyStable
PROPERTY CleansDead
CHECK_DEADLOCK FALSE
