------------------------------ MODULE Spawning ------------------------------
(***************************************************************************)
(* Daemons and timers of ONE object in ONE operator process: the closed    *)
(* loop between the API server, the worker's processing cycle and the      *)
(* background tasks it spawns and stops.                                   *)
(*                                                                         *)
(* Transcribed from kopf/_core/reactor/processing.py (process_resource_    *)
(* event, process_resource_causes: the finalizer decisions and the release,*)
(* process_spawning_cause), engines/daemons.py (spawn_daemons,             *)
(* match_daemons, stop_daemons with its stages by the age of the stop      *)
(* flag, _wait_for_instant_exit, _runner's finally, daemon_killer's exit   *)
(* branch, stop_daemon), actions/application.py (apply: patch | sleep |    *)
(* touch), reactor/inventory.py (recall / forget).                         *)
(* The operator of this model has spawning handlers only (no change        *)
(* handlers: their cycle is Handling.tla); serves C09 and the daemon half  *)
(* of C06.                                                                 *)
(*                                                                         *)
(* One action per code section between two suspension points:              *)
(*  environment  Edit, Toggle, Delete, ForceFin, Deliver, Stop, Kill, Down,*)
(*               Pause, Resume (decided by the peering engine),            *)
(*               Tick; the user's daemon functions: DEnter (the task       *)
(*               starts), DSeeFlag, DCancelled (CancelledError arrives),   *)
(*               DExit (returns or raises: _runner's finally runs)         *)
(*  operator     ProcBegin   recall/forget; spawn the missing instances;   *)
(*                           decide which running ones are to be stopped   *)
(*               StopSet(h)  the stop flag is set (its age starts)         *)
(*               Stage(h)    after the instant-exit window: done | wait    *)
(*                           for the backoff | cancel | abandon | poll     *)
(*               StageC(h)   after the instant-exit window of a cancel     *)
(*               ProcFinish  finalizer add / remove / release -> request,  *)
(*                           or sleep for the smallest delay, or nothing   *)
(*               SrvMerge (clears the touch dummy), Reply1, SrvJson,       *)
(*               Post, SleepWake, SleepExpire, SrvTouch                    *)
(*               KillerPass / KillerExit: daemon_killer starts a           *)
(*               stop_daemon() per instance in sight - every second while  *)
(*               the operator is paused, once when it exits;               *)
(*               KCancel(h) / KDrop(h): such a stop_daemon() reaches its   *)
(*               cancellation point (its own clock: since it was started)  *)
(*               Pause / Resume: the streams are closed while paused, a    *)
(*               resume re-lists                                           *)
(***************************************************************************)
EXTENDS Integers, Sequences, FiniteSets, TLC

CONSTANTS
  Hs,        \* the universe of spawning handler ids
  ConfSet,   \* configurations: [dh |-> [h |-> [kind ("daemon" | "timer" | "none"), backoff (0 = None), timeout (0 = None),
             \*                                   sync, react ("obey" | "cancel" | "ignore" | "selfexit" | "any"),
             \*                                   lat (-1: the function reacts when it likes; n: it sees the flag / the cancellation at once and
             \*                                        leaves n seconds after the moment its reaction allows it to)]],
             \*                  polling |-> settings.background.cancellation_polling, filter |-> the handlers have a label filter,
             \*                  prompt |-> the watch stream delivers without delay,
             \*                  exitto |-> settings.queueing.exit_timeout: how long the workers may go on after the watcher has ended]
  Horizon,
  MaxEdits, MaxToggles, MaxDeletes, MaxForce, MaxStops, MaxKills, MaxPauses

VARIABLES
  obj,      \* the server's object: [exists, rv, deleting, match, fin (the framework's finalizer), dummy]
  chan,     \* committed snapshots not yet handed to the operator's stream
  bl,       \* the worker's backlog
  up, stopping,
  mem,      \* ResourceMemory of the object in `memories`: [known, forever (forever_stopped)]
  run,      \* per handler id: the instance registered in running_daemons of the memory it was spawned into
  pc, cyc,  \* the processing cycle
  now, bud, gh,
  conf
vars == <<obj, chan, bl, up, stopping, mem, run, pc, cyc, now, bud, gh, conf>>

DH == conf.dh
Reg == {h \in Hs : DH[h].kind # "none"}
NoRun == [on |-> FALSE,        \* registered (the guarding task has not finished)
          vis |-> FALSE,       \* its memory is still the one the operator knows (not forgotten on DELETED)
          started |-> FALSE,   \* the user's function has been entered
          exited |-> FALSE,    \* ... and has returned or raised: the guarding task is about to finish
          flag |-> FALSE, when |-> 0, seen |-> FALSE,
          t0 |-> 0,            \* since when its reaction lets it leave
          cset |-> FALSE,      \* the stopper carries DAEMON_CANCELLED (stop_daemons cancels only once)
          creq |-> FALSE,      \* task.cancel() was called and the CancelledError has not reached the function yet
          cdel |-> FALSE,      \* a CancelledError has reached the function
          aband |-> FALSE,
          sd |-> {}]           \* start instants of the stop_daemon() coroutines of the daemon killer that are still before their cancellation point
FreshMem == [known |-> FALSE, forever |-> {}]
NoCyc == [s |-> [type |-> "none"], m |-> FreshMem, todo |-> {}, cur |-> "none", ph |-> "none", age |-> 0, delays |-> {}, fns |-> {},
          fresh |-> 0, ffin |-> FALSE, rv |-> 0, wake |-> 0, vis |-> FALSE]
MinOf(S) == CHOOSE x \in S : \A y \in S : x <= y

Snap(type, o) == [type |-> type, rv |-> o.rv, deleting |-> o.deleting, match |-> o.match, fin |-> o.fin, dummy |-> (o.dummy # 0)]
Commit(o) ==
  LET gone == o.deleting /\ ~o.fin
      o2 == [o EXCEPT !.rv = obj.rv + 1, !.exists = ~gone]
  IN /\ obj' = o2
     /\ chan' = IF up /\ ~gh.closed /\ ~gh.pclosed THEN Append(chan, Snap(IF gone THEN "DELETED" ELSE "MODIFIED", o2)) ELSE chan

Init ==
  /\ conf \in ConfSet
  /\ obj = [exists |-> TRUE, rv |-> 1, deleting |-> FALSE, match |-> TRUE, fin |-> FALSE, dummy |-> 0]
  /\ chan = << Snap("ADDED", obj) >> /\ bl = <<>>
  /\ up = TRUE /\ stopping = FALSE /\ mem = FreshMem /\ run = [h \in Hs |-> NoRun]
  /\ pc = "idle" /\ cyc = NoCyc /\ now = 0
  /\ bud = [edits |-> 0, toggles |-> 0, deletes |-> 0, force |-> 0, stops |-> 0, kills |-> 0, pauses |-> 0]
  /\ gh = [early |-> FALSE, respawned |-> FALSE, killer |-> FALSE, exitwhen |-> 0, rematch |-> {}, double |-> FALSE, delat |-> 0, stopat |-> 0, closed |-> FALSE, racy |-> {}, paused |-> FALSE, pclosed |-> FALSE, needlist |-> FALSE, nextpass |-> 0]

(***************************************************************************)
(* Environment                                                             *)
(***************************************************************************)
Edit ==
  /\ obj.exists /\ bud.edits < MaxEdits
  /\ Commit(obj) /\ bud' = [bud EXCEPT !.edits = @ + 1]
  /\ UNCHANGED <<bl, up, stopping, mem, run, pc, cyc, now, gh, conf>>
Toggle ==
  /\ obj.exists /\ bud.toggles < MaxToggles /\ conf.filter
  /\ Commit([obj EXCEPT !.match = ~@]) /\ bud' = [bud EXCEPT !.toggles = @ + 1]
  /\ UNCHANGED <<bl, up, stopping, mem, run, pc, cyc, now, gh, conf>>
Delete ==
  /\ obj.exists /\ ~obj.deleting /\ bud.deletes < MaxDeletes
  /\ IF obj.fin THEN Commit([obj EXCEPT !.deleting = TRUE]) /\ gh' = [gh EXCEPT !.delat = now]
     ELSE /\ UNCHANGED gh
          /\ obj' = [obj EXCEPT !.rv = @ + 1, !.exists = FALSE]
          /\ chan' = IF up /\ ~gh.closed /\ ~gh.pclosed THEN Append(chan, Snap("DELETED", obj')) ELSE chan
  /\ bud' = [bud EXCEPT !.deletes = @ + 1]
  /\ UNCHANGED <<bl, up, stopping, mem, run, pc, cyc, now, conf>>
ForceFin ==       \* somebody else strips the finalizers (kubectl patch ... finalizers: null)
  /\ obj.exists /\ obj.fin /\ bud.force < MaxForce
  /\ Commit([obj EXCEPT !.fin = FALSE]) /\ bud' = [bud EXCEPT !.force = @ + 1]
  /\ UNCHANGED <<bl, up, stopping, mem, run, pc, cyc, now, gh, conf>>
Deliver ==
  /\ up /\ ~gh.closed /\ ~gh.pclosed /\ chan # <<>>
  /\ bl' = Append(bl, Head(chan)) /\ chan' = Tail(chan)
  /\ UNCHANGED <<obj, up, stopping, mem, run, pc, cyc, now, bud, gh, conf>>
Stop ==           \* graceful exit is requested: the root tasks are cancelled
  /\ up /\ ~stopping /\ bud.stops < MaxStops
  /\ stopping' = TRUE /\ bud' = [bud EXCEPT !.stops = @ + 1]
  /\ gh' = [gh EXCEPT !.stopat = now]
  /\ UNCHANGED <<obj, chan, bl, up, mem, run, pc, cyc, now, conf>>
StreamEnd ==      \* ... the watcher among them: its stream is closed, the backlog may still be drained
  /\ up /\ stopping /\ ~gh.closed
  /\ gh' = [gh EXCEPT !.closed = TRUE] /\ chan' = <<>>       \* what it had not handed over is lost
  /\ UNCHANGED <<obj, bl, up, stopping, mem, run, pc, cyc, now, bud, conf>>
\* the peering engine turns the operator's pause toggle on: the daemon killer wakes up, and a few iterations of the loop later
\* the streams are closed (what they had not handed over is dropped; what they hand over until then sneaks into the workers);
\* ... and off: the watchers start over with a listing
Pause ==
  /\ up /\ ~gh.paused /\ conf.peering /\ bud.pauses < MaxPauses
  /\ gh' = [gh EXCEPT !.paused = TRUE, !.nextpass = now] /\ bud' = [bud EXCEPT !.pauses = @ + 1]
  /\ UNCHANGED <<obj, chan, bl, up, stopping, mem, run, pc, cyc, now, conf>>
PauseClose ==
  /\ up /\ gh.paused /\ ~gh.pclosed
  /\ gh' = [gh EXCEPT !.pclosed = TRUE] /\ chan' = <<>>
  /\ UNCHANGED <<obj, bl, up, stopping, mem, run, pc, cyc, now, bud, conf>>
Resume ==
  /\ up /\ gh.paused /\ gh.pclosed
  /\ gh' = [gh EXCEPT !.paused = FALSE, !.pclosed = FALSE, !.needlist = TRUE]
  /\ UNCHANGED <<obj, chan, bl, up, stopping, mem, run, pc, cyc, now, bud, conf>>
Relist ==         \* the watcher, released by the resume, lists: what exists is queued as a listed item
  /\ up /\ gh.needlist /\ ~gh.closed /\ ~gh.paused
  /\ gh' = [gh EXCEPT !.needlist = FALSE]
  /\ bl' = IF obj.exists THEN Append(bl, Snap("NONE", obj)) ELSE bl
  /\ UNCHANGED <<obj, chan, up, stopping, mem, run, pc, cyc, now, bud, conf>>
Kill ==
  /\ up /\ bud.kills < MaxKills
  /\ up' = FALSE /\ stopping' = FALSE /\ pc' = "idle" /\ cyc' = NoCyc /\ bl' = <<>> /\ chan' = <<>>
  /\ mem' = FreshMem /\ run' = [h \in Hs |-> NoRun] /\ bud' = [bud EXCEPT !.kills = @ + 1]
  /\ gh' = [gh EXCEPT !.killer = FALSE, !.rematch = {}, !.closed = FALSE, !.paused = FALSE, !.pclosed = FALSE, !.needlist = FALSE]
  /\ UNCHANGED <<obj, now, conf>>
Down ==           \* the process has ended (whatever was left is swept with it)
  /\ up /\ stopping /\ gh.killer /\ gh.closed /\ pc \in {"idle", "sleep"}
  /\ up' = FALSE /\ stopping' = FALSE /\ pc' = "idle" /\ cyc' = NoCyc /\ bl' = <<>> /\ chan' = <<>>
  /\ mem' = FreshMem /\ run' = [h \in Hs |-> NoRun]
  /\ gh' = [gh EXCEPT !.killer = FALSE, !.rematch = {}, !.closed = FALSE, !.paused = FALSE, !.pclosed = FALSE, !.needlist = FALSE]
  /\ UNCHANGED <<obj, now, bud, conf>>

(***************************************************************************)
(* The user's functions                                                    *)
(***************************************************************************)
Alive(h) == run[h].on /\ run[h].started /\ ~run[h].exited
IsTimer(h) == DH[h].kind = "timer"
\* _runner's finally: remembered as stopped forever if it ended with no stop flag; unregistered
Ended(h) ==
  /\ run' = [run EXCEPT ![h] = NoRun]
  /\ mem' = IF ~run[h].flag /\ run[h].vis THEN [mem EXCEPT !.forever = @ \cup {h}] ELSE mem
DEnter(h) ==      \* the guarding task starts and calls the function (urgent: the next iteration of the loop)
  /\ up /\ run[h].on /\ ~run[h].started /\ ~IsTimer(h)
  /\ run' = [run EXCEPT ![h].started = TRUE, ![h].t0 = now]
  /\ UNCHANGED <<obj, chan, bl, up, stopping, mem, pc, cyc, now, bud, gh, conf>>
DSeeFlag(h) ==
  /\ up /\ Alive(h) /\ run[h].flag /\ ~run[h].seen /\ ~IsTimer(h)
  /\ run' = [run EXCEPT ![h].seen = TRUE, ![h].t0 = IF DH[h].react = "obey" THEN now ELSE @]
  /\ UNCHANGED <<obj, chan, bl, up, stopping, mem, pc, cyc, now, bud, gh, conf>>
DCancelled(h) ==  \* a thread cannot be cancelled
  /\ up /\ Alive(h) /\ run[h].creq /\ ~DH[h].sync /\ ~IsTimer(h)
  /\ run' = [run EXCEPT ![h].cdel = TRUE, ![h].creq = FALSE, ![h].t0 = IF DH[h].react = "cancel" /\ ~run[h].cdel THEN now ELSE @]
  /\ UNCHANGED <<obj, chan, bl, up, stopping, mem, pc, cyc, now, bud, gh, conf>>
MayExit(h) == LET r == DH[h].react IN
  /\ \/ r = "any" \/ r = "selfexit"
     \/ (r = "obey" /\ run[h].seen)
     \/ (r = "cancel" /\ run[h].cdel)
  /\ (DH[h].lat = -1 \/ now >= run[h].t0 + DH[h].lat)
DExit(h) ==      \* the function returns or raises ...
  /\ up /\ Alive(h) /\ ~IsTimer(h) /\ MayExit(h)
  /\ run' = [run EXCEPT ![h].exited = TRUE]
  /\ UNCHANGED <<obj, chan, bl, up, stopping, mem, pc, cyc, now, bud, gh, conf>>
REnd(h) ==       \* ... and a few iterations of the loop later (the result of a thread travels) the guarding task runs its finally
  /\ up /\ run[h].on /\ run[h].exited
  /\ Ended(h)
  /\ UNCHANGED <<obj, chan, bl, up, stopping, pc, cyc, now, bud, gh, conf>>

(***************************************************************************)
(* The processing cycle                                                    *)
(***************************************************************************)
Matching(s, forever) == {h \in Reg : h \notin forever /\ (s.match \/ ~conf.filter)}
ProcBegin ==
  /\ up /\ pc = "idle" /\ bl # <<>>
  /\ LET s == Head(bl)
         m1 == IF mem.known THEN mem ELSE [known |-> TRUE, forever |-> {}]
         gone == s.type = "DELETED"
         vis == ~gone                                 \* memories.forget(): what is spawned or left from now on is out of sight
         mine == {h \in Hs : run[h].on /\ run[h].vis}  \* running_daemons of the recalled memory
         wanted == Matching(s, m1.forever)
         tospawn == IF s.deleting THEN {} ELSE wanted \ mine
         \* pause_daemons(): while paused every running instance - those spawned a moment ago included - is told to stop
         tostop == IF s.deleting THEN mine ELSE IF gh.paused THEN mine \cup tospawn ELSE mine \ wanted
     IN /\ bl' = Tail(bl)
        /\ mem' = IF gone THEN FreshMem ELSE m1
        /\ run' = [h \in Hs |-> IF h \in tospawn THEN [NoRun EXCEPT !.on = TRUE, !.vis = vis, !.started = IsTimer(h)]
                                ELSE IF gone THEN [run[h] EXCEPT !.vis = FALSE] ELSE run[h]]
        /\ cyc' = [NoCyc EXCEPT !.s = s, !.m = m1, !.todo = tostop, !.vis = vis]
        /\ pc' = "stop"
        /\ gh' = [gh EXCEPT !.respawned = @ \/ (tospawn \cap m1.forever # {}),
                            !.double = @ \/ (\E h \in tospawn : run[h].on),
                            \* F18: an instance that is being stopped is wanted again
                            !.rematch = @ \cup {h \in mine \cap wanted : run[h].flag}]
  /\ UNCHANGED <<obj, chan, up, stopping, now, bud, conf>>

\* stop_daemons: one daemon after another; the age of the flag is taken before it is (re-)set
StopSet(h) ==
  /\ up /\ pc = "stop" /\ cyc.cur = "none" /\ h \in cyc.todo
  /\ LET age == IF run[h].flag THEN now - run[h].when ELSE 0
         \* an idle timer notices the flag within the instant-exit window - which there is only if the flag was not set before
         \* (by the daemon killer a moment ago, say: then the stage is evaluated at once and may find the timer still there)
         timerend == IsTimer(h) /\ ~run[h].flag
     IN /\ IF timerend /\ run[h].on
           THEN /\ run' = [run EXCEPT ![h] = NoRun] /\ UNCHANGED mem
           ELSE /\ run' = [run EXCEPT ![h].flag = TRUE, ![h].when = IF run[h].flag THEN @ ELSE now] /\ UNCHANGED mem
        /\ cyc' = [cyc EXCEPT !.cur = h, !.ph = "set", !.age = age]
        \* F33: the function has returned on its own, its guarding task has not finished yet - and now finds a stop reason
        /\ gh' = [gh EXCEPT !.racy = IF run[h].on /\ run[h].exited /\ ~run[h].flag THEN @ \cup {h} ELSE @]
  /\ UNCHANGED <<obj, chan, bl, up, stopping, pc, now, bud, conf>>
Stage(h) ==
  /\ up /\ pc = "stop" /\ cyc.cur = h /\ cyc.ph = "set"
  /\ LET b == DH[h].backoff  t == DH[h].timeout  age == cyc.age
         next(d) == [cyc EXCEPT !.cur = "none", !.ph = "none", !.todo = @ \ {h}, !.delays = @ \cup d]
     IN IF ~run[h].on THEN cyc' = next({}) /\ UNCHANGED run                                     \* exited (instantly or earlier)
        ELSE IF b > 0 /\ age < b THEN cyc' = next({b - age}) /\ UNCHANGED run                   \* signalled: wait for the backoff
        ELSE IF t > 0 /\ age < t + b
             THEN IF ~run[h].cset THEN run' = [run EXCEPT ![h].cset = TRUE, ![h].creq = TRUE] /\ cyc' = [cyc EXCEPT !.ph = "canc"]
                  ELSE cyc' = next({t + b - age}) /\ UNCHANGED run
        ELSE IF t > 0 THEN run' = [run EXCEPT ![h].aband = TRUE] /\ cyc' = next({})             \* abandoned: no more waiting
        ELSE cyc' = next({conf.polling}) /\ UNCHANGED run                                        \* no timeout: polled forever
  /\ UNCHANGED <<obj, chan, bl, up, stopping, mem, pc, now, bud, gh, conf>>
StageC(h) ==
  /\ up /\ pc = "stop" /\ cyc.cur = h /\ cyc.ph = "canc"
  /\ cyc' = [cyc EXCEPT !.cur = "none", !.ph = "none", !.todo = @ \ {h},
                        !.delays = IF run[h].on THEN @ \cup {DH[h].timeout + DH[h].backoff - cyc.age} ELSE @]
  /\ UNCHANGED <<obj, chan, bl, up, stopping, mem, run, pc, now, bud, gh, conf>>

ProcFinish ==
  /\ up /\ pc = "stop" /\ cyc.cur = "none" /\ cyc.todo = {}
  /\ LET s == cyc.s
         gone == s.type = "DELETED"
         mustBlock == Matching(s, IF cyc.vis THEN mem.forever ELSE cyc.m.forever) # {}
         addK == mustBlock /\ ~s.fin /\ ~s.deleting
         delK == ~mustBlock /\ s.fin
         release == ~gone /\ s.deleting /\ s.fin /\ cyc.delays = {}
         fns == (IF addK THEN {"add"} ELSE {}) \cup (IF delK \/ release THEN {"del"} ELSE {})
     IN IF gone THEN pc' = "post" /\ UNCHANGED cyc
        ELSE IF fns # {}
        THEN /\ pc' = IF s.dummy THEN "r1" ELSE "r3"      \* a non-empty patch also clears the touch dummy the view shows
             /\ cyc' = [cyc EXCEPT !.fns = fns, !.fresh = s.rv]
        ELSE IF cyc.delays # {} /\ MinOf(cyc.delays) > 0
        THEN pc' = "sleep" /\ cyc' = [cyc EXCEPT !.wake = now + MinOf(cyc.delays)]
        ELSE IF cyc.delays # {} THEN pc' = "touch" /\ UNCHANGED cyc
        ELSE pc' = "post" /\ UNCHANGED cyc
  /\ UNCHANGED <<obj, chan, bl, up, stopping, mem, run, now, bud, gh, conf>>

SrvMerge ==
  /\ pc = "r1" /\ up
  /\ IF ~obj.exists THEN pc' = "post" /\ cyc' = [cyc EXCEPT !.rv = 0] /\ UNCHANGED <<obj, chan>>
     ELSE /\ IF obj.dummy # 0 THEN Commit([obj EXCEPT !.dummy = 0]) ELSE UNCHANGED <<obj, chan>>
          /\ cyc' = [cyc EXCEPT !.fresh = obj'.rv, !.rv = obj'.rv, !.ffin = obj'.fin]
          /\ pc' = "r1done"
  /\ UNCHANGED <<bl, up, stopping, mem, run, now, bud, gh, conf>>
Reply1 ==         \* the JSON-patch is computed on the body the merge returned: no operations, no request
  /\ pc = "r1done" /\ up
  /\ pc' = IF ("del" \in cyc.fns /\ cyc.ffin) \/ ("del" \notin cyc.fns /\ "add" \in cyc.fns /\ ~cyc.ffin) THEN "r3" ELSE "post"
  /\ UNCHANGED <<obj, chan, bl, up, stopping, mem, run, cyc, now, bud, gh, conf>>
\* is a live instance still entitled to hold the object? not once its cancellation timeout has run out
Entitled(h) == Alive(h) /\ ~IsTimer(h) /\ ~(run[h].flag /\ DH[h].timeout > 0 /\ now >= run[h].when + DH[h].backoff + DH[h].timeout)
SrvJson ==
  /\ pc = "r3" /\ up
  /\ IF ~obj.exists THEN pc' = "post" /\ cyc' = [cyc EXCEPT !.rv = 0] /\ UNCHANGED <<obj, chan, gh>>
     ELSE IF obj.rv # cyc.fresh THEN pc' = "post" /\ UNCHANGED <<obj, chan, gh, cyc>>              \* 422: decided anew in the next cycle
     ELSE LET f2 == IF "del" \in cyc.fns THEN FALSE ELSE IF "add" \in cyc.fns THEN TRUE ELSE obj.fin
          IN /\ IF f2 # obj.fin
                THEN /\ Commit([obj EXCEPT !.fin = f2])
                     /\ gh' = [gh EXCEPT !.early = @ \/ (obj.deleting /\ obj.fin /\ ~f2 /\ (obj.match \/ ~conf.filter)
                                                         /\ \E h \in Hs : run[h].vis /\ Entitled(h))]
                ELSE UNCHANGED <<obj, chan, gh>>
             /\ cyc' = [cyc EXCEPT !.rv = obj'.rv]
             /\ pc' = "post"
  /\ UNCHANGED <<bl, up, stopping, mem, run, now, bud, conf>>
Post ==
  /\ pc = "post" /\ up /\ pc' = "idle" /\ cyc' = NoCyc
  /\ UNCHANGED <<obj, chan, bl, up, stopping, mem, run, now, bud, gh, conf>>
SleepWake ==
  /\ up /\ pc = "sleep" /\ bl # <<>> /\ pc' = "post"
  /\ UNCHANGED <<obj, chan, bl, up, stopping, mem, run, cyc, now, bud, gh, conf>>
SleepExpire ==    \* (also when a change arrives in the very instant the sleep ends: the timer may win the race)
  /\ up /\ pc = "sleep" /\ now >= cyc.wake /\ pc' = "touch"
  /\ UNCHANGED <<obj, chan, bl, up, stopping, mem, run, cyc, now, bud, gh, conf>>
SrvTouch ==
  /\ pc = "touch" /\ up
  /\ IF ~obj.exists THEN UNCHANGED <<obj, chan>> ELSE Commit([obj EXCEPT !.dummy = now + 1])
  /\ pc' = "post"
  /\ UNCHANGED <<bl, up, stopping, mem, run, cyc, now, bud, gh, conf>>

\* the watcher has ended: the workers get an end-of-stream marker behind what is queued (a sleeping one is not woken by it) and
\* are cancelled when the exit timeout has passed
WorkerAbort ==
  /\ up /\ gh.closed /\ now >= gh.stopat + conf.exitto /\ (pc = "sleep" \/ bl # <<>>)
  /\ pc \in {"idle", "sleep"}
  /\ pc' = "idle" /\ cyc' = NoCyc /\ bl' = <<>>
  /\ UNCHANGED <<obj, chan, up, stopping, mem, run, now, bud, gh, conf>>

(***************************************************************************)
(* daemon_killer when the operator exits (its pausing branch is in         *)
(* Trace_Peering / PauseSet): stop_daemon() for every instance in sight    *)
(***************************************************************************)
\* one round of the daemon killer: a stop_daemon() coroutine is started for every instance in sight (idle timers end at once)
Round(t) == [h \in Hs |-> IF run[h].on /\ run[h].vis
                          THEN (IF IsTimer(h) THEN [run[h] EXCEPT !.flag = TRUE, !.when = IF run[h].flag THEN @ ELSE t]
                                ELSE [run[h] EXCEPT !.flag = TRUE, !.when = IF run[h].flag THEN @ ELSE t, !.sd = @ \cup {t}])
                          ELSE run[h]]
TimerEnd(h) ==    \* an idle timer that was told to stop ends a few iterations of the loop later
  /\ up /\ IsTimer(h) /\ run[h].on /\ run[h].flag
  /\ run' = [run EXCEPT ![h] = NoRun]
  /\ UNCHANGED <<obj, chan, bl, up, stopping, mem, pc, cyc, now, bud, gh, conf>>
KillerPass ==     \* while paused: at once, then every second
  /\ up /\ ~stopping /\ gh.paused /\ now >= gh.nextpass
  /\ run' = Round(now) /\ gh' = [gh EXCEPT !.nextpass = now + 1]
  /\ UNCHANGED <<obj, chan, bl, up, stopping, mem, pc, cyc, now, bud, conf>>
KillerExit ==     \* the killer is cancelled with the other root tasks: its finally-block makes a last round
  /\ up /\ stopping /\ ~gh.killer
  /\ run' = Round(now) /\ gh' = [gh EXCEPT !.killer = TRUE, !.exitwhen = now]
  /\ UNCHANGED <<obj, chan, bl, up, stopping, mem, pc, cyc, now, bud, conf>>
\* stop_daemon(): flag, wait for the backoff on its own clock, cancel (if there is a cancellation timeout), wait, give up
KCancel(h) ==
  /\ up /\ run[h].on /\ DH[h].timeout > 0
  /\ \E t \in run[h].sd : now >= t + DH[h].backoff /\ run' = [run EXCEPT ![h].sd = @ \ {t}, ![h].cset = TRUE, ![h].creq = TRUE]
  /\ UNCHANGED <<obj, chan, bl, up, stopping, mem, pc, cyc, now, bud, gh, conf>>
KDrop(h) ==       \* ... no cancellation timeout: the coroutine ends after the backoff ("left orphaned")
  /\ up /\ run[h].on /\ DH[h].timeout = 0
  /\ \E t \in run[h].sd : now >= t + DH[h].backoff /\ run' = [run EXCEPT ![h].sd = @ \ {t}]
  /\ UNCHANGED <<obj, chan, bl, up, stopping, mem, pc, cyc, now, bud, gh, conf>>

OpStep == ProcBegin \/ (\E h \in Hs : StopSet(h) \/ Stage(h) \/ StageC(h)) \/ ProcFinish \/ SrvMerge \/ Reply1 \/ SrvJson \/ Post
          \/ SleepWake \/ SleepExpire \/ SrvTouch \/ StreamEnd \/ WorkerAbort \/ KillerExit \/ KillerPass \/ PauseClose \/ (Relist /\ ~stopping)
          \/ (\E h \in Hs : KCancel(h) \/ KDrop(h) \/ TimerEnd(h))
\* a function with a stated latency does what it does on time
Punctual(h) == DH[h].lat # -1 /\ (DSeeFlag(h) \/ DCancelled(h) \/ DExit(h))
\* (a requested cancellation reaches a coroutine in the next iteration of the loop)
Urgent == OpStep \/ (\E h \in Hs : DEnter(h) \/ REnd(h) \/ DCancelled(h) \/ Punctual(h))
DStep == \E h \in Hs : DEnter(h) \/ DSeeFlag(h) \/ DCancelled(h) \/ DExit(h) \/ REnd(h)
Tick == /\ now < Horizon /\ ~ENABLED Urgent /\ now' = now + 1
        /\ (conf.prompt => chan = <<>>)       \* a prompt stream hands changes over in the instant they are committed
        /\ UNCHANGED <<obj, chan, bl, up, stopping, mem, run, pc, cyc, bud, gh, conf>>
EnvStep == Edit \/ Toggle \/ Delete \/ ForceFin \/ Stop \/ Kill \/ Pause \/ Resume
Next == OpStep \/ DStep \/ Deliver \/ EnvStep \/ Relist \/ Down \/ Tick
Spec == Init /\ [][Next /\ conf' = conf]_vars
\* the user's functions are fair where their reaction says they react
FairSpec == Spec /\ WF_vars(OpStep) /\ WF_vars(Deliver) /\ WF_vars(Tick)
            /\ \A h \in Hs : WF_vars(DEnter(h)) /\ WF_vars(REnd(h)) /\ WF_vars(DSeeFlag(h)) /\ WF_vars(DCancelled(h))
                             /\ WF_vars(DExit(h) /\ DH[h].react \in {"obey", "cancel"})

(***************************************************************************)
(* C09 / C06                                                               *)
(***************************************************************************)
\* at most one instance: nothing is spawned under an id that is still registered
OneInstance == ~gh.double
NoRespawnAfterOwnExit == ~gh.respawned
\* task.cancel() is not called before the backoff has passed since the flag (resp. since the exit began)
CancelNotBeforeBackoff == \A h \in Hs : (run[h].cset /\ ~stopping) => now >= run[h].when + DH[h].backoff
\* a stop flag is never taken back, an abandoned or cancelled instance was flagged
\* (the final sweep of an exiting operator cancels whatever is left, flagged or not)
StagesInOrder == \A h \in Hs : ((run[h].cset /\ ~stopping) \/ run[h].aband \/ run[h].seen \/ run[h].sd # {}) => run[h].flag
\* C06: the finalizer is not withdrawn from a matching object marked for deletion under a live, entitled daemon
FinalizerHeld == ~gh.early
\* the instances of a timer or a daemon that is in sight are flagged whenever the processed view is a deleting one
AtRest == up /\ ~stopping /\ ~gh.paused /\ ~ENABLED Urgent /\ chan = <<>> /\ bl = <<>> /\ pc = "idle"
\* while paused (and once the killer has made its round) every instance in sight has been told to stop
PausedAllFlagged == (up /\ ~stopping /\ gh.paused /\ ~ENABLED Urgent) => \A h \in Hs : (run[h].on /\ run[h].vis) => run[h].flag
\* known families: F5 (instances of a vanished object are not driven to a stop), F18 (re-matching while stopping)
Family_F5 == ~obj.exists /\ \E h \in Hs : run[h].on
Family_F18 == gh.rematch # {}
Family_F33 == gh.racy # {}
\* at rest a matching object that is not being deleted has a live, unflagged instance of every daemon that did not leave on its own
StartOnMatch == (AtRest /\ obj.exists /\ ~obj.deleting /\ (obj.match \/ ~conf.filter)) =>
                   \A h \in Reg \ mem.forever : IsTimer(h) \/ Family_F18 \/ (Alive(h) /\ ~run[h].flag)
\* at rest nothing runs for an object that is gone, deleting or unmatched without having been asked to stop
AskedToStop == (AtRest /\ (~obj.exists \/ obj.deleting \/ ~(obj.match \/ ~conf.filter))) =>
                   \A h \in Hs : run[h].on => (run[h].flag \/ Family_F5)
\* ... and within a bound when the functions have stated latencies and the stream is prompt: the stages of every daemon take
\* backoff + timeout at most, its leaving is noticed at the next poll
Bound == LET B(h) == DH[h].backoff + DH[h].timeout + (IF DH[h].lat > 0 THEN DH[h].lat ELSE 0) + conf.polling
         IN CHOOSE m \in {B(h) : h \in Hs} : \A h \in Hs : B(h) <= m
Timed == conf.prompt /\ \A h \in Reg : IsTimer(h) \/ (DH[h].lat # -1 /\ (DH[h].react \in {"obey", "selfexit"} \/ DH[h].timeout > 0))
DeletionInTime == (obj.exists /\ obj.deleting /\ obj.fin /\ up /\ ~stopping /\ Timed) => now <= gh.delat + Bound
\* an object marked for deletion goes away if its daemons react (or have a cancellation timeout)
Reacts(h) == DH[h].react = "obey" \/ DH[h].timeout > 0 \/ IsTimer(h) \/ DH[h].kind = "none"
DeletionCompletes == (obj.exists /\ obj.deleting /\ up /\ ~stopping /\ \A h \in Hs : Reacts(h))
                        ~> (~obj.exists \/ ~up \/ stopping \/ now = Horizon)
=============================================================================
