---------------------------- MODULE Trace_Kits ----------------------------
(* Trace validation of the real aiotoggles.ToggleSet / Toggle against Kits.tla: the operations on the set (make / drop / drops / turn),
   the tasks that start waiting for the set to be on or off, and the tasks that come back from wait_for -- each is one action of the
   model; after every event the state of the set must be the recorded one; and when virtual time advances (`tick`) no task may be
   waiting for the state the set is in: a waiter is released when, and only when, the set is in the state it waits for. *)
EXTENDS Kits, Json, IOUtils, TLCExt
Traces == JsonDeserialize(IOEnv.TRACE_FILE)
VARIABLES tid, l
tvars == <<kvars, tid, l>>
T == Traces[tid].events
E == T[l]
TInit == KInit /\ tid \in 1..Len(Traces) /\ l = 1
Ev(e) == l <= Len(T) /\ E.ev = e /\ l' = l + 1 /\ UNCHANGED tid
Seen == SetOn' = E.on
TMake == Ev("make") /\ Make(E.name, E.val) /\ Seen
TDrop == Ev("drop") /\ Drop(E.name) /\ Seen
TTurn == Ev("turn") /\ Turn(E.name, E.val) /\ Seen
TWait == Ev("wait") /\ Wait(E.task, E.want) /\ Seen
TBack == Ev("back") /\ Release(E.task) /\ Seen
TTick == Ev("tick") /\ ~Urgent /\ UNCHANGED kvars
TNext == TMake \/ TDrop \/ TTurn \/ TWait \/ TBack \/ TTick
TSpec == TInit /\ [][TNext]_tvars
Max2(a, b) == IF a >= b THEN a ELSE b
Book == TLCSet(1, [TLCGet(1) EXCEPT ![tid] = Max2(@, l)])
ASSUME TLCSet(1, [i \in 1..Len(Traces) |-> 0])
Verdicts == \A i \in 1..Len(Traces) : PrintT(<<"VERDICT", i, Traces[i].id, TLCGet(1)[i] - 1, Len(Traces[i].events)>>)
=============================================================================
