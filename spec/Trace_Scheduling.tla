------------------------- MODULE Trace_Scheduling -------------------------
(* Trace validation of the real aiotasks.Scheduler against Scheduling.tla: coroutines handed over (spawn / refused), their first step
   (start), their end (end), close() called and returned -- each is one action of the model (jobs that a closed scheduler consumes
   are never seen running: silent Drain).  Jobs must start in the order of their hand-over and within the limit, and when virtual
   time advances (`tick`) nothing startable may be left waiting: a pending job starts as soon as there is room. *)
EXTENDS Scheduling, Json, IOUtils, TLCExt
Traces == JsonDeserialize(IOEnv.TRACE_FILE)
VARIABLES tid, l
tvars == <<svars, tid, l>>
T == Traces[tid].events
E == T[l]
Lim == Traces[tid].limit
\* (the limit is per trace: the operators of Scheduling.tla that mention Limit are restated over Lim)
RoomT == Lim = 0 \/ Cardinality(running) < Lim
TInit == SInit /\ tid \in 1..Len(Traces) /\ l = 1
Ev(e) == l <= Len(T) /\ E.ev = e /\ l' = l + 1 /\ UNCHANGED tid
TSpawn == Ev("spawn") /\ Spawn(E.job)
TRefuse == Ev("refused") /\ Refuse(E.job)
TStart == /\ Ev("start") /\ ~closed /\ pending # <<>> /\ RoomT /\ Head(pending) = E.job
          /\ running' = running \cup {E.job} /\ pending' = Tail(pending) /\ order' = Append(order, E.job) /\ UNCHANGED <<closed, closing, seen>>
TEnd == Ev("end") /\ End(E.job)
TClose == Ev("close") /\ Close
TClosed == Ev("closed") /\ Closed
TDrain == closed /\ pending # <<>> /\ RoomT /\ pending' = Tail(pending) /\ UNCHANGED <<running, closed, closing, seen, order, tid, l>>
TTick == Ev("tick") /\ ~(pending # <<>> /\ RoomT) /\ ~(closing /\ pending = <<>> /\ running = {}) /\ UNCHANGED svars
TNext == TSpawn \/ TRefuse \/ TStart \/ TEnd \/ TClose \/ TClosed \/ TDrain \/ TTick
TSpec == TInit /\ [][TNext]_tvars
Max2(a, b) == IF a >= b THEN a ELSE b
Book == TLCSet(1, [TLCGet(1) EXCEPT ![tid] = Max2(@, l)])
ASSUME TLCSet(1, [i \in 1..Len(Traces) |-> 0])
Verdicts == \A i \in 1..Len(Traces) : PrintT(<<"VERDICT", i, Traces[i].id, TLCGet(1)[i] - 1, Len(Traces[i].events)>>)
=============================================================================
