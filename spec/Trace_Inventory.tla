-------------------------- MODULE Trace_Inventory --------------------------
(* Trace validation of the real ResourceMemories against Inventory.tla: every recall (the uid, whether the event came from a listing,
   the identity of the memory that was returned and of its parts, its noticed_by_listing flag) and every forget, observed from outside.
   A recall returns the memory the uid already has, or a new one whose flag is the recall's; the parts of a memory are its own. *)
EXTENDS Inventory, Json, IOUtils, TLCExt
Traces == JsonDeserialize(IOEnv.TRACE_FILE)
VARIABLES tid, l, ident, parts      \* ident: [model memory id -> the recorded identity]; parts: all identities of parts seen, with their owner
tvars == <<ivars, tid, l, ident, parts>>
T == Traces[tid].events
E == T[l]
SetOf(s) == {s[i] : i \in DOMAIN s}
TInit == IInit /\ tid \in 1..Len(Traces) /\ l = 1 /\ ident = [m \in 1..MaxMem |-> 0] /\ parts = {}
Ev(e) == l <= Len(T) /\ E.ev = e /\ l' = l + 1 /\ UNCHANGED tid
TRecall ==
  /\ Ev("recall") /\ Recall(E.uid, E.listed)
  /\ E.n = Cardinality({u \in Uids : mem'[u] # 0})                    \* nothing but the objects that are there is remembered
  /\ LET m == mem'[E.uid] IN
     /\ IF mem[E.uid] = 0 THEN ident' = [ident EXCEPT ![m] = E.mem] /\ E.flag = E.listed         \* a new memory: not one seen before
                                /\ \A k \in 1..nmem : ident[k] # E.mem
                          ELSE ident[m] = E.mem /\ E.flag = byList[m] /\ UNCHANGED ident              \* the one it had, flag and all
     /\ \A p \in SetOf(E.parts) : \A q \in parts : q[1] = p => q[2] = E.mem                           \* its parts are its own
     /\ parts' = parts \cup {<<p, E.mem>> : p \in SetOf(E.parts)}
TForget == Ev("forget") /\ Forget(E.uid) /\ UNCHANGED <<ident, parts>>
TNext == TRecall \/ TForget
TSpec == TInit /\ [][TNext]_tvars
Max2(a, b) == IF a >= b THEN a ELSE b
Book == TLCSet(1, [TLCGet(1) EXCEPT ![tid] = Max2(@, l)])
ASSUME TLCSet(1, [i \in 1..Len(Traces) |-> 0])
Verdicts == \A i \in 1..Len(Traces) : PrintT(<<"VERDICT", i, Traces[i].id, TLCGet(1)[i] - 1, Len(Traces[i].events)>>)
=============================================================================
