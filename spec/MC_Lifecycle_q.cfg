SPECIFICATION MCSpec
CONSTANT NoConf = NoConf
CONSTANT MaxKids = 2
CONSTRAINT BoundedQ
INVARIANT NoApiBeforeStartup
INVARIANT ReadyAfterStartup
INVARIANT FailedStartupNoApi
INVARIANT CleanupLast
INVARIANT NothingLingers
INVARIANT ReRaises
PROPERTY FailFast
CHECK_DEADLOCK FALSE
