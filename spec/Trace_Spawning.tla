-------------------------- MODULE Trace_Spawning --------------------------
(***************************************************************************)
(* Trace validation for Spawning.tla: executions of the real operator with *)
(* daemons and timers on one object (vf/daemons.py), in virtual time.      *)
(*   edit / delete / forcefin        the environment's writes, with the    *)
(*                                   version and the state after them      *)
(*   deliver / begin / end           the q.* hooks of the worker           *)
(*   merge / json                    every PATCH of the operator as the    *)
(*                                   server applied (or refused) it        *)
(*   enter / flagseen / cancel / exit(h), tick(h)   the user's functions   *)
(*   pause / resume              the peer.eval hook: the toggle flips      *)
(*   stop / closed / down / quiet                                          *)
(* Every event is bound to the action of Spawning it claims to be; the     *)
(* stages of stop_daemons, the sleeps, the killer and the clock are        *)
(* inferred. The clock advances only when nothing of the operator is       *)
(* enabled: a stage, a touch or a release that comes too early or too late *)
(* is a rejection.                                                         *)
(***************************************************************************)
EXTENDS Spawning, Json, IOUtils, TLCExt

Traces == JsonDeserialize(IOEnv.TRACE_FILE)
VARIABLES tid, l, bad
tvars == <<vars, tid, l, bad>>
T == Traces[tid].events
E == T[l]

ConfOf(c) == [dh |-> [h \in Hs |-> [kind |-> c.dh[h].kind, backoff |-> c.dh[h].backoff, timeout |-> c.dh[h].timeout,
                                    sync |-> c.dh[h].sync, react |-> "any", lat |-> -1]],
              polling |-> c.polling, filter |-> c.filter, prompt |-> FALSE, exitto |-> c.exitto, peering |-> c.peering]
TInit ==
  /\ tid \in 1..Len(Traces) /\ l = 1 /\ bad = "none"
  /\ conf = ConfOf(Traces[tid].conf)
  /\ obj = [exists |-> TRUE, rv |-> 1, deleting |-> FALSE, match |-> Traces[tid].init.match, fin |-> FALSE, dummy |-> 0]
  /\ chan = << Snap("ADDED", obj) >> /\ bl = <<>>
  /\ up = TRUE /\ stopping = FALSE /\ mem = FreshMem /\ run = [h \in Hs |-> NoRun]
  /\ pc = "idle" /\ cyc = NoCyc /\ now = Traces[tid].init.t
  /\ bud = [edits |-> 0, toggles |-> 0, deletes |-> 0, force |-> 0, stops |-> 0, kills |-> 0, pauses |-> 0]
  /\ gh = [early |-> FALSE, respawned |-> FALSE, killer |-> FALSE, exitwhen |-> 0, rematch |-> {}, double |-> FALSE, delat |-> 0, stopat |-> 0, closed |-> FALSE, racy |-> {}, paused |-> FALSE, pclosed |-> FALSE, needlist |-> FALSE, nextpass |-> 0]

Ev(e) == l <= Len(T) /\ E.ev = e /\ E.t = now /\ l' = l + 1 /\ UNCHANGED tid
Keep == UNCHANGED <<tid, l>>

TEdit    == Ev("edit") /\ (Edit \/ Toggle) /\ obj'.rv = E.rv /\ obj'.match = E.match
TDelete  == Ev("delete") /\ Delete /\ obj'.rv = E.rv /\ obj'.exists = ~E.gone
TForce   == Ev("forcefin") /\ ForceFin /\ obj'.rv = E.rv /\ obj'.exists = ~E.gone
TDeliver == Ev("deliver") /\ Deliver /\ Head(chan).rv = E.rv /\ Head(chan).type = E.type
TBegin   == Ev("begin") /\ ProcBegin /\ Head(bl).rv = E.rv /\ Head(bl).type = E.type
TEnd     == Ev("end") /\ Post
TMerge   == Ev("merge") /\ (SrvMerge \/ SrvTouch)
            /\ IF E.code = 404 THEN ~obj.exists ELSE obj.exists /\ obj'.rv = E.rv /\ (obj'.dummy # 0) = E.dummy /\ obj'.fin = E.fin
TJson    == Ev("json") /\ SrvJson
            /\ CASE E.code = 404 -> ~obj.exists
                 [] E.code = 422 -> obj.exists /\ obj.rv # cyc.fresh
                 [] OTHER -> obj.exists /\ obj.rv = cyc.fresh /\ obj'.fin = E.fin /\ obj'.rv = E.rv /\ obj'.exists = ~E.gone
\* the user's functions
TEnter   == Ev("enter") /\ IF up THEN DEnter(E.h) ELSE UNCHANGED vars
TSeen    == Ev("flagseen") /\ IF up THEN DSeeFlag(E.h) ELSE UNCHANGED vars
\* a CancelledError arrives: asked for by a stage of the stop, by the exiting killer - or by the final sweep of an exiting operator
SweepCancel(h) == /\ up /\ stopping /\ gh.killer /\ Alive(h) /\ ~DH[h].sync
                  /\ run' = [run EXCEPT ![h].cdel = TRUE]
                  /\ UNCHANGED <<obj, chan, bl, up, stopping, mem, pc, cyc, now, bud, gh, conf>>
\* (a function that swallows the error is cancelled again by the later sweeps of the exit)
TCancel  == Ev("cancel") /\ IF ~up THEN UNCHANGED vars ELSE IF run[E.h].creq THEN DCancelled(E.h) ELSE SweepCancel(E.h)
TExit    == Ev("exit") /\ IF up THEN DExit(E.h) ELSE UNCHANGED vars
\* a timer's function runs only while its instance is registered and has not been told to stop
TTick    == Ev("tick") /\ (~up \/ (run[E.h].on /\ ~run[E.h].flag)) /\ UNCHANGED vars
TPause   == Ev("pause") /\ Pause
TResume  == Ev("resume") /\ Resume
\* the watcher's listing after a resume
TList    == Ev("list") /\ Relist /\ (IF E.rv = 0 THEN ~obj.exists ELSE obj.exists /\ obj.rv = E.rv)
TStop    == Ev("stop") /\ Stop
TClosed  == Ev("closed") /\ StreamEnd
TDown    == Ev("down") /\ Down
TQuiet   == Ev("quiet") /\ ~ENABLED Urgent /\ (up => chan = <<>> /\ bl = <<>>) /\ UNCHANGED vars

Silent == ((\E h \in Hs : StopSet(h) \/ Stage(h) \/ StageC(h) \/ KCancel(h) \/ KDrop(h) \/ TimerEnd(h) \/ REnd(h)) \/ ProcFinish \/ Reply1 \/ SleepWake \/ SleepExpire
           \/ WorkerAbort \/ KillerExit \/ KillerPass \/ PauseClose) /\ Keep
Advance == /\ l <= Len(T) /\ E.t > now /\ ~ENABLED Urgent
           /\ now' = now + 1          \* second by second: a deadline in between may not be jumped over
           /\ UNCHANGED <<obj, chan, bl, up, stopping, mem, run, pc, cyc, bud, gh, conf, tid, l>>

FirstBad == IF ~OneInstance THEN "OneInstance" ELSE IF ~NoRespawnAfterOwnExit THEN "NoRespawnAfterOwnExit"
            ELSE IF ~CancelNotBeforeBackoff THEN "CancelNotBeforeBackoff" ELSE IF ~StagesInOrder THEN "StagesInOrder"
            ELSE IF ~FinalizerHeld THEN "FinalizerHeld" ELSE "none"
\* the verdict at rest: the clauses of C09 that are about the state the world comes to
RestBad == IF ~StartOnMatch THEN "matching_object_without_live_instance"
           ELSE IF ~AskedToStop THEN "instance_not_asked_to_stop"
           ELSE IF Family_F18 /\ obj.exists /\ ~obj.deleting /\ (obj.match \/ ~conf.filter)
                   /\ \E h \in Reg \ mem.forever : ~IsTimer(h) /\ ~(Alive(h) /\ ~run[h].flag) THEN "F18"
           ELSE IF Family_F5 THEN "F5"
           ELSE "none"

TStep == TEdit \/ TDelete \/ TForce \/ TDeliver \/ TBegin \/ TEnd \/ TMerge \/ TJson \/ TEnter \/ TSeen \/ TCancel \/ TExit \/ TTick
         \/ TPause \/ TResume \/ TList \/ TStop \/ TClosed \/ TDown \/ TQuiet \/ Silent \/ Advance
\* ... and when the exit begins: instances whose memory was forgotten with the vanished object are still there (F5)
Orphans == ~obj.exists /\ chan = <<>> /\ bl = <<>> /\ pc = "idle" /\ \E h \in Hs : run[h].on /\ ~run[h].vis
TNext == /\ TStep /\ conf' = conf
         /\ bad' = (IF bad # "none" THEN bad ELSE IF FirstBad' # "none" THEN FirstBad'
                    ELSE IF l <= Len(T) /\ E.ev = "quiet" /\ l' = l + 1 THEN RestBad
                    ELSE IF l <= Len(T) /\ E.ev = "stop" /\ l' = l + 1 /\ Orphans THEN "F5" ELSE "none")
TSpec == TInit /\ [][TNext]_tvars

Max2(a, b) == IF a >= b THEN a ELSE b
Book ==
  /\ TLCSet(3, [TLCGet(3) EXCEPT ![tid] = Max2(@, l)])
  /\ IF bad = "none" THEN TLCSet(1, [TLCGet(1) EXCEPT ![tid] = Max2(@, l)])
     ELSE IF l >= TLCGet(3)[tid] THEN TLCSet(2, [TLCGet(2) EXCEPT ![tid] = bad]) ELSE TRUE
ASSUME TLCSet(1, [i \in 1..Len(Traces) |-> 0]) /\ TLCSet(3, [i \in 1..Len(Traces) |-> 0])
       /\ TLCSet(2, [i \in 1..Len(Traces) |-> "none"])
Verdicts ==
  \A i \in 1..Len(Traces) :
     PrintT(<<"VERDICT", i, Traces[i].id, TLCGet(1)[i] - 1, TLCGet(3)[i] - 1, Len(Traces[i].events), TLCGet(2)[i]>>)
=============================================================================
