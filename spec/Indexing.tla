----------------------------- MODULE Indexing -----------------------------
(***************************************************************************)
(* C17: in-memory indices mirror the cluster; handling waits for the       *)
(* initial index.  Reference state machine of indexing.index_resource /    *)
(* OperatorIndexers.replace for a set of index handlers, replayed over the *)
(* recorded steps of the real operator:                                    *)
(*  step = [o (object key), type, match (per index: filter matches),       *)
(*          t (virtual time), out (per index: the scripted outcome of the  *)
(*          call IF the handler runs: [k, key, val, d]), ran (indices the  *)
(*          implementation actually invoked), dump (the implementation's   *)
(*          indices after the step: [index -> [key -> set of values]])]    *)
(* Rules (docs/indexing.rst): a result replaces the object's values; None  *)
(* and ignored arbitrary errors keep them; deletion, filter mismatch,      *)
(* temporary/permanent errors discard them; a handler that failed          *)
(* temporarily is not re-run before its delay, one that failed permanently *)
(* never (the object stays excluded from that index).                      *)
(***************************************************************************)
EXTENDS Naturals, Sequences, FiniteSets, TLC, Json, IOUtils, TLCExt

Traces == JsonDeserialize(IOEnv.TRACE_FILE)
CONSTANTS Idx, Objs
VARIABLES tid, l, store, hstate, verdict
vars == <<tid, l, store, hstate, verdict>>
T == Traces[tid].steps
E == T[l]

NoVal == [has |-> FALSE, key |-> "", val |-> 0]
Init == /\ tid \in 1..Len(Traces) /\ l = 1 /\ verdict = "ok"
        /\ store = [i \in Idx |-> [o \in Objs |-> NoVal]]                    \* the latest kept result of each object
        /\ hstate = [i \in Idx |-> [o \in Objs |-> [st |-> "ok", until |-> 0]]]

\* does the index handler run for this step?
Runs(i, e) == e.type # "DELETED" /\ e.match[i] /\ hstate[i][e.o].st # "failed"
              /\ ~(hstate[i][e.o].st = "sleeping" /\ hstate[i][e.o].until > e.t)

NewStore(i, e) ==
  IF e.type = "DELETED" \/ ~Runs(i, e) THEN NoVal
  ELSE LET r == e.out[i] IN
       CASE r.k = "dict" -> [has |-> TRUE, key |-> r.key, val |-> r.val]
         [] r.k = "scalar" -> [has |-> TRUE, key |-> "<none>", val |-> r.val]
         [] r.k \in {"none", "exc"} -> store[i][e.o]
         [] OTHER -> NoVal             \* temp, perm
NewH(i, e) ==
  IF e.type = "DELETED" THEN [st |-> "ok", until |-> 0]      \* the memory is forgotten with the object
  ELSE IF ~Runs(i, e) THEN hstate[i][e.o]
  ELSE LET r == e.out[i] IN
       CASE r.k = "temp" -> [st |-> "sleeping", until |-> e.t + r.d]
         [] r.k = "perm" -> [st |-> "failed", until |-> 0]
         [] OTHER -> [st |-> "ok", until |-> 0]

\* the reference contents of index i as [key -> set of values]
Keys(i, st) == {st[i][o].key : o \in {x \in Objs : st[i][x].has}}
Contents(i, st) == [k \in Keys(i, st) |-> {st[i][o].val : o \in {x \in Objs : st[i][x].has /\ st[i][x].key = k}}]
DumpOf(d, i) == [k \in DOMAIN d[i] |-> {d[i][k][n] : n \in DOMAIN d[i][k]}]

Step ==
  /\ l <= Len(T) /\ l' = l + 1 /\ UNCHANGED tid
  /\ store' = [i \in Idx |-> [store[i] EXCEPT ![E.o] = NewStore(i, E)]]
  /\ hstate' = [i \in Idx |-> [hstate[i] EXCEPT ![E.o] = NewH(i, E)]]
  /\ LET ranRef == {i \in Idx : Runs(i, E)}
         ranImpl == {E.ran[n] : n \in DOMAIN E.ran}
     IN verdict' = IF verdict # "ok" THEN verdict
                   ELSE IF ranRef # ranImpl THEN "wrong_index_handlers_ran"
                   ELSE IF \E i \in Idx : DumpOf(E.dump, i) # Contents(i, store') THEN "index_differs_from_reference"
                   ELSE "ok"
Spec == Init /\ [][Step]_vars

\* the readiness gate: [gate |-> [listed: time the last indexed kind finished listing, indexed: time the last initially
\*   listed object was indexed, first: time of the first change handler / daemon / timer invocation (0 = none), handled: n]]
GateVerdict(g) == IF g.first # 0 /\ (g.first < g.listed \/ g.first < g.indexed) THEN "handler_before_initial_index"
                  ELSE IF g.expect_handled /\ g.first = 0 THEN (IF g.limit # 0 /\ g.limit < g.nobjects THEN "F16" ELSE "nothing_handled")
                  ELSE "ok"
Book == IF l = Len(T) + 1
        THEN TLCSet(1, [TLCGet(1) EXCEPT ![tid] = IF verdict # "ok" THEN verdict ELSE GateVerdict(Traces[tid].gate)])
        ELSE TRUE
ASSUME TLCSet(1, [i \in 1..Len(Traces) |-> "incomplete"])
Verdicts == \A i \in 1..Len(Traces) : PrintT(<<"MONITOR", i, Traces[i].id, TLCGet(1)[i]>>)
=============================================================================
