---------------------------- MODULE Orchestration ----------------------------
(***************************************************************************)
(* kopf/_core/reactor/orchestration.py: the observers revise the insights  *)
(* (which (resource, namespace) pairs are served) under the `revised`      *)
(* condition and notify; the orchestrator holds that condition's lock      *)
(* except while it waits, and on every wake-up adjusts the watcher tasks:  *)
(* stop the redundant ones (awaiting them), forget their keys, spawn the   *)
(* missing ones.  A watcher may also die on its own (F15 / F25): its key   *)
(* stays in the ensemble, so nothing respawns it.                          *)
(* HoldLock = FALSE is the negative model (the lock is released while      *)
(* adjusting): a revision then finds nobody waiting and is lost.           *)
(***************************************************************************)
EXTENDS Naturals, FiniteSets, TLC
CONSTANTS Pairs, MaxRevisions, MaxDeaths, HoldLock
VARIABLES want,       \* the insights: pairs that are served now
          notified,   \* a notify_all() not yet consumed by a waiter
          waiting,    \* the orchestrator is inside revised.wait() (the lock is free)
          pc,         \* "wait" | "stop" | "spawn"
          tasks,      \* the ensemble: pair -> "live" | "stopping" | "dead"
          redundant,  \* keys being terminated in this adjustment
          nrev, ndead
vars == <<want, notified, waiting, pc, tasks, redundant, nrev, ndead>>

Init == /\ want = {} /\ notified = FALSE /\ waiting = TRUE /\ pc = "wait" /\ tasks = [p \in {} |-> "live"]
        /\ redundant = {} /\ nrev = 0 /\ ndead = 0
LockFree == waiting \/ ~HoldLock
\* an observer: async with insights.revised: <revise>; notify_all()  -- a notification reaches only a task that is waiting
Revise(w) == /\ LockFree /\ nrev < MaxRevisions /\ w # want /\ nrev' = nrev + 1
             /\ want' = w /\ notified' = (notified \/ waiting)
             /\ UNCHANGED <<waiting, pc, tasks, redundant, ndead>>
Wake == /\ pc = "wait" /\ waiting /\ notified
        /\ notified' = FALSE /\ waiting' = FALSE
        /\ redundant' = {p \in DOMAIN tasks : p \notin want}
        /\ tasks' = [p \in DOMAIN tasks |-> IF p \notin want /\ tasks[p] = "live" THEN "stopping" ELSE tasks[p]]
        /\ pc' = "stop" /\ UNCHANGED <<want, nrev, ndead>>
Stopped(p) == /\ pc = "stop" /\ p \in DOMAIN tasks /\ tasks[p] = "stopping"
              /\ tasks' = [tasks EXCEPT ![p] = "dead"] /\ UNCHANGED <<want, notified, waiting, pc, redundant, nrev, ndead>>
Forget == /\ pc = "stop" /\ \A p \in redundant : tasks[p] # "stopping"
          /\ tasks' = [p \in DOMAIN tasks \ redundant |-> tasks[p]] /\ redundant' = {} /\ pc' = "spawn"
          /\ UNCHANGED <<want, notified, waiting, nrev, ndead>>
Spawn == /\ pc = "spawn"
         /\ tasks' = [p \in DOMAIN tasks \cup want |-> IF p \in DOMAIN tasks THEN tasks[p] ELSE "live"]
         /\ pc' = "wait" /\ waiting' = TRUE /\ UNCHANGED <<want, notified, redundant, nrev, ndead>>
\* what the code does (F15, F25): a watcher ends on its own; its key stays
Dies(p) == /\ p \in DOMAIN tasks /\ tasks[p] = "live" /\ ndead < MaxDeaths /\ ndead' = ndead + 1
           /\ tasks' = [tasks EXCEPT ![p] = "dead"] /\ UNCHANGED <<want, notified, waiting, pc, redundant, nrev>>
Next == (\E w \in SUBSET Pairs : Revise(w)) \/ Wake \/ (\E p \in Pairs : Stopped(p) \/ Dies(p)) \/ Forget \/ Spawn
Spec == Init /\ [][Next]_vars /\ WF_vars(Wake \/ Forget \/ Spawn \/ \E p \in Pairs : Stopped(p))

Live == {p \in DOMAIN tasks : tasks[p] = "live"}
AtRest == pc = "wait" /\ ~notified
\* exactly the served pairs are watched whenever the orchestrator is at rest (no death of a watcher on its own)
Coverage == (AtRest /\ ndead = 0) => Live = want
\* (nothing is watched twice: the ensemble is a mapping from pairs to tasks)
EventuallyCovered == <>[](ndead = 0 => Live = want)
NoFamily == ~(AtRest /\ ndead > 0 /\ Live # want)
\* the state without the bookkeeping counter: with it as VIEW, TLC covers ANY number of revisions (the rest is finite)
NoCount == <<want, notified, waiting, pc, tasks, redundant, ndead>>
Family_F15F25 == AtRest /\ ndead > 0 /\ Live # want
=============================================================================
