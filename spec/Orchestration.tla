---------------------------- MODULE Orchestration ----------------------------
(***************************************************************************)
(* kopf/_core/reactor/orchestration.py + observation.py: the observers     *)
(* revise the insights -- the set of watched resource kinds and the set of *)
(* served namespaces -- under the `revised` condition and notify; the      *)
(* orchestrator holds that condition's lock except while it waits, and on  *)
(* every wake-up adjusts the watcher tasks (adjust_tasks):                 *)
(*   terminate_redundancies   stop (and await) the tasks whose namespace   *)
(*       is not in namespaces + {None} or whose resource is gone, then     *)
(*       forget their keys;                                                *)
(*   spawn_missing_watchers   for every (resource, namespace) of the       *)
(*       product -- the namespace None for a cluster-scoped resource --    *)
(*       that has no task under its key: spawn one.                        *)
(* A task is keyed <<resource, namespace>>; "*" stands for None (cluster-  *)
(* wide, or a cluster-scoped kind).  A watcher may also die on its own     *)
(* (F15 / F25 / F32): its key stays in the ensemble, so nothing respawns   *)
(* it.  Because None always counts as a remaining namespace, the watch of  *)
(* a cluster-scoped kind survives the last served namespace, although it   *)
(* would not be spawned without one (F34).                                 *)
(* HoldLock = FALSE is the negative model (the lock is released while      *)
(* adjusting): a revision then finds nobody waiting and is lost.           *)
(***************************************************************************)
EXTENDS Naturals, FiniteSets, TLC
CONSTANTS Res, Nss,          \* resource kinds, namespaces
          ClusterScoped,     \* the cluster-scoped ones among Res
          MaxRevisions, MaxDeaths, HoldLock
VARIABLES res, nss,   \* the insights: watched resources, served namespaces
          notified,   \* a notify_all() not yet consumed by a waiter
          waiting,    \* the orchestrator is inside revised.wait() (the lock is free)
          pc,         \* "wait" | "stop" | "spawn"
          tasks,      \* the ensemble: key -> "live" | "stopping" | "dead"
          redundant,  \* keys being terminated in this adjustment
          nrev, ndead
vars == <<res, nss, notified, waiting, pc, tasks, redundant, nrev, ndead>>

KeyOf(r, n) == <<r, IF r \in ClusterScoped THEN "*" ELSE n>>
\* what spawn_missing_watchers iterates over
Spawnable(R, N) == {KeyOf(r, n) : r \in R, n \in N}
\* what terminate_redundancies keeps
Kept(R, N, k) == k[1] \in R /\ (k[2] = "*" \/ k[2] \in N)
\* what the property calls served: a cluster-scoped kind is served as long as some namespace is
Served == Spawnable(res, nss)

Init == /\ res = {} /\ nss = {} /\ notified = FALSE /\ waiting = TRUE /\ pc = "wait" /\ tasks = [p \in {} |-> "live"]
        /\ redundant = {} /\ nrev = 0 /\ ndead = 0
LockFree == waiting \/ ~HoldLock
\* an observer: async with insights.revised: <revise>; notify_all()  -- a notification reaches only a task that is waiting
Revise(R, N) == /\ LockFree /\ nrev < MaxRevisions /\ <<R, N>> # <<res, nss>> /\ nrev' = nrev + 1
                /\ res' = R /\ nss' = N /\ notified' = (notified \/ waiting)
                /\ UNCHANGED <<waiting, pc, tasks, redundant, ndead>>
Wake == /\ pc = "wait" /\ waiting /\ notified
        /\ notified' = FALSE /\ waiting' = FALSE
        /\ redundant' = {k \in DOMAIN tasks : ~Kept(res, nss, k)}
        /\ tasks' = [k \in DOMAIN tasks |-> IF ~Kept(res, nss, k) /\ tasks[k] = "live" THEN "stopping" ELSE tasks[k]]
        /\ pc' = "stop" /\ UNCHANGED <<res, nss, nrev, ndead>>
Stopped(k) == /\ pc = "stop" /\ k \in DOMAIN tasks /\ tasks[k] = "stopping"
              /\ tasks' = [tasks EXCEPT ![k] = "dead"] /\ UNCHANGED <<res, nss, notified, waiting, pc, redundant, nrev, ndead>>
Forget == /\ pc = "stop" /\ \A k \in redundant : tasks[k] # "stopping"
          /\ tasks' = [k \in DOMAIN tasks \ redundant |-> tasks[k]] /\ redundant' = {} /\ pc' = "spawn"
          /\ UNCHANGED <<res, nss, notified, waiting, nrev, ndead>>
Missing == Spawnable(res, nss) \ DOMAIN tasks
SpawnOne(k) == /\ pc = "spawn" /\ k \in Missing
               /\ tasks' = [x \in DOMAIN tasks \cup {k} |-> IF x = k THEN "live" ELSE tasks[x]]
               /\ UNCHANGED <<res, nss, notified, waiting, pc, redundant, nrev, ndead>>
Rest == /\ pc = "spawn" /\ Missing = {} /\ pc' = "wait" /\ waiting' = TRUE
        /\ UNCHANGED <<res, nss, notified, tasks, redundant, nrev, ndead>>
\* what the code does (F15, F25, F32): a watcher ends on its own; its key stays
Dies(k) == /\ k \in DOMAIN tasks /\ tasks[k] = "live" /\ ndead < MaxDeaths /\ ndead' = ndead + 1
           /\ tasks' = [tasks EXCEPT ![k] = "dead"] /\ UNCHANGED <<res, nss, notified, waiting, pc, redundant, nrev>>
Keys == {KeyOf(r, n) : r \in Res, n \in Nss}
Next == (\E R \in SUBSET Res : \E N \in SUBSET Nss : Revise(R, N)) \/ Wake \/ (\E k \in Keys : Stopped(k) \/ Dies(k) \/ SpawnOne(k)) \/ Forget \/ Rest
Spec == Init /\ [][Next]_vars /\ WF_vars(Wake \/ Forget \/ Rest \/ \E k \in Keys : Stopped(k) \/ SpawnOne(k))

Live == {k \in DOMAIN tasks : tasks[k] = "live"}
AtRest == pc = "wait" /\ ~notified
\* F34: the watches of cluster-scoped kinds that outlive the last served namespace
Family_F34 == nss = {} /\ Live # {} /\ \A k \in Live : k[1] \in ClusterScoped /\ k[1] \in res
\* exactly the served pairs are watched whenever the orchestrator is at rest (no death of a watcher on its own)
Coverage == (AtRest /\ ndead = 0) => (Live = Served \/ Family_F34)
NoF34 == ~(AtRest /\ ndead = 0 /\ Family_F34)
\* (nothing is watched twice: the ensemble is a mapping from keys to tasks)
EventuallyCovered == <>[](ndead = 0 => (Live = Served \/ Family_F34))
NoFamily == ~(AtRest /\ ndead > 0 /\ Live # Served)
\* the state without the bookkeeping counter: with it as VIEW, TLC covers ANY number of revisions (the rest is finite)
NoCount == <<res, nss, notified, waiting, pc, tasks, redundant, ndead>>
Family_F15F25 == AtRest /\ ndead > 0 /\ Live # Served
=============================================================================
