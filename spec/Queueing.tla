----------------------------- MODULE Queueing -----------------------------
(***************************************************************************)
(* C01: the per-object multiplexer of kopf/_core/reactor/queueing.py and   *)
(* the fire-and-forget scheduler of kopf/_cogs/aiokits/aiotasks.py.        *)
(*                                                                         *)
(* One action per code section between two real suspension points:         *)
(*   Wire(o)            the API server releases the next event of object o *)
(*   WatcherRecv(o)     watcher(): put into an existing backlog, or create *)
(*                      entry + put + enqueue the worker job (atomic: no   *)
(*                      await between the KeyError and the insertion)      *)
(*   SchedStart         Scheduler._task_spawner starts a pending job while *)
(*                      the number of running jobs is below the limit      *)
(*   WorkerHead(o)      loop head: wait_for(backlog.get()) returns at once *)
(*                      if something is queued, otherwise the worker waits *)
(*   WorkerGet(o)       the waiting worker is woken by put()               *)
(*   WorkerTimeoutFire  the wait_for deadline passes -- enabled whether or *)
(*                      not the backlog has just been filled               *)
(*   WorkerTimeoutHandle  `if backlog.empty(): break else: continue`; the  *)
(*                      break, `del streams[key]` included, is atomic      *)
(*   ProcEnd(o)         the processor returns                              *)
(*   WorkerGone(o)      the task ends, the scheduler slot is released      *)
(*   WatcherCancel      the stream ends: EOS into every existing backlog   *)
(*   WatcherClose       depletion finished or exit_timeout passed:         *)
(*                      scheduler.close() cancels whatever is left         *)
(*   WorkerCancelled(o) a cancelled worker runs its `finally`              *)
(* Events of one object are numbered 1, 2, ... in the order of the wire.   *)
(***************************************************************************)
EXTENDS Naturals, Sequences, FiniteSets, TLC

CONSTANTS Objs,       \* object keys
          MaxEv,      \* events per object (environment budget)
          Limit,      \* settings.queueing.worker_limit; 0 = unlimited
          Recheck     \* TRUE = the code as written; FALSE = the mutant without `if backlog.empty()`

EOS == 0

VARIABLES wire,      \* [o -> sequence of event numbers released by the server, not yet taken by the watcher]
          sentw,     \* [o -> number of events released so far]                    (also the id generator)
          has,       \* [o -> BOOLEAN]  streams[key] exists
          backlog,   \* [o -> sequence of event numbers / EOS]  streams[key].backlog
          pressure,  \* [o -> BOOLEAN]  streams[key].pressure
          pend,      \* scheduler: FIFO of jobs not yet started
          running,   \* [o -> number of started, unfinished worker tasks of o (incl. exiting ones)]
          wpc,       \* [o -> "none" | "queued" | "head" | "wait" | "timedout" | "proc"]
          cur,       \* [o -> event being processed, or 0]
          ndone,     \* [o -> number of events fully processed]       (ghost)
          exiting,   \* [o -> number of worker tasks past `del streams[key]` but not yet finished]
          watcher    \* "run" | "depleting" | "closed"
vars == <<wire, sentw, has, backlog, pressure, pend, running, wpc, cur, ndone, exiting, watcher>>

Init == /\ wire = [o \in Objs |-> <<>>] /\ sentw = [o \in Objs |-> 0]
        /\ has = [o \in Objs |-> FALSE] /\ backlog = [o \in Objs |-> <<>>]
        /\ pressure = [o \in Objs |-> FALSE]
        /\ pend = <<>> /\ running = [o \in Objs |-> 0]
        /\ wpc = [o \in Objs |-> "none"] /\ cur = [o \in Objs |-> 0] /\ ndone = [o \in Objs |-> 0]
        /\ exiting = [o \in Objs |-> 0] /\ watcher = "run"

RECURSIVE SumOver(_, _)
SumOver(f, S) == IF S = {} THEN 0 ELSE LET x == CHOOSE x \in S : TRUE IN f[x] + SumOver(f, S \ {x})
NRunning == SumOver(running, Objs)
Active == {"head", "wait", "timedout", "proc"}

\* ---- environment: the server releases one more event of o to this watch stream
Wire(o) ==
  /\ watcher = "run" /\ sentw[o] < MaxEv
  /\ sentw' = [sentw EXCEPT ![o] = @ + 1]
  /\ wire' = [wire EXCEPT ![o] = Append(@, sentw[o] + 1)]
  /\ UNCHANGED <<has, backlog, pressure, pend, running, wpc, cur, ndone, exiting, watcher>>

\* ---- watcher(): one raw event of object o leaves the stream and enters the multiplexer
WatcherRecv(o) ==
  /\ watcher = "run" /\ wire[o] # <<>>
  /\ wire' = [wire EXCEPT ![o] = Tail(@)]
  /\ pressure' = [pressure EXCEPT ![o] = TRUE]
  /\ backlog' = [backlog EXCEPT ![o] = Append(@, Head(wire[o]))]
  /\ IF has[o]
     THEN UNCHANGED <<has, pend, wpc>>
     ELSE /\ has' = [has EXCEPT ![o] = TRUE]
          /\ pend' = Append(pend, o) /\ wpc' = [wpc EXCEPT ![o] = "queued"]
  /\ UNCHANGED <<sentw, running, cur, ndone, exiting, watcher>>

\* ---- Scheduler._task_spawner
CanSpawn == pend # <<>> /\ (Limit = 0 \/ NRunning < Limit)
SchedStart ==
  /\ CanSpawn
  /\ LET o == Head(pend) IN
     /\ pend' = Tail(pend)
     /\ IF watcher = "closed"     \* spawned and instantly cancelled: the coroutine body never runs
        THEN /\ wpc' = [wpc EXCEPT ![o] = "none"] /\ UNCHANGED <<running, has, backlog>>
        ELSE /\ wpc' = [wpc EXCEPT ![o] = "head"] /\ running' = [running EXCEPT ![o] = @ + 1]
             /\ UNCHANGED <<has, backlog>>
  /\ UNCHANGED <<wire, sentw, pressure, cur, ndone, exiting, watcher>>

\* ---- worker(): `break` ... `finally: del streams[key]` is one atomic section
Leave(o) == /\ has' = [has EXCEPT ![o] = FALSE] /\ backlog' = [backlog EXCEPT ![o] = <<>>]
            /\ wpc' = [wpc EXCEPT ![o] = "none"] /\ exiting' = [exiting EXCEPT ![o] = @ + 1]

Take(o) ==  \* pop the head of the backlog: an event or the EOS marker
  LET e == Head(backlog[o]) IN
  IF e = EOS THEN Leave(o) /\ UNCHANGED <<cur, pressure>>
  ELSE /\ backlog' = [backlog EXCEPT ![o] = Tail(@)] /\ cur' = [cur EXCEPT ![o] = e]
       /\ pressure' = [pressure EXCEPT ![o] = IF Tail(backlog[o]) = <<>> THEN FALSE ELSE @]
       /\ wpc' = [wpc EXCEPT ![o] = "proc"] /\ UNCHANGED <<has, exiting>>

WorkerHead(o) ==
  /\ wpc[o] = "head"
  /\ IF backlog[o] # <<>> THEN Take(o)
     ELSE wpc' = [wpc EXCEPT ![o] = "wait"] /\ UNCHANGED <<backlog, has, cur, exiting, pressure>>
  /\ UNCHANGED <<wire, sentw, pend, running, ndone, watcher>>

WorkerGet(o) ==
  /\ wpc[o] = "wait" /\ backlog[o] # <<>> /\ Take(o)
  /\ UNCHANGED <<wire, sentw, pend, running, ndone, watcher>>

WorkerTimeoutFire(o) ==
  /\ wpc[o] = "wait" /\ wpc' = [wpc EXCEPT ![o] = "timedout"]
  /\ UNCHANGED <<wire, sentw, has, backlog, pressure, pend, running, cur, ndone, exiting, watcher>>

WorkerTimeoutHandle(o) ==
  /\ wpc[o] = "timedout"
  /\ IF backlog[o] = <<>> \/ ~Recheck
     THEN Leave(o)
     ELSE wpc' = [wpc EXCEPT ![o] = "head"] /\ UNCHANGED <<backlog, has, exiting>>
  /\ UNCHANGED <<wire, sentw, pressure, pend, running, cur, ndone, watcher>>

ProcEnd(o) ==
  /\ wpc[o] = "proc" /\ ndone' = [ndone EXCEPT ![o] = @ + 1] /\ cur' = [cur EXCEPT ![o] = 0]
  /\ wpc' = [wpc EXCEPT ![o] = "head"]
  /\ UNCHANGED <<wire, sentw, has, backlog, pressure, pend, running, exiting, watcher>>

WorkerGone(o) ==
  /\ exiting[o] > 0 /\ exiting' = [exiting EXCEPT ![o] = @ - 1] /\ running' = [running EXCEPT ![o] = @ - 1]
  /\ UNCHANGED <<wire, sentw, has, backlog, pressure, pend, wpc, cur, ndone, watcher>>

\* ---- shutdown of the watcher
WatcherCancel ==
  /\ watcher = "run" /\ watcher' = "depleting"
  /\ backlog' = [o \in Objs |-> IF has[o] THEN Append(backlog[o], EOS) ELSE backlog[o]]
  /\ UNCHANGED <<wire, sentw, has, pressure, pend, running, wpc, cur, ndone, exiting>>

WatcherClose ==
  /\ watcher = "depleting" /\ watcher' = "closed"
  /\ UNCHANGED <<wire, sentw, has, backlog, pressure, pend, running, wpc, cur, ndone, exiting>>

WorkerCancelled(o) ==
  /\ watcher = "closed" /\ wpc[o] \in Active
  /\ Leave(o) /\ cur' = [cur EXCEPT ![o] = 0]
  /\ UNCHANGED <<wire, sentw, pressure, pend, running, ndone, watcher>>

WorkerNext(o) == WorkerHead(o) \/ WorkerGet(o) \/ WorkerTimeoutHandle(o) \/ ProcEnd(o) \/ WorkerGone(o)
                 \/ WorkerCancelled(o)
\* what the operator does without waiting for time or for the environment
Urgent == SchedStart \/ \E o \in Objs : WatcherRecv(o) \/ WorkerHead(o) \/ WorkerGet(o)
                                         \/ WorkerTimeoutHandle(o) \/ WorkerGone(o) \/ WorkerCancelled(o)
OpNext == SchedStart \/ \E o \in Objs : WatcherRecv(o) \/ WorkerNext(o)
Next == OpNext \/ (\E o \in Objs : Wire(o) \/ WorkerTimeoutFire(o)) \/ WatcherCancel \/ WatcherClose
Spec == Init /\ [][Next]_vars /\ WF_vars(OpNext) /\ WF_vars(\E o \in Objs : WorkerTimeoutFire(o))
SafeSpec == Init /\ [][Next]_vars

\* ---- properties (C01)
Serial         == \A o \in Objs : wpc[o] = "proc" <=> cur[o] # 0
InOrder        == \A o \in Objs : cur[o] # 0 => cur[o] = ndone[o] + 1     \* no skip, no duplicate, in order
EntryIffWorker == watcher # "closed" => \A o \in Objs : has[o] <=> wpc[o] # "none"
BacklogHasWorker == watcher # "closed" => \A o \in Objs : backlog[o] # <<>> => wpc[o] # "none"
LimitRespected == Limit = 0 \/ NRunning <= Limit
LimitOnly      == CanSpawn => ENABLED SchedStart       \* queued workers wait for nothing but the limit
Quiet          == ~ENABLED OpNext
TrueQuiet      == Quiet /\ \A o \in Objs : wpc[o] # "wait"
StrictNoLoss   == (watcher = "run" /\ TrueQuiet) =>
                    \A o \in Objs : ndone[o] = sentw[o] /\ backlog[o] = <<>> /\ ~has[o]
AllProcessed   == \A o \in Objs : ndone[o] = sentw[o] /\ wire[o] = <<>>
Progress       == \A o \in Objs : [](watcher = "run" => (ndone[o] < sentw[o] ~> (ndone[o] = sentw[o] \/ watcher # "run")))
=============================================================================
