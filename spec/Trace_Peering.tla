--------------------------- MODULE Trace_Peering ---------------------------
(***************************************************************************)
(* Trace validation for Peering.tla: executions of 1-3 real operators that *)
(* share a peering object in the fake API, in virtual time.                *)
(*   start/stop/kill/down(o)     lifecycle of the operator processes       *)
(*   write(actor, after)         every PATCH of the peering object with    *)
(*                               the full status after it (ttl = deadline  *)
(*                               minus the instant of the event)           *)
(*   eval(o, dead, prio, same, paused, after)   the peer.eval hook, with   *)
(*                               the clean() request folded in             *)
(*   list/watch(o), inv(o, ct), dstart/dexit(o)   activity on the handled  *)
(*                               resource: requests, handler invocations   *)
(*                               (ct = commit instant of the handled       *)
(*                               version), daemon instances                *)
(*   quiet(watching)             the world is at rest                      *)
(* A trace is accepted iff a behaviour of Peering explains it with every   *)
(* invariant true and no urgent step pending when time advances.           *)
(***************************************************************************)
EXTENDS Peering, Sequences, Json, IOUtils, TLCExt
Traces == JsonDeserialize(IOEnv.TRACE_FILE)
CONSTANT Grace
VARIABLES tid, l, now, since, dcount, dlive, lsr, bad
tvars == <<vars, tid, l, now, since, dcount, dlive, lsr, bad>>
T == Traces[tid].events
E == T[l]
ToSet(s) == {s[i] : i \in DOMAIN s}

TInit == /\ tid \in 1..Len(Traces) /\ l = 1 /\ now = 0 /\ bad = "none"
         /\ Init0(Traces[tid].conf)
         /\ since = [o \in Ops |-> -1] /\ dcount = [o \in Ops |-> 0] /\ dlive = {} /\ lsr = [o \in Ops |-> FALSE]
Ev(e) == l <= Len(T) /\ E.ev = e /\ E.t = now /\ l' = l + 1 /\ UNCHANGED <<tid, now>>
Quietly == UNCHANGED <<dcount, dlive>>

TStart == Ev("start") /\ Start(E.o) /\ Quietly
TStop  == Ev("stop") /\ Stop(E.o) /\ Quietly
TKill  == Ev("kill") /\ Kill(E.o) /\ dcount' = [dcount EXCEPT ![E.o] = 0] /\ dlive' = {d \in dlive : d[1] # E.o}
TDown  == Ev("down") /\ Quietly /\ IF ENABLED Down(E.o) THEN Down(E.o) ELSE Kill(E.o)    \* returned without withdrawing: see StepBad
\* (an operator that withdraws its record without having been asked to stop has failed: explained as Stop . Withdraw, see StepBad)
SelfStop(o) == st[o] = "up" /\ E.after[o] = NoRec /\ status[o] # NoRec /\ Stop(o)
TWrite == /\ Ev("write") /\ E.actor \in Ops /\ Quietly
          /\ (Keepalive(E.actor) \/ DeadlineWake(E.actor) \/ Withdraw(E.actor)) /\ status' = E.after /\ ver' = E.ver
\* a silent step: the write itself is consumed next, as Withdraw
TSelfStop == /\ l <= Len(T) /\ E.ev = "write" /\ E.t = now /\ E.actor \in Ops /\ SelfStop(E.actor)
             /\ UNCHANGED <<tid, now, l>> /\ Quietly
TExt   == /\ Ev("write") /\ E.actor = "ext" /\ Quietly
          /\ \E i \in Ext_ : Ext(i, E.after[i])
          /\ status' = E.after /\ ver' = E.ver
TEval  == /\ Ev("eval") /\ Quietly
          /\ \E j \in 1..Len(q[E.o]) :
                /\ q[E.o][j].ver = E.ver /\ ObserveAt(E.o, j)
                /\ LET s == q[E.o][j].st IN ToSet(E.dead) = Dead(s) /\ ToSet(E.prio) = PrioOf(s, E.o) /\ ToSet(E.same) = SameOf(s, E.o)
          /\ paused'[E.o] = E.paused /\ status' = E.after
\* ... or the end of an evaluation whose clean() travelled (the beginning was a silent step)
TEvalEnd == /\ Ev("eval") /\ Quietly /\ mid[E.o].on /\ mid[E.o].ver = E.ver
            /\ ObserveEnd(E.o)
            /\ ToSet(E.dead) = mid[E.o].dead /\ ToSet(E.prio) \cup ToSet(E.same) = mid[E.o].block
            /\ paused'[E.o] = E.paused /\ status' = E.after
TBegin == /\ l <= Len(T) /\ \E o \in Ops : \E j \in 1..Len(q[o]) : ObserveBegin(o, j)
          /\ UNCHANGED <<tid, now, l>> /\ Quietly

\* activity on the handled resource: no change of the peering state
Label(cond, name) == IF cond /\ bad = "none" THEN name ELSE "none"
TList  == Ev("list") /\ UNCHANGED vars /\ Quietly
TWatch == Ev("watch") /\ UNCHANGED vars /\ Quietly
TInv   == Ev("inv") /\ UNCHANGED vars /\ Quietly
TDStart == Ev("dstart") /\ UNCHANGED vars /\ dcount' = [dcount EXCEPT ![E.o] = @ + 1] /\ dlive' = dlive \cup {<<E.o, E.name>>}
TDExit  == Ev("dexit") /\ UNCHANGED vars /\ dcount' = [dcount EXCEPT ![E.o] = IF @ > 0 THEN @ - 1 ELSE 0] /\ dlive' = dlive \ {<<E.o, E.name>>}
TQuiet == Ev("quiet") /\ ~Urgent /\ UNCHANGED vars /\ Quietly

Advance == /\ l <= Len(T) /\ E.t > now /\ Tick /\ now' = now + 1 /\ UNCHANGED <<tid, l>> /\ Quietly

Distinct == \A o, p \in Ops : (o # p /\ st[o] = "up" /\ st[p] = "up") => conf.prio[o] # conf.prio[p]
NoLiveExt == \A i \in Ext_ : EffTtl(status[i]) <= 0
\* verdict of the step just taken (evaluated on the event and the state it was taken in)
StepBad ==
  IF l' = l THEN (IF \E o \in Ops : st[o] = "up" /\ st'[o] = "exiting" THEN "operator_exited_without_being_asked" ELSE "none")
  ELSE CASE E.ev = "down" /\ st[E.o] = "up" -> "operator_exited_without_being_asked"
         [] E.ev = "down" /\ st[E.o] = "exiting" /\ ~(wd[E.o] \/ ~touched[E.o]) -> "record_left_behind_after_graceful_exit"
         [] E.ev \in {"list", "watch"} /\ paused[E.o] /\ since[E.o] >= 0 /\ since[E.o] < now -> "listed_or_watched_while_paused"
         [] E.ev = "watch" /\ ~lsr[E.o] -> "resumed_without_a_fresh_listing"
         [] E.ev = "dstart" /\ <<E.o, E.name>> \in dlive -> "two_instances_of_a_daemon_at_once"      \* C09: the previous one has not ended
         [] E.ev = "inv" /\ paused[E.o] /\ since[E.o] >= 0 /\ E.ct > since[E.o] -> "handled_a_change_committed_after_pausing"
         [] E.ev = "quiet" /\ ~Stable -> "not_paused_or_not_resumed_at_rest"
         [] E.ev = "quiet" /\ Distinct /\ NoLiveExt /\ ActiveOps # Tops -> "the_top_operator_is_not_the_active_one"
         [] E.ev = "quiet" /\ ~NoDeadLeft -> "dead_record_not_cleaned"
         [] E.ev = "quiet" /\ \E o \in Ops : st[o] = "up" /\ (E.watching[o] <=> paused[o]) -> "streams_do_not_follow_the_pause"
         \* being the active one means doing the work: after the resume and its fresh listing every object has its daemon again
         [] E.ev = "quiet" /\ E.objs >= 0 /\ \E o \in Ops : st[o] = "up" /\ ~paused[o] /\ lsr[o] /\ dcount[o] # E.objs -> "the_active_operator_does_not_run_its_daemons"
         [] OTHER -> "none"
StateBad ==
  IF ~RenewsInTime' THEN "record_expired_while_running"
  ELSE IF ~WithdrawsOnExit' THEN "record_left_behind_after_graceful_exit"
  ELSE IF Family_F26' /\ ~Family_F26 THEN "F26"
  ELSE IF Family_F27' /\ ~Family_F27 THEN "F27"
  ELSE IF \E o \in Ops : paused'[o] /\ since'[o] >= 0 /\ now' - since'[o] > Grace /\ dcount'[o] > 0 /\ ~Traces[tid].dsync THEN "daemon_alive_while_paused"
  ELSE "none"

TNext == /\ (TStart \/ TStop \/ TKill \/ TDown \/ TWrite \/ TSelfStop \/ TExt \/ TEval \/ TEvalEnd \/ TBegin \/ TList \/ TWatch \/ TInv \/ TDStart \/ TDExit \/ TQuiet \/ Advance)
         /\ since' = [o \in Ops |-> IF paused'[o] /\ ~paused[o] THEN now ELSE IF ~paused'[o] THEN -1 ELSE since[o]]
         /\ bad' = (IF bad # "none" THEN bad ELSE IF StepBad # "none" THEN StepBad ELSE StateBad)
         \* the streams are re-listed after every resume: the listing is forgotten while paused or down
         \* (an operator that was asked to stop still works until its streams are closed: a resume then lists and watches, too)
         /\ lsr' = [o \in Ops |-> IF paused'[o] \/ st'[o] = "down" THEN FALSE
                                  ELSE IF l' # l /\ E.ev = "list" /\ E.o = o THEN TRUE ELSE lsr[o]]
TSpec == TInit /\ [][TNext]_tvars

Max2(a, b) == IF a >= b THEN a ELSE b
Book == /\ TLCSet(3, [TLCGet(3) EXCEPT ![tid] = Max2(@, l)])
        /\ IF bad = "none" THEN TLCSet(1, [TLCGet(1) EXCEPT ![tid] = Max2(@, l)])
           ELSE IF l >= TLCGet(3)[tid] THEN TLCSet(2, [TLCGet(2) EXCEPT ![tid] = bad]) ELSE TRUE
ASSUME TLCSet(1, [i \in 1..Len(Traces) |-> 0]) /\ TLCSet(3, [i \in 1..Len(Traces) |-> 0]) /\ TLCSet(2, [i \in 1..Len(Traces) |-> "none"])
Verdicts == \A i \in 1..Len(Traces) :
     PrintT(<<"VERDICT", i, Traces[i].id, TLCGet(1)[i] - 1, TLCGet(3)[i] - 1, Len(Traces[i].events), TLCGet(2)[i]>>)
=============================================================================
