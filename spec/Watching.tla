----------------------------- MODULE Watching -----------------------------
(***************************************************************************)
(* C19 (continuity): clients/watching.py -- infinite_watch / continuous_   *)
(* watch / watch_objs for ONE resource against a server change log.        *)
(*   srv      number of changes committed so far (versions 1..srv)         *)
(*   phase    "idle" | "watching" | "backoff" | "paused" | "dead"          *)
(*   since    the version the current/next watch request resumes from      *)
(*   sent     the version up to which the server has streamed on this      *)
(*            connection                                                    *)
(*   got      the set of versions yielded to the consumer                  *)
(*   base     the version of the last listing (everything <= base is       *)
(*            covered by that listing)                                      *)
(* Faults: EOF / connection error / timeouts (resume from `since`), 410    *)
(* (re-list), unknown ERROR (fatal), BOOKMARK (advances `since`), requests *)
(* that give up after their retries (429: re-list; 5xx / 403: fatal).      *)
(* RememberAfterYield = TRUE: the version is recorded only after the       *)
(* consumer took the event (duplicates, no loss); EagerBookmark = TRUE: a   *)
(* resume version ahead of what was streamed (the negative configuration:   *)
(* changes are skipped).                                                    *)
(***************************************************************************)
EXTENDS Naturals, FiniteSets, TLC
CONSTANTS MaxChanges, MaxFaults, RememberAfterYield, EagerBookmark
VARIABLES srv, phase, since, sent, got, base, faults, compacted
vars == <<srv, phase, since, sent, got, base, faults, compacted>>

Init == srv = 0 /\ phase = "idle" /\ since = 0 /\ sent = 0 /\ got = {} /\ base = 0 /\ faults = 0 /\ compacted = 0

Change == srv < MaxChanges /\ srv' = srv + 1 /\ UNCHANGED <<phase, since, sent, got, base, faults, compacted>>
List == /\ phase = "idle" /\ phase' = "watching" /\ base' = srv /\ since' = srv /\ sent' = srv
        /\ UNCHANGED <<srv, got, faults, compacted>>
Stream ==     \* the server streams the next change; the client yields it and remembers its version
  /\ phase = "watching" /\ sent < srv
  /\ sent' = sent + 1 /\ got' = got \cup {sent + 1}
  /\ since' = IF RememberAfterYield THEN since ELSE sent + 1
  /\ UNCHANGED <<srv, phase, base, faults, compacted>>
Ack ==        \* (mutant only) the consumer has taken the event: now the version is remembered
  /\ RememberAfterYield /\ phase = "watching" /\ since < sent /\ since' = sent
  /\ UNCHANGED <<srv, phase, sent, got, base, faults, compacted>>
Bookmark == /\ phase = "watching" /\ (sent = srv \/ EagerBookmark) /\ since' = srv /\ UNCHANGED <<srv, phase, sent, got, base, faults, compacted>>
Disconnect == \* EOF, connection error, client/server/inactivity timeout: reconnect and resume from `since`
  /\ phase = "watching" /\ faults < MaxFaults /\ faults' = faults + 1
  /\ IF since < compacted THEN phase' = "idle" /\ UNCHANGED <<since, sent>>       \* 410 on resume: re-list
     ELSE sent' = since /\ UNCHANGED <<phase, since>>
  /\ UNCHANGED <<srv, got, base, compacted>>
Compact == /\ compacted < srv /\ faults < MaxFaults /\ compacted' = srv /\ faults' = faults + 1
           /\ UNCHANGED <<srv, phase, since, sent, got, base>>
UnknownError == /\ phase = "watching" /\ faults < MaxFaults /\ faults' = faults + 1 /\ phase' = "dead"
                /\ UNCHANGED <<srv, since, sent, got, base, compacted>>
\* a list or watch request that gives up after its retries: a 429 (and a transport error of the listing) is swallowed by
\* infinite_watch - back off, then start over with a listing; a 5xx / 403 is not: the watcher dies of it (family F32)
Escalated429 == /\ phase \in {"idle", "watching"} /\ faults < MaxFaults /\ faults' = faults + 1 /\ phase' = "idle"
                /\ UNCHANGED <<srv, since, sent, got, base, compacted>>
EscalatedOther == /\ phase \in {"idle", "watching"} /\ faults < MaxFaults /\ faults' = faults + 1 /\ phase' = "dead"
                  /\ UNCHANGED <<srv, since, sent, got, base, compacted>>
Next == Change \/ List \/ Stream \/ Ack \/ Bookmark \/ Disconnect \/ Compact \/ UnknownError \/ Escalated429 \/ EscalatedOther
Spec == Init /\ [][Next]_vars

\* every change up to `sent` has reached the consumer or is covered by a listing taken at or after it
Covered(v) == v \in got \/ v <= base
NoSkip == \A v \in 1..srv : v <= sent => Covered(v)
SinceNeverAhead == \A v \in 1..since : Covered(v)
AllReach == (phase = "watching" /\ sent = srv) => \A v \in 1..srv : Covered(v)
=============================================================================
