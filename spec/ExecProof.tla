----------------------------- MODULE ExecProof -----------------------------
EXTENDS Execution, TLAPS
ConfOK(c) == c \in [timeout : Int, retries : Int, backoff : Int, mode : STRING, defbackoff : Int]
StateOK(s) == s \in [runtime : Int, retries : Int]
ResOK(r) == r \in [kind : {"ok", "perm", "exc", "temp"}, delay : Int]

THEOREM NeverBeyondAll == \A c, s, r : ConfOK(c) /\ StateOK(s) /\ ResOK(r) => Law_NeverBeyond(c, s, r)
  BY DEF Law_NeverBeyond, Expected, Failed, TimedOut, Exhausted, ConfOK, StateOK, ResOK, Unset

THEOREM ModesAll == \A c, s, r : ConfOK(c) /\ StateOK(s) /\ ResOK(r) => Law_Modes(c, s, r)
  BY DEF Law_Modes, Expected, Failed, Done, Retry, TimedOut, Exhausted, Mode, Backoff, ConfOK, StateOK, ResOK, Unset

THEOREM RetryWithinAll == \A c, s, r : ConfOK(c) /\ StateOK(s) /\ ResOK(r) /\ (r.kind = "temp" => r.delay >= -1) => Law_RetryWithin(c, s, r)
  BY DEF Law_RetryWithin, Expected, Failed, Done, Retry, TimedOut, Exhausted, Mode, Backoff, ConfOK, StateOK, ResOK, Unset
=============================================================================
