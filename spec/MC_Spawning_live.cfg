SPECIFICATION FairSpec
CONSTANTS
  Hs = {"d1", "d2", "t1"}
  ConfSet <- ConfsQ
  Horizon = 14
  MaxEdits = 0
  MaxToggles = 1
  MaxDeletes = 1
  MaxForce = 0
  MaxStops = 0
  MaxKills = 0
  MaxPauses = 0
PROPERTY DeletionCompletes
CHECK_DEADLOCK FALSE
