------------------------------- MODULE Vault -------------------------------
(***************************************************************************)
(* C12 (re-authentication): the credentials vault and the @authenticated   *)
(* decorator as the code has them -- credentials.Vault (extended, _items,   *)
(* select, invalidate, populate, _flush_caches, wait_for_emptiness),        *)
(* auth.authenticated, api.request (the part that matters here: a request   *)
(* leaves the client with the session of a context, 401 / "session is       *)
(* closed" lead to vault.invalidate, a retryable fault to a backoff and a   *)
(* retry on the SAME context), activities.authenticator.                    *)
(*                                                                          *)
(* Implementation-shaped: one action per stretch of code between two points *)
(* at which the asyncio task can be suspended.  `run` is the task that is   *)
(* in the middle of such a stretch (nobody else moves then); the asyncio    *)
(* Lock of the vault's Condition is modelled as it behaves: an uncontended  *)
(* acquire does not suspend, a release wakes the first waiter, and while a  *)
(* woken waiter has not run yet the lock is free but newcomers queue behind *)
(* it (FIFO).  The only place where the lock is held across a suspension is *)
(* _flush_caches (await context.close()).                                   *)
(*                                                                          *)
(* Credentials: an ITEM is one VaultItem object (identity), its VALUE is    *)
(* what the server checks (two items are `==` iff their values are equal:   *)
(* a login handler may return the same credentials again).                  *)
(***************************************************************************)
EXTENDS Naturals, Sequences, FiniteSets, TLC

CONSTANTS Req,          \* the requesting tasks
          NKeys,        \* vault keys 1..NKeys (one per login handler, in registration order)
          Prio,         \* <<priority of key 1, ...>>
          MaxItem,      \* bound on the items ever created
          MaxCtx,       \* bound on the APIContexts ever created
          MaxRevoke,    \* how many times the server revokes credentials
          MaxFault,     \* how many retryable faults (5xx) the server answers
          NBackoff,     \* the length of settings.networking.error_backoffs: a request is attempted NBackoff + 1 times
          MaxExpire,    \* how many credentials pass their expiration time
          MaxRounds,    \* requests per requester
          Mode,         \* "conn": ConnectionInfo (every context has a session of its own) | "sess": AiohttpSession (one session per value)
          LoginOutcomes,\* what a login handler may return for a key: subset of {"fresh", "same", "none"}
          SameIsIdentical, \* a login handler that returns credentials again returns the very same object (TRUE) or an equal one (FALSE)
          Variant       \* "code": as the code has it | "bykey": invalidate() removes whatever is current under the key, not the very item
                        \* that failed (a negative variant: a late 401 on old credentials throws the fresh ones away) | "f37": the code
                        \* before the repair F37 (extended() made the caches and the context in two blocks without looking whether
                        \* the item was still in the vault)

Keys == 1..NKeys
NONE == 0                \* a login handler returned nothing for the key
FRESH == MaxItem + 1     \* ... returned credentials never seen before
AUTH == "auth"
Task == Req \cup {AUTH}
NoTask == "-"
Items == 1..MaxItem
Ctxs == 1..MaxCtx

VARIABLES
  cur,        \* [Keys -> Items \cup {0}]      Vault._current
  val,        \* [Items -> Nat]                the value (credentials) of an item; 0 = not created
  obj,        \* [Items -> Nat]                the identity of the item's info object (invalidate() compares with `is`)
  inval,      \* [Keys -> Seq(Items)]          Vault._invalid (the last three per key)
  ready,      \* Vault._ready
  cache,      \* [Items -> {"none","empty","ctx"}]   item.caches: None / {} / {'contexts': ctx}
  ctxOf,      \* [Items -> Ctxs \cup {0}]
  ctxItem,    \* [Ctxs -> Items \cup {0}]
  closedS,    \* the sessions that are closed
  holder, lockQ,        \* asyncio.Lock: who holds it, who waits for it (FIFO)
  condQ, woken,         \* asyncio.Condition: who waits, whose wait has been notified and who must re-acquire the lock
  run,                  \* the task in the middle of a stretch, or NoTask
  pc, cont,             \* control state of every task; where to go on once the lock / the notification has come
  held, hkey, hctx,     \* per requester: the item / key / context it was given
  valid,                \* the values the server accepts
  lres,                 \* the result of the login activity under way: [Keys -> values \cup {NONE}]
  att,                  \* per requester: failed attempts of the api.request call under way
  xs,                   \* per requester: the keys whose items Vault._expire() is about to drop (decided on one reading of the clock)
  expdV, nexp,          \* the values whose expiration time has passed; how many times that happened
  expiredOut,           \* ghost: items dropped as expired
  usedExpired,          \* ghost: a request left the client with an item that had been dropped as expired
  nitem, nval, nctx, nrev, nfault, rounds,
  invalidated,          \* ghost: items that vault.invalidate() has removed
  reused,               \* ghost: a request left the client with an invalidated item
  leakedCtx,            \* ghost: contexts created for an item that is no longer in the vault (their session is never closed)
  logins, emptied       \* ghost: login activities run; transitions ready: TRUE -> FALSE

vaultVars == <<cur, val, obj, inval, ready, cache, ctxOf, ctxItem, closedS, nitem, nval, nctx>>
lockVars  == <<holder, lockQ, condQ, woken>>
ctlVars   == <<run, pc, cont>>
reqVars   == <<held, hkey, hctx, att, xs>>
envVars   == <<valid, nrev, nfault, rounds, lres, expdV, nexp>>
ghostVars == <<invalidated, reused, leakedCtx, logins, emptied, expiredOut, usedExpired>>
vars == <<vaultVars, lockVars, ctlVars, reqVars, envVars, ghostVars>>

Sess(c) == IF Mode = "sess" THEN val[ctxItem[c]] ELSE MaxItem + c
Range(s) == {s[i] : i \in DOMAIN s}
Last2(s) == IF Len(s) <= 2 THEN s ELSE SubSeq(s, Len(s) - 1, Len(s))
Live == {k \in Keys : cur[k] # 0}
Top == {k \in Live : \A j \in Live : Prio[j] <= Prio[k]}
Empty == Live = {}

Init ==
  /\ cur = [k \in Keys |-> 0] /\ val = [i \in Items |-> 0] /\ obj = [i \in Items |-> 0] /\ inval = [k \in Keys |-> <<>>] /\ ready = FALSE
  /\ cache = [i \in Items |-> "none"] /\ ctxOf = [i \in Items |-> 0] /\ ctxItem = [c \in Ctxs |-> 0] /\ closedS = {}
  /\ holder = NoTask /\ lockQ = <<>> /\ condQ = {} /\ woken = {}
  /\ run = NoTask /\ pc = [t \in Task |-> "idle"] /\ cont = [t \in Task |-> "idle"]
  /\ held = [r \in Req |-> 0] /\ hkey = [r \in Req |-> 0] /\ hctx = [r \in Req |-> 0] /\ att = [r \in Req |-> 0] /\ xs = [r \in Req |-> {}]
  /\ valid = {} /\ lres = [k \in Keys |-> NONE] /\ nitem = 0 /\ nval = 0 /\ nctx = 0 /\ nrev = 0 /\ nfault = 0 /\ rounds = [r \in Req |-> 0]
  /\ expdV = {} /\ nexp = 0 /\ expiredOut = {} /\ usedExpired = FALSE
  /\ invalidated = {} /\ reused = FALSE /\ leakedCtx = {} /\ logins = 0 /\ emptied = 0

Go(t, l) == pc' = [pc EXCEPT ![t] = l]

\* ---- the lock and the condition ------------------------------------------------------------------------------------
\* `async with self._guard` / Lock.acquire(): at once if the lock is free and nobody waits, else queue up and suspend
Acquire(t, next) ==
  IF holder = NoTask /\ lockQ = <<>>
  THEN holder' = t /\ lockQ' = lockQ /\ Go(t, next) /\ cont' = cont /\ run' = t
  ELSE holder' = holder /\ lockQ' = Append(lockQ, t) /\ Go(t, "lockwait") /\ cont' = [cont EXCEPT ![t] = next] /\ run' = NoTask
\* the first waiter gets the lock once it is free (it was woken by the release) and runs on
Grant(t) ==
  /\ run = NoTask /\ holder = NoTask /\ lockQ # <<>> /\ Head(lockQ) = t /\ pc[t] = "lockwait"
  /\ holder' = t /\ lockQ' = Tail(lockQ) /\ Go(t, cont[t]) /\ run' = t
  /\ UNCHANGED <<vaultVars, condQ, woken, cont, reqVars, envVars, ghostVars>>
\* Condition.wait(): release the lock, wait for a notification, then re-acquire and re-check the predicate at `next`
CondWait(t, next) ==
  /\ holder = t /\ holder' = NoTask /\ condQ' = condQ \cup {t} /\ Go(t, "condwait") /\ cont' = [cont EXCEPT ![t] = next]
  /\ run' = NoTask /\ UNCHANGED <<lockQ, woken>>
NotifyAll == woken' = woken \cup condQ /\ condQ' = {}
\* a notified task runs again: it has to re-acquire the lock first
Wake(t) ==
  /\ run = NoTask /\ t \in woken /\ pc[t] = "condwait" /\ woken' = woken \ {t} /\ Go(t, "reacquire") /\ run' = t
  /\ UNCHANGED <<vaultVars, holder, lockQ, condQ, cont, reqVars, envVars, ghostVars>>
Reacquire(t) ==
  /\ run = t /\ pc[t] = "reacquire" /\ Acquire(t, cont[t])
  /\ UNCHANGED <<vaultVars, condQ, woken, reqVars, envVars, ghostVars>>
Release(t, next) == holder = t /\ holder' = NoTask /\ Go(t, next) /\ UNCHANGED <<lockQ, condQ, woken, cont, run>>

\* ---- a requester: auth.authenticated around api.request --------------------------------------------------------------
Start(r) ==
  /\ run = NoTask /\ pc[r] \in {"idle", "failed", "raised"} /\ rounds[r] < MaxRounds /\ rounds' = [rounds EXCEPT ![r] = @ + 1]
  /\ Go(r, "A_acq") /\ run' = r /\ UNCHANGED <<vaultVars, lockVars, cont, reqVars, valid, nrev, nfault, lres, expdV, nexp, ghostVars>>
\* Vault._items(), first block: wait for readiness, select
A_acq(r) == run = r /\ pc[r] = "A_acq" /\ Acquire(r, "A_chk") /\ UNCHANGED <<vaultVars, condQ, woken, reqVars, envVars, ghostVars>>
A_chk(r) ==
  /\ run = r /\ pc[r] = "A_chk"
  /\ IF ~ready THEN CondWait(r, "A_chk") ELSE Go(r, "X_chk") /\ UNCHANGED <<lockVars, cont, run>>
  /\ UNCHANGED <<vaultVars, reqVars, envVars, ghostVars>>
\* Vault._expire(): on one reading of the clock, every current item whose expiration time has passed is flushed and dropped (not
\* remembered as invalid); if that leaves nothing, re-authentication is asked for and awaited -- then on to the selection
ExpiredKeys == {k \in Keys : cur[k] # 0 /\ val[cur[k]] \in expdV}
X_chk(r) ==
  /\ run = r /\ pc[r] = "X_chk" /\ holder = r
  /\ xs' = [xs EXCEPT ![r] = ExpiredKeys] /\ (IF ExpiredKeys = {} THEN Go(r, "A_sel") ELSE Go(r, "X_flush"))
  /\ UNCHANGED <<vaultVars, lockVars, cont, run, held, hkey, hctx, att, envVars, ghostVars>>
XVictims(r) == {cur[k] : k \in xs[r]}
X_flush(r) ==       \* the next one (in the order of the dictionary: any)
  /\ run = r /\ pc[r] = "X_flush" /\ holder = r
  /\ \E k \in xs[r] :
       /\ hkey' = [hkey EXCEPT ![r] = k]
       /\ IF cache[cur[k]] = "ctx" THEN closedS' = closedS \cup {Sess(ctxOf[cur[k]])} /\ run' \in {r, NoTask}
                                  ELSE closedS' = closedS /\ run' = r
  /\ Go(r, "X_flushing")
  /\ UNCHANGED <<cur, val, obj, inval, ready, cache, ctxOf, ctxItem, nitem, nval, nctx, lockVars, cont, held, hctx, att, xs, envVars, ghostVars>>
X_flushed(r) ==     \* close() has returned: caches = None
  /\ (run = r \/ run = NoTask) /\ pc[r] = "X_flushing" /\ holder = r /\ run' = r
  /\ LET i == cur[hkey[r]] IN cache' = [cache EXCEPT ![i] = "none"] /\ ctxOf' = [ctxOf EXCEPT ![i] = 0]
  /\ Go(r, "X_del")
  /\ UNCHANGED <<cur, val, obj, inval, ready, ctxItem, closedS, nitem, nval, nctx, lockVars, cont, reqVars, envVars, ghostVars>>
X_del(r) ==         \* the item is dropped -- and not remembered
  /\ run = r /\ pc[r] = "X_del" /\ holder = r
  /\ LET k == hkey[r] i == cur[k] IN
     /\ cur' = [cur EXCEPT ![k] = 0] /\ expiredOut' = expiredOut \cup {i} /\ xs' = [xs EXCEPT ![r] = @ \ {k}]
     /\ Go(r, IF xs[r] \ {k} = {} THEN "X_end" ELSE "X_flush")
  /\ UNCHANGED <<val, obj, inval, ready, cache, ctxOf, ctxItem, closedS, nitem, nval, nctx, lockVars, cont, run, held, hkey, hctx, att, envVars,
                 invalidated, reused, leakedCtx, logins, emptied, usedExpired>>
X_end(r) ==
  /\ run = r /\ pc[r] = "X_end" /\ holder = r
  /\ IF Empty THEN /\ ready' = FALSE /\ NotifyAll /\ emptied' = (IF ready THEN emptied + 1 ELSE emptied) /\ Go(r, "X_wait")
              ELSE /\ Go(r, "A_sel") /\ UNCHANGED <<ready, condQ, woken, emptied>>
  /\ UNCHANGED <<cur, val, obj, inval, cache, ctxOf, ctxItem, closedS, nitem, nval, nctx, holder, lockQ, cont, run, reqVars, envVars,
                 invalidated, reused, leakedCtx, logins, expiredOut, usedExpired>>
X_wait(r) ==
  /\ run = r /\ pc[r] = "X_wait"
  /\ IF ~ready THEN CondWait(r, "X_wait") ELSE Go(r, "A_sel") /\ UNCHANGED <<lockVars, cont, run>>
  /\ UNCHANGED <<vaultVars, reqVars, envVars, ghostVars>>
A_sel(r) ==         \* Vault.select(): LoginError when nothing is left, else one of the items of the top priority
  /\ run = r /\ pc[r] = "A_sel"
  /\ IF Empty THEN Go(r, "A_raise") /\ UNCHANGED reqVars
     ELSE \E k \in Top : held' = [held EXCEPT ![r] = cur[k]] /\ hkey' = [hkey EXCEPT ![r] = k] /\ hctx' = hctx /\ Go(r, "A_rel")
                         /\ att' = [att EXCEPT ![r] = 0] /\ xs' = xs
  /\ UNCHANGED <<vaultVars, lockVars, cont, run, envVars, ghostVars>>
A_raise(r) == run = r /\ pc[r] = "A_raise" /\ holder = r /\ holder' = NoTask /\ Go(r, "failed") /\ run' = NoTask
              /\ UNCHANGED <<vaultVars, lockQ, condQ, woken, cont, reqVars, envVars, ghostVars>>
A_rel(r) == run = r /\ pc[r] = "A_rel" /\ Release(r, "B_chk") /\ UNCHANGED <<vaultVars, reqVars, envVars, ghostVars>>
\* Vault.extended(): item.caches = {} and the context of the item, each under the lock if it is missing
B_chk(r) ==
  /\ run = r /\ pc[r] = "B_chk"
  /\ IF Variant = "f37"
     THEN (IF cache[held[r]] = "none" THEN Acquire(r, "B_set") ELSE Go(r, "C_chk") /\ UNCHANGED <<holder, lockQ, cont, run>>) /\ hctx' = hctx
     ELSE IF cache[held[r]] # "ctx" THEN Acquire(r, "BC_set") /\ hctx' = hctx          \* one block for both, under the lock
     ELSE Go(r, "send") /\ hctx' = [hctx EXCEPT ![r] = ctxOf[held[r]]] /\ UNCHANGED <<holder, lockQ, cont, run>>
  /\ UNCHANGED <<vaultVars, condQ, woken, held, hkey, att, xs, envVars, ghostVars>>
\* (since F37) under the lock: an item that has left the vault meanwhile is not revived -- the next one is taken; else its caches
\* and its context are made if they are not there
BC_set(r) ==
  /\ run = r /\ pc[r] = "BC_set" /\ holder = r
  /\ LET i == held[r] IN
     IF cur[hkey[r]] # i THEN Go(r, "BC_stale") /\ UNCHANGED <<vaultVars, hctx>>
     ELSE IF cache[i] = "ctx" THEN Go(r, "C_rel") /\ hctx' = [hctx EXCEPT ![r] = ctxOf[i]] /\ UNCHANGED vaultVars
     ELSE /\ nctx < MaxCtx /\ nctx' = nctx + 1
          /\ ctxOf' = [ctxOf EXCEPT ![i] = nctx + 1] /\ ctxItem' = [ctxItem EXCEPT ![nctx + 1] = i] /\ cache' = [cache EXCEPT ![i] = "ctx"]
          /\ hctx' = [hctx EXCEPT ![r] = nctx + 1] /\ Go(r, "C_rel")
          /\ UNCHANGED <<cur, val, obj, inval, ready, closedS, nitem, nval>>
  /\ UNCHANGED <<lockVars, cont, run, held, hkey, att, xs, envVars, ghostVars>>
BC_stale(r) == run = r /\ pc[r] = "BC_stale" /\ Release(r, "E_acq") /\ UNCHANGED <<vaultVars, reqVars, envVars, ghostVars>>
B_set(r) ==
  /\ run = r /\ pc[r] = "B_set" /\ holder = r
  /\ cache' = [cache EXCEPT ![held[r]] = IF @ = "none" THEN "empty" ELSE @] /\ Go(r, "B_rel")
  /\ UNCHANGED <<cur, val, obj, inval, ready, ctxOf, ctxItem, closedS, nitem, nval, nctx, lockVars, cont, run, reqVars, envVars, ghostVars>>
B_rel(r) == run = r /\ pc[r] = "B_rel" /\ Release(r, "C_chk") /\ UNCHANGED <<vaultVars, reqVars, envVars, ghostVars>>
C_chk(r) ==
  /\ run = r /\ pc[r] = "C_chk"
  /\ IF cache[held[r]] = "none" THEN Go(r, "crashed") /\ run' = NoTask /\ UNCHANGED <<holder, lockQ, cont, hctx>>      \* `purpose not in None`
     ELSE IF cache[held[r]] = "empty" THEN Acquire(r, "C_set") /\ hctx' = hctx
     ELSE Go(r, "send") /\ hctx' = [hctx EXCEPT ![r] = ctxOf[held[r]]] /\ UNCHANGED <<holder, lockQ, cont, run>>
  /\ UNCHANGED <<vaultVars, condQ, woken, held, hkey, att, xs, envVars, ghostVars>>
C_set(r) ==
  /\ run = r /\ pc[r] = "C_set" /\ holder = r
  /\ LET i == held[r] IN
     IF cache[i] = "none" THEN          \* flushed while this task queued for the lock: `purpose not in item.caches` raises TypeError
        /\ Go(r, "C_crash") /\ UNCHANGED <<vaultVars, hctx, leakedCtx>>
     ELSE IF cache[i] = "ctx" THEN      \* somebody else made it meanwhile
        /\ Go(r, "C_rel") /\ hctx' = [hctx EXCEPT ![r] = ctxOf[i]] /\ UNCHANGED <<vaultVars, leakedCtx>>
     ELSE
        /\ nctx < MaxCtx /\ nctx' = nctx + 1
        /\ ctxOf' = [ctxOf EXCEPT ![i] = nctx + 1] /\ ctxItem' = [ctxItem EXCEPT ![nctx + 1] = i] /\ cache' = [cache EXCEPT ![i] = "ctx"]
        /\ hctx' = [hctx EXCEPT ![r] = nctx + 1] /\ Go(r, "C_rel")
        /\ leakedCtx' = IF \E k \in Keys : cur[k] = i THEN leakedCtx ELSE leakedCtx \cup {nctx + 1}
        /\ UNCHANGED <<cur, val, obj, inval, ready, closedS, nitem, nval>>
  /\ UNCHANGED <<lockVars, cont, run, held, hkey, att, xs, envVars, invalidated, reused, logins, emptied, expiredOut, usedExpired>>
C_crash(r) == run = r /\ pc[r] = "C_crash" /\ holder = r /\ holder' = NoTask /\ Go(r, "crashed") /\ run' = NoTask
              /\ UNCHANGED <<vaultVars, lockQ, condQ, woken, cont, reqVars, envVars, ghostVars>>
C_rel(r) == run = r /\ pc[r] = "C_rel" /\ Release(r, "send") /\ UNCHANGED <<vaultVars, reqVars, envVars, ghostVars>>
\* api.request: context.session.request(...) -- "Session is closed" is raised at once, else the request leaves the client
Send(r) ==
  /\ run = r /\ pc[r] = "send"
  /\ IF Sess(hctx[r]) \in closedS THEN Go(r, "D_acq") /\ UNCHANGED <<run, reused>>
     ELSE Go(r, "inflight") /\ run' = NoTask /\ reused' = (reused \/ held[r] \in invalidated)
  /\ usedExpired' = (usedExpired \/ (Sess(hctx[r]) \notin closedS /\ held[r] \in expiredOut))
  /\ UNCHANGED <<vaultVars, lockVars, cont, reqVars, envVars, invalidated, leakedCtx, logins, emptied, expiredOut>>
\* the answer: 200 / 401 by the server's view of the value at that moment, or a retryable fault
RespOk(r) ==
  /\ run = NoTask /\ pc[r] = "inflight" /\ val[held[r]] \in valid /\ Go(r, "idle")
  /\ UNCHANGED <<vaultVars, lockVars, run, cont, reqVars, envVars, ghostVars>>
Resp401(r) ==
  /\ run = NoTask /\ pc[r] = "inflight" /\ val[held[r]] \notin valid /\ Go(r, "D_acq") /\ run' = r
  /\ UNCHANGED <<vaultVars, lockVars, cont, reqVars, envVars, ghostVars>>
RespFault(r) ==     \* a retryable fault: back off and retry on the same context, or escalate when the backoffs are used up
  /\ run = NoTask /\ pc[r] = "inflight" /\ nfault < MaxFault /\ nfault' = nfault + 1
  /\ IF att[r] < NBackoff THEN Go(r, "backoff") /\ att' = [att EXCEPT ![r] = @ + 1] ELSE Go(r, "raised") /\ att' = att
  /\ UNCHANGED <<vaultVars, lockVars, run, cont, held, hkey, hctx, xs, valid, nrev, rounds, lres, expdV, nexp, ghostVars>>
Retry(r) ==         \* after the backoff: the same context again
  /\ run = NoTask /\ pc[r] = "backoff" /\ Go(r, "send") /\ run' = r
  /\ UNCHANGED <<vaultVars, lockVars, cont, reqVars, envVars, ghostVars>>
\* Vault.invalidate(key, info)
D_acq(r) == run = r /\ pc[r] = "D_acq" /\ Acquire(r, "D_chk") /\ UNCHANGED <<vaultVars, condQ, woken, reqVars, envVars, ghostVars>>
D_chk(r) ==
  /\ run = r /\ pc[r] = "D_chk" /\ holder = r
  \* `self._current[key].info is info`: the current item of the key carries the very info object of the item that failed (that is the
  \* item itself -- or a later one made from the same object, when a login handler returned it again)
  /\ IF (cur[hkey[r]] # 0 /\ obj[cur[hkey[r]]] = obj[held[r]]) \/ (Variant = "bykey" /\ cur[hkey[r]] # 0) THEN Go(r, "D_flush") ELSE Go(r, "D_empty")
  /\ UNCHANGED <<vaultVars, lockVars, cont, run, reqVars, envVars, ghostVars>>
Victim(r) == cur[hkey[r]]      \* the item that invalidate() removes: the one that failed (or, in the negative variant, its successor)
D_flush(r) ==       \* _flush_caches: close the context if there is one -- its session counts as closed from now on; close() may suspend
  /\ run = r /\ pc[r] = "D_flush" /\ holder = r
  /\ IF cache[Victim(r)] = "ctx"
     THEN closedS' = closedS \cup {Sess(ctxOf[Victim(r)])} /\ run' \in {r, NoTask}
     ELSE closedS' = closedS /\ run' = r
  /\ Go(r, "D_flushing")
  /\ UNCHANGED <<cur, val, obj, inval, ready, cache, ctxOf, ctxItem, nitem, nval, nctx, lockVars, cont, reqVars, envVars, ghostVars>>
D_flushed(r) ==     \* ... close() has returned: caches = None
  /\ (run = r \/ run = NoTask) /\ pc[r] = "D_flushing" /\ holder = r /\ run' = r
  /\ cache' = [cache EXCEPT ![Victim(r)] = "none"] /\ ctxOf' = [ctxOf EXCEPT ![Victim(r)] = 0]
  /\ Go(r, "D_del")
  /\ UNCHANGED <<cur, val, obj, inval, ready, ctxItem, closedS, nitem, nval, nctx, lockVars, cont, reqVars, envVars, ghostVars>>
D_del(r) ==         \* the item is remembered as invalid (the last three per key) and removed from the current ones
  /\ run = r /\ pc[r] = "D_del" /\ holder = r
  /\ LET i == Victim(r) k == hkey[r] IN
     /\ inval' = [inval EXCEPT ![k] = Append(Last2(@), i)] /\ cur' = [cur EXCEPT ![k] = 0]
     /\ invalidated' = invalidated \cup {i}
  /\ Go(r, "D_empty")
  /\ UNCHANGED <<val, obj, ready, cache, ctxOf, ctxItem, closedS, nitem, nval, nctx, lockVars, cont, run, reqVars, envVars, reused, leakedCtx, logins, emptied, expiredOut, usedExpired>>
D_empty(r) ==       \* nothing left: ask for re-authentication and wait for it
  /\ run = r /\ pc[r] = "D_empty" /\ holder = r
  /\ IF Empty THEN /\ ready' = FALSE /\ NotifyAll /\ emptied' = (IF ready THEN emptied + 1 ELSE emptied) /\ Go(r, "D_wait")
              ELSE /\ Go(r, "D_after") /\ UNCHANGED <<ready, condQ, woken, emptied>>
  /\ UNCHANGED <<cur, val, obj, inval, cache, ctxOf, ctxItem, closedS, nitem, nval, nctx, holder, lockQ, cont, run, reqVars, envVars,
                 invalidated, reused, leakedCtx, logins, expiredOut, usedExpired>>
D_wait(r) ==
  /\ run = r /\ pc[r] = "D_wait"
  /\ IF ~ready THEN CondWait(r, "D_wait") ELSE Go(r, "D_after") /\ UNCHANGED <<lockVars, cont, run>>
  /\ UNCHANGED <<vaultVars, reqVars, envVars, ghostVars>>
D_after(r) ==       \* still nothing: LoginError from the original error; else back into _items()
  /\ run = r /\ pc[r] = "D_after" /\ holder = r /\ holder' = NoTask
  /\ IF Empty THEN Go(r, "failed") /\ run' = NoTask ELSE Go(r, "E_acq") /\ run' = r
  /\ UNCHANGED <<vaultVars, lockQ, condQ, woken, cont, reqVars, envVars, ghostVars>>
\* Vault._items(), second block: the yielded item is still the current one of its key = it has not failed = done iterating
E_acq(r) == run = r /\ pc[r] = "E_acq" /\ Acquire(r, "E_chk") /\ UNCHANGED <<vaultVars, condQ, woken, reqVars, envVars, ghostVars>>
E_chk(r) ==
  /\ run = r /\ pc[r] = "E_chk" /\ holder = r /\ holder' = NoTask
  /\ IF cur[hkey[r]] = held[r] THEN Go(r, "impossible") /\ run' = NoTask
     ELSE Go(r, "A_acq") /\ run' = r
  /\ UNCHANGED <<vaultVars, lockQ, condQ, woken, cont, reqVars, envVars, ghostVars>>

\* ---- the authenticator: wait_for_emptiness, the login activity, populate ------------------------------------------------
AStart == run = NoTask /\ pc[AUTH] = "idle" /\ Go(AUTH, "a_acq") /\ run' = AUTH
          /\ UNCHANGED <<vaultVars, lockVars, cont, reqVars, envVars, ghostVars>>
a_acq == run = AUTH /\ pc[AUTH] = "a_acq" /\ Acquire(AUTH, "a_chk") /\ UNCHANGED <<vaultVars, condQ, woken, reqVars, envVars, ghostVars>>
a_chk ==
  /\ run = AUTH /\ pc[AUTH] = "a_chk"
  /\ IF ready THEN CondWait(AUTH, "a_chk") ELSE holder = AUTH /\ holder' = NoTask /\ Go(AUTH, "a_login") /\ run' = NoTask /\ UNCHANGED <<lockQ, condQ, woken, cont>>
  /\ UNCHANGED <<vaultVars, reqVars, envVars, ghostVars>>
\* the login handlers have run; per key: fresh credentials (valid from now on), credentials equal to some earlier ones, or none
PrevVals == 1..nval
Fresh(res) == {k \in Keys : res[k] = FRESH}
Concrete(res) == [k \in Keys |-> IF res[k] = FRESH THEN nval + Cardinality({j \in Fresh(res) : j <= k}) ELSE res[k]]
Login(res) ==
  /\ run = NoTask /\ pc[AUTH] = "a_login"
  /\ \A k \in Keys : \/ res[k] = FRESH /\ "fresh" \in LoginOutcomes
                     \/ res[k] = NONE /\ "none" \in LoginOutcomes
                     \/ res[k] \in PrevVals /\ "same" \in LoginOutcomes
  /\ nitem + Cardinality({k \in Keys : res[k] # NONE}) <= MaxItem
  /\ lres' = Concrete(res) /\ nval' = nval + Cardinality(Fresh(res)) /\ valid' = valid \cup {Concrete(res)[k] : k \in Fresh(res)}
  /\ logins' = logins + 1 /\ Go(AUTH, "a_popacq") /\ run' = AUTH
  /\ UNCHANGED <<cur, val, obj, inval, ready, cache, ctxOf, ctxItem, closedS, nitem, nctx, lockVars, cont, reqVars, nrev, nfault, rounds,
                 expdV, nexp, invalidated, reused, leakedCtx, emptied, expiredOut, usedExpired>>
a_popacq == run = AUTH /\ pc[AUTH] = "a_popacq" /\ Acquire(AUTH, "a_pop") /\ UNCHANGED <<vaultVars, condQ, woken, reqVars, envVars, ghostVars>>
\* Vault.populate(): _update_converted (an item whose value equals a remembered invalid one of its key is not taken), ready, notify
Refused(k, v) == v \in {val[i] : i \in Range(inval[k])}
LatestWith(v, n) == CHOOSE i \in 1..n : val[i] = v /\ \A j \in 1..n : val[j] = v => j <= i
RECURSIVE Pop(_, _, _, _, _)
Pop(k, c, v, o, n) ==     \* keys k..NKeys still to do; c, v, o, n: cur, val, obj, nitem so far
  IF k > NKeys THEN [c |-> c, v |-> v, o |-> o, n |-> n]
  ELSE IF lres[k] = NONE \/ Refused(k, lres[k]) THEN Pop(k + 1, c, v, o, n)
  ELSE LET same == \E i \in 1..nitem : val[i] = lres[k] IN
       Pop(k + 1, [c EXCEPT ![k] = n + 1], [v EXCEPT ![n + 1] = lres[k]],
           [o EXCEPT ![n + 1] = IF same /\ SameIsIdentical THEN obj[LatestWith(lres[k], nitem)] ELSE n + 1], n + 1)
a_pop ==
  /\ run = AUTH /\ pc[AUTH] = "a_pop" /\ holder = AUTH
  /\ LET p == Pop(1, cur, val, obj, nitem) IN cur' = p.c /\ val' = p.v /\ obj' = p.o /\ nitem' = p.n
  /\ ready' = TRUE /\ NotifyAll /\ Go(AUTH, "a_rel")
  /\ UNCHANGED <<inval, cache, ctxOf, ctxItem, closedS, nval, nctx, holder, lockQ, cont, run, reqVars, envVars, ghostVars>>
a_rel == run = AUTH /\ pc[AUTH] = "a_rel" /\ Release(AUTH, "a_acq") /\ UNCHANGED <<vaultVars, reqVars, envVars, ghostVars>>

\* ---- the server revokes credentials -------------------------------------------------------------------------------------
Revoke(v) ==
  /\ run = NoTask /\ v \in valid /\ nrev < MaxRevoke /\ nrev' = nrev + 1 /\ valid' = valid \ {v}
  /\ UNCHANGED <<vaultVars, lockVars, ctlVars, reqVars, nfault, rounds, lres, expdV, nexp, ghostVars>>
\* ... and time passes the expiration of some credentials
Expire(v) ==
  /\ run = NoTask /\ v \in 1..(nval + NKeys) /\ v \notin expdV /\ nexp < MaxExpire      \* (also credentials that are born expired)
  /\ nexp' = nexp + 1 /\ expdV' = expdV \cup {v}
  /\ UNCHANGED <<vaultVars, lockVars, ctlVars, reqVars, valid, nrev, nfault, rounds, lres, ghostVars>>

ReqStep(r) == X_chk(r) \/ X_flush(r) \/ X_flushed(r) \/ X_del(r) \/ X_end(r) \/ X_wait(r) \/ A_acq(r) \/ A_chk(r) \/ A_sel(r) \/ A_raise(r) \/ A_rel(r) \/ B_chk(r) \/ BC_set(r) \/ BC_stale(r) \/ B_set(r) \/ B_rel(r) \/ C_chk(r) \/ C_set(r)
              \/ C_crash(r) \/ C_rel(r) \/ Send(r) \/ D_acq(r) \/ D_chk(r) \/ D_flush(r) \/ D_flushed(r) \/ D_del(r) \/ D_empty(r) \/ D_wait(r)
              \/ D_after(r) \/ E_acq(r) \/ E_chk(r) \/ Reacquire(r)
ReqResume(r) == Grant(r) \/ Wake(r) \/ RespOk(r) \/ Resp401(r) \/ RespFault(r) \/ Retry(r)
AuthStep == a_acq \/ a_chk \/ a_popacq \/ a_pop \/ a_rel \/ Reacquire(AUTH) \/ Grant(AUTH) \/ Wake(AUTH) \/ AStart
LoginResults == [Keys -> {FRESH, NONE} \cup PrevVals]
Next == \/ \E r \in Req : Start(r) \/ ReqStep(r) \/ ReqResume(r)
        \/ AuthStep \/ (\E res \in LoginResults : Login(res))
        \/ \E v \in valid : Revoke(v)
        \/ \E v \in 1..(nval + NKeys) : Expire(v)

Fairness == /\ \A r \in Req : WF_vars(ReqStep(r) \/ ReqResume(r))
            /\ WF_vars(AuthStep \/ \E res \in LoginResults : Login(res))
Spec == Init /\ [][Next]_vars /\ Fairness

\* ---- what must hold ------------------------------------------------------------------------------------------------------
TypeOK == /\ holder \in Task \cup {NoTask} /\ run \in Task \cup {NoTask} /\ ready \in BOOLEAN
          /\ \A k \in Keys : cur[k] \in Items \cup {0}
\* invalidated credentials are not reused: no request leaves the client with an item that vault.invalidate() has removed
NoReuse == ~reused
\* no request dies of anything but a LoginError
NoCrash == \A r \in Req : pc[r] \notin {"crashed", "impossible"}
\* a single re-authentication: one login activity per loss of readiness, and only while not ready
SingleReauth == logins <= emptied + 1 /\ emptied <= logins
LoginOnlyWhenNotReady == [][logins' # logins => ~ready]_vars
\* the lock is held only by the task that is running, or across the close() of a flushed context
LockDiscipline == holder # NoTask => (run = holder \/ pc[holder] \in {"D_flushing", "X_flushing"})
\* every session that was opened for a context is closed once its item has left the vault (no leak)
NoLeak == leakedCtx = {}
\* a re-authentication is caused by a revocation: with login handlers that always return fresh, valid credentials the vault
\* runs empty at most once per revocation (a late 401 on credentials that are gone already changes nothing)
ReauthOnlyOnRevocation == (LoginOutcomes = {"fresh"}) => emptied <= nrev + nexp
\* no request leaves the client with credentials that were dropped as expired
NoExpiredUse == ~usedExpired
\* the readiness flag tells the truth while nobody is in the middle of changing it: not ready => nothing current
NotReadyMeansEmpty == (~ready /\ run = NoTask /\ holder = NoTask) => (Empty \/ pc[AUTH] \in {"a_pop", "a_popacq", "lockwait"})
\* every request comes to an end (an answer or a LoginError) provided the logins are not all empty
Terminates == \A r \in Req : (pc[r] = "A_acq") ~> (pc[r] \in {"idle", "failed", "raised", "crashed", "impossible"})
=============================================================================
