------------------------------- MODULE JV -------------------------------
(***************************************************************************)
(* JSON values in a tagged encoding, and the reference semantics of the    *)
(* JSON-level operations that several properties of kopf talk about:       *)
(* equality, RFC 7386 merge-patch, RFC 6902 JSON-patch (add / remove /     *)
(* replace / test over tokenised pointers), and kopf's documented diff     *)
(* (mappings are recursed, everything else is atomic).                     *)
(*                                                                         *)
(* The tagged form is needed because TLC refuses to compare a string with  *)
(* a record, reads {} and [] as the same empty function, rejects JSON null *)
(* and wraps integers >= 2^31.  vf/jv.py produces the same encoding.       *)
(***************************************************************************)
EXTENDS Naturals, Sequences, FiniteSets, TLC

Null   == [t |-> "n"]
S(x)   == [t |-> "s", v |-> x]
I(x)   == [t |-> "i", v |-> x]
B(x)   == [t |-> "b", v |-> x]
L(x)   == [t |-> "l", v |-> x]
D(f)   == [t |-> "d", v |-> f]
Absent == [t |-> "absent"]          \* "no such key": NOT the same as Null

IsD(x)    == x.t = "d"
IsL(x)    == x.t = "l"
IsNull(x) == x.t = "n"
IsAbsent(x) == x.t = "absent"
Keys(x)   == DOMAIN x.v
EmptyD    == D(<<>>)
EmptyL    == L(<<>>)

RECURSIVE JEq(_, _)
JEq(a, b) ==
  IF a.t # b.t THEN FALSE
  ELSE CASE a.t \in {"n", "absent"} -> TRUE
         [] a.t \in {"b", "i", "s"} -> a.v = b.v
         [] a.t = "l" -> Len(a.v) = Len(b.v) /\ \A i \in 1..Len(a.v) : JEq(a.v[i], b.v[i])
         [] a.t = "d" -> Keys(a) = Keys(b) /\ \A k \in Keys(a) : JEq(a.v[k], b.v[k])

\* Field access by a path (a sequence of keys); Absent if any step is missing or not a mapping.
RECURSIVE Get(_, _)
Get(doc, path) ==
  IF path = <<>> THEN doc
  ELSE IF IsD(doc) /\ Head(path) \in Keys(doc) THEN Get(doc.v[Head(path)], Tail(path))
  ELSE Absent

Has(doc, path) == ~IsAbsent(Get(doc, path))

\* Set (val # Absent) or delete (val = Absent) at a path; missing parents are created as mappings.
RECURSIVE Put(_, _, _)
Put(doc, path, val) ==
  IF path = <<>> THEN val
  ELSE LET k    == Head(path)
           base == IF IsD(doc) THEN doc.v ELSE <<>>
           sub  == Put(IF k \in DOMAIN base THEN base[k] ELSE EmptyD, Tail(path), val)
       IN IF IsAbsent(sub) THEN D([x \in DOMAIN base \ {k} |-> base[x]])
          ELSE D([x \in DOMAIN base \cup {k} |-> IF x = k THEN sub ELSE base[x]])

\* Delete at a path without creating parents (a no-op if the path does not exist).
RECURSIVE Del(_, _)
Del(doc, path) ==
  IF path = <<>> THEN Absent
  ELSE IF ~IsD(doc) \/ Head(path) \notin Keys(doc) THEN doc
  ELSE LET k == Head(path) sub == Del(doc.v[k], Tail(path))
       IN IF IsAbsent(sub) THEN D([x \in Keys(doc) \ {k} |-> doc.v[x]])
          ELSE D([x \in Keys(doc) |-> IF x = k THEN sub ELSE doc.v[x]])

(***************************************************************************)
(* RFC 7386 JSON merge-patch.                                              *)
(***************************************************************************)
RECURSIVE MergePatch(_, _)
MergePatch(doc, p) ==
  IF ~IsD(p) THEN p
  ELSE LET base == IF IsD(doc) THEN doc.v ELSE <<>>
           keep == {k \in DOMAIN base : ~(k \in DOMAIN p.v /\ IsNull(p.v[k]))}
           add  == {k \in DOMAIN p.v : ~IsNull(p.v[k])}
       IN D([k \in keep \cup add |->
              IF k \in DOMAIN p.v
              THEN MergePatch(IF k \in DOMAIN base THEN base[k] ELSE Null, p.v[k])
              ELSE base[k]])

(***************************************************************************)
(* kopf's documented diff: a set of items (op, path, old, new); mappings   *)
(* are recursed, lists and scalars are atomic.  a, b \in JV \cup {Absent}. *)
(***************************************************************************)
Item(op, path, old, new) == [op |-> op, path |-> path, old |-> old, new |-> new]
RECURSIVE Diff(_, _, _)
Diff(a, b, path) ==
  IF IsAbsent(a) /\ IsAbsent(b) THEN {}
  ELSE IF IsAbsent(a) THEN {Item("add", path, a, b)}
  ELSE IF IsAbsent(b) THEN {Item("remove", path, a, b)}
  ELSE IF IsD(a) /\ IsD(b) THEN
         UNION { Diff(IF k \in Keys(a) THEN a.v[k] ELSE Absent,
                      IF k \in Keys(b) THEN b.v[k] ELSE Absent, Append(path, k))
                 : k \in Keys(a) \cup Keys(b) }
  ELSE IF JEq(a, b) THEN {} ELSE {Item("change", path, a, b)}

RECURSIVE ApplyDiff(_, _)
ApplyDiff(doc, items) ==
  IF items = {} THEN doc
  ELSE LET it == CHOOSE it \in items : TRUE
       IN ApplyDiff(IF it.path = <<>> THEN it.new
                    ELSE IF IsAbsent(it.new) THEN Del(doc, it.path) ELSE Put(doc, it.path, it.new),
                    items \ {it})

\* Remove mapping-valued keys whose value is an empty mapping, recursively ("up to the presence of empty mappings").
RECURSIVE StripEmpty(_)
StripEmpty(x) ==
  IF ~IsD(x) THEN x
  ELSE LET sub == [k \in Keys(x) |-> StripEmpty(x.v[k])]
           keep == {k \in Keys(x) : ~(IsD(sub[k]) /\ Keys(sub[k]) = {})}
       IN D([k \in keep |-> sub[k]])

(***************************************************************************)
(* RFC 6902 JSON-patch over tokenised pointers.  An op is a record         *)
(* [op, path (sequence of string tokens; list indices as decimal strings   *)
(* or "-"), value, from (for move/copy)].  Result: [ok, doc].              *)
(***************************************************************************)
Digits == {"0", "1", "2", "3", "4", "5", "6", "7", "8", "9"}
RECURSIVE StrToNat(_, _)
StrToNat(n, cands) == IF ToString(n) \in cands THEN n ELSE IF n > 64 THEN 65 ELSE StrToNat(n + 1, cands)
Idx(tok) == StrToNat(0, {tok})       \* decimal token -> number (bounded to 64; 65 = not a number)

RemoveAt(s, i) == [j \in 1..(Len(s) - 1) |-> IF j < i THEN s[j] ELSE s[j + 1]]
InsertAt(s, i, x) == [j \in 1..(Len(s) + 1) |-> IF j < i THEN s[j] ELSE IF j = i THEN x ELSE s[j - 1]]

Fail == [ok |-> FALSE, doc |-> Null]
Ok(d) == [ok |-> TRUE, doc |-> d]

RECURSIVE PAdd(_, _, _)       \* add / replace(create = FALSE)
PAdd(doc, path, val) ==
  IF path = <<>> THEN Ok(val)
  ELSE LET k == Head(path) IN
    IF IsD(doc) THEN
      IF Len(path) = 1 THEN Ok(D([x \in Keys(doc) \cup {k} |-> IF x = k THEN val ELSE doc.v[x]]))
      ELSE IF k \in Keys(doc) THEN
             LET r == PAdd(doc.v[k], Tail(path), val)
             IN IF r.ok THEN Ok(D([x \in Keys(doc) |-> IF x = k THEN r.doc ELSE doc.v[x]])) ELSE Fail
      ELSE Fail
    ELSE IF IsL(doc) THEN
      IF Len(path) = 1 THEN
        IF k = "-" THEN Ok(L(Append(doc.v, val)))
        ELSE LET i == Idx(k) IN IF i <= Len(doc.v) THEN Ok(L(InsertAt(doc.v, i + 1, val))) ELSE Fail
      ELSE LET i == Idx(k) IN
        IF i < Len(doc.v) THEN
          LET r == PAdd(doc.v[i + 1], Tail(path), val)
          IN IF r.ok THEN Ok(L([j \in 1..Len(doc.v) |-> IF j = i + 1 THEN r.doc ELSE doc.v[j]])) ELSE Fail
        ELSE Fail
    ELSE Fail

RECURSIVE PRemove(_, _)
PRemove(doc, path) ==
  IF path = <<>> THEN Fail
  ELSE LET k == Head(path) IN
    IF IsD(doc) THEN
      IF k \notin Keys(doc) THEN Fail
      ELSE IF Len(path) = 1 THEN Ok(D([x \in Keys(doc) \ {k} |-> doc.v[x]]))
      ELSE LET r == PRemove(doc.v[k], Tail(path))
           IN IF r.ok THEN Ok(D([x \in Keys(doc) |-> IF x = k THEN r.doc ELSE doc.v[x]])) ELSE Fail
    ELSE IF IsL(doc) THEN
      LET i == Idx(k) IN
      IF i >= Len(doc.v) THEN Fail
      ELSE IF Len(path) = 1 THEN Ok(L(RemoveAt(doc.v, i + 1)))
      ELSE LET r == PRemove(doc.v[i + 1], Tail(path))
           IN IF r.ok THEN Ok(L([j \in 1..Len(doc.v) |-> IF j = i + 1 THEN r.doc ELSE doc.v[j]])) ELSE Fail
    ELSE Fail

RECURSIVE PGet(_, _)
PGet(doc, path) ==
  IF path = <<>> THEN doc
  ELSE LET k == Head(path) IN
    IF IsD(doc) THEN IF k \in Keys(doc) THEN PGet(doc.v[k], Tail(path)) ELSE Absent
    ELSE IF IsL(doc) THEN LET i == Idx(k) IN IF i < Len(doc.v) THEN PGet(doc.v[i + 1], Tail(path)) ELSE Absent
    ELSE Absent

ApplyOp(doc, op) ==
  CASE op.op = "add"     -> PAdd(doc, op.path, op.value)
    [] op.op = "replace" -> IF IsAbsent(PGet(doc, op.path)) THEN Fail
                            ELSE IF op.path = <<>> THEN Ok(op.value)
                            ELSE LET r == PRemove(doc, op.path) IN IF r.ok THEN PAdd(r.doc, op.path, op.value) ELSE Fail
    [] op.op = "remove"  -> PRemove(doc, op.path)
    [] op.op = "test"    -> LET v == PGet(doc, op.path) IN IF ~IsAbsent(v) /\ JEq(v, op.value) THEN Ok(doc) ELSE Fail
    [] op.op = "move"    -> LET v == PGet(doc, op.from) IN
                            IF IsAbsent(v) THEN Fail
                            ELSE LET r == PRemove(doc, op.from) IN IF r.ok THEN PAdd(r.doc, op.path, v) ELSE Fail
    [] op.op = "copy"    -> LET v == PGet(doc, op.from) IN IF IsAbsent(v) THEN Fail ELSE PAdd(doc, op.path, v)
    [] OTHER -> Fail

RECURSIVE ApplyJsonPatch(_, _)
ApplyJsonPatch(doc, ops) ==
  IF ops = <<>> THEN Ok(doc)
  ELSE LET r == ApplyOp(doc, Head(ops)) IN IF r.ok THEN ApplyJsonPatch(r.doc, Tail(ops)) ELSE Fail
=============================================================================
