-------------------------- MODULE Trace_Streaming --------------------------
(* Trace validation for Streaming.tla: the life of every watcher task of an execution of the real operator -- what the
   fake API server recorded of its list / watch requests (answers, faults, the version a watch resumes from), the lines it
   released and the ends of its connections, the q.* hooks of the watcher (start, hand-over of every event to the
   multiplexer, exit) and the pause decisions of the peering (peer.eval) -- must be a behaviour of the specification,
   second by second.  Unlogged: a cancellation of the task (by the orchestrator or the shutdown), the moment at which a
   pause reaches the task, the inactivity timer cutting short a watch call that is still retrying. *)
EXTENDS Streaming, Json, IOUtils, TLCExt
Traces == JsonDeserialize(IOEnv.TRACE_FILE)
VARIABLES tid, l
tvars == <<vars, tid, l>>
T == Traces[tid].events
E == T[l]
TInit == /\ tid \in 1..Len(Traces) /\ l = 1 /\ conf = Traces[tid].conf
         /\ now = Traces[tid].t0 /\ pc = "init" /\ wake = 0 /\ att = 0 /\ since = 0 /\ conn = 0 /\ opened = 0 /\ act = 0
         /\ pend = <<>> /\ old = {} /\ mustclose = {} /\ blockers = {Traces[tid].paused0[i] : i \in DOMAIN Traces[tid].paused0} /\ fresh = FALSE
         /\ noticed = FALSE /\ relisted = FALSE
Ev(e) == l <= Len(T) /\ E.ev = e /\ E.t = now /\ l' = l + 1 /\ UNCHANGED tid
TSpawn == Ev("spawn") /\ Spawn
TList == Ev("list") /\ ListOk(E.rv, E.rvs)
TFail == Ev("fail") /\ Fail(E.f) /\ pc = E.route
TOpen == Ev("open") /\ WatchOk(E.since, E.w)
TLine == Ev("line") /\ Line(E.w, E.type, E.rv)
TPut == Ev("put") /\ Put(E.rv)
TEnd == Ev("end") /\ End(E.w, E.how)
TPause == Ev("pause") /\ (IF (E.on /\ E.b \in blockers) \/ (~E.on /\ E.b \notin blockers) THEN UNCHANGED vars ELSE Pause(E.b, E.on))
TExit == Ev("exit") /\ Exit
TQuiet == Ev("quiet") /\ ~Urgent /\ UNCHANGED vars
Silent == (Cancel \/ Notice \/ InactiveCall) /\ UNCHANGED <<tid, l>>
Advance == l <= Len(T) /\ E.t > now /\ Tick /\ UNCHANGED <<tid, l>>
TNext == TSpawn \/ TList \/ TFail \/ TOpen \/ TLine \/ TPut \/ TEnd \/ TPause \/ TExit \/ TQuiet \/ Silent \/ Advance
TSpec == TInit /\ [][TNext]_tvars
Max2(a, b) == IF a >= b THEN a ELSE b
Book == TLCSet(1, [TLCGet(1) EXCEPT ![tid] = Max2(@, l)])
ASSUME TLCSet(1, [i \in 1..Len(Traces) |-> 0])
Verdicts == \A i \in 1..Len(Traces) : PrintT(<<"VERDICT", i, Traces[i].id, TLCGet(1)[i] - 1, Len(Traces[i].events)>>)
=============================================================================
