------------------------------ MODULE Peering ------------------------------
(***************************************************************************)
(* K operators sharing one peering object (kopf/_core/engines/peering.py). *)
(* One action per critical section of the code:                            *)
(*   Keepalive(o)     keepalive(): touch() every `period` seconds          *)
(*   Observe(o)       process_peering_event() on the latest queued         *)
(*                    snapshot: dead/live split, clean(), pause toggle,    *)
(*                    then the sleep until the earliest blocking deadline  *)
(*   DeadlineWake(o)  the sleep ran out undisturbed: touch() itself        *)
(*   Stop/Withdraw/Down   graceful exit: touch(lifetime=0) in `finally`    *)
(*   Kill(o)          the process disappears, its record stays             *)
(*   Ext(i, r)        somebody else writes a record (other tools, kopf     *)
(*                    freeze, hand-made or malformed records)              *)
(* All times are countdowns, so the state space is finite for unbounded    *)
(* time: rec.ttl = deadline - now (0: dead, -1: no record); ka, sleep.     *)
(* A record without `lastseen` is read by the code as seen just now, at    *)
(* every evaluation: rec.fl = its lifetime (0 for normal records).         *)
(***************************************************************************)
EXTENDS Integers, Sequences, FiniteSets, TLC

CONSTANTS Ops,        \* identities of the operators
          Ext_,       \* identities written by others
          NoConf,     \* placeholder in the cfg; conf is a variable set by Init
          TrackVer,   \* TRUE: snapshots carry the number of the change (trace validation); FALSE: always 0 (finite state space)
          QMax        \* longer queues are batched (model checking only: the worker processes the latest of what it finds queued)
VARIABLES conf,       \* [prio, life, period, lag, plag : Ops -> Nat] never changes (lag / plag: request / response latency)
          st,         \* Ops -> "down" | "up" | "exiting"
          status,     \* Ids -> record in the peering object
          ver,        \* number of changes of the peering object so far
          q,          \* Ops -> queue of snapshots [ver, st] received and not yet processed
          paused, sleep, ka, touched, wd,
          late,       \* ghost: o touched itself after it had withdrawn its record (family F26)
          sc,         \* ghost: o's live record was deleted by a clean() that went by a stale snapshot (family F27)
          mid         \* an evaluation whose clean() request is still travelling (only with request latency)
vars == <<conf, st, status, ver, q, paused, sleep, ka, touched, wd, late, sc, mid>>

Ids == Ops \cup Ext_
NoRec == [prio |-> 0, ttl |-> -1, fl |-> 0]
NoMid == [on |-> FALSE, cnt |-> 0, ver |-> 0, dead |-> {}, block |-> {}, s |-> [i \in Ids |-> NoRec]]
Rec(p, t) == [prio |-> p, ttl |-> t, fl |-> 0]
Min(S) == CHOOSE x \in S : \A y \in S : x <= y
Listening(o) == st[o] \in {"up", "exiting"}       \* an exiting operator may still get what arrives before its stream is closed

Init0(c) ==
  /\ conf = c
  /\ st = [o \in Ops |-> "down"] /\ status = [i \in Ids |-> NoRec] /\ ver = 0
  /\ q = [o \in Ops |-> <<>>]
  /\ paused = [o \in Ops |-> FALSE] /\ sleep = [o \in Ops |-> -1] /\ ka = [o \in Ops |-> -1]
  /\ touched = [o \in Ops |-> FALSE] /\ wd = [o \in Ops |-> FALSE] /\ late = [o \in Ops |-> FALSE] /\ sc = [o \in Ops |-> FALSE] /\ mid = [o \in Ops |-> NoMid]

\* A write to the peering object: every listening operator gets the new content (a no-op write produces no event).
\* `base` = the queues as the caller leaves them.
NextVer == IF TrackVer THEN ver + 1 ELSE 0
Push(s, e) == IF Len(s) >= QMax THEN Append(Tail(s), e) ELSE Append(s, e)
Write(new, base) ==
  /\ status' = new
  /\ IF new = status
     THEN q' = base /\ ver' = ver
     ELSE /\ ver' = NextVer
          /\ q' = [o \in Ops |-> IF Listening(o) THEN Push(base[o], [ver |-> NextVer, st |-> new]) ELSE base[o]]
Same == q

Start(o) ==
  /\ st[o] = "down"
  /\ st' = [st EXCEPT ![o] = "up"] /\ paused' = [paused EXCEPT ![o] = FALSE]
  /\ ka' = [ka EXCEPT ![o] = conf.lag[o]] /\ sleep' = [sleep EXCEPT ![o] = -1]
  /\ touched' = [touched EXCEPT ![o] = FALSE] /\ wd' = [wd EXCEPT ![o] = FALSE] /\ late' = [late EXCEPT ![o] = FALSE] /\ sc' = [sc EXCEPT ![o] = FALSE] /\ mid' = [mid EXCEPT ![o] = NoMid]
  /\ q' = [q EXCEPT ![o] = <<[ver |-> ver, st |-> status]>>]      \* the initial listing
  /\ UNCHANGED <<conf, status, ver>>

Touch(o) == [status EXCEPT ![o] = Rec(conf.prio[o], conf.life[o] - conf.lag[o])]    \* lastseen is the instant of sending

Keepalive(o) ==
  /\ st[o] = "up" /\ ka[o] = 0
  /\ Write(Touch(o), Same)
  /\ ka' = [ka EXCEPT ![o] = conf.period[o] + conf.lag[o] + conf.plag[o]] /\ touched' = [touched EXCEPT ![o] = TRUE]
  /\ sc' = [sc EXCEPT ![o] = FALSE]
  /\ UNCHANGED <<conf, st, paused, sleep, wd, late, mid>>

EffTtl(r) == IF r.fl > 0 THEN r.fl ELSE r.ttl
Dead(s)      == {p \in Ids : s[p].ttl = 0 /\ s[p].fl = 0}
Live(s, o)   == {p \in Ids \ {o} : EffTtl(s[p]) > 0}
PrioOf(s, o) == {p \in Live(s, o) : s[p].prio > conf.prio[o]}
SameOf(s, o) == {p \in Live(s, o) : s[p].prio = conf.prio[o]}

\* The worker processes the j-th queued snapshot: the latest of the batch it found (the earlier ones are dropped).
ObserveAt(o, j) ==
  /\ st[o] \in {"up", "exiting"} /\ j \in 1..Len(q[o])      \* while exiting the worker still drains what was queued
  /\ ~mid[o].on /\ (conf.lag[o] = 0 \/ Dead(q[o][j].st) = {})
  /\ LET s == q[o][j].st
         block == PrioOf(s, o) \cup SameOf(s, o)
         cleaned == [p \in Ids |-> IF p \in Dead(s) THEN NoRec ELSE status[p]]     \* a merge-patch on the CURRENT object
     IN /\ Write(cleaned, [q EXCEPT ![o] = SubSeq(q[o], j + 1, Len(q[o]))])
        /\ paused' = [paused EXCEPT ![o] = block # {}]
        /\ sleep' = [sleep EXCEPT ![o] = IF block = {} THEN -1 ELSE Min({EffTtl(s[p]) : p \in block}) + conf.lag[o]]
        \* what the code does (F27): clean() is a blind merge-patch of nulls; when the snapshot is stale and a dead-looking peer
        \* (or the operator itself: a restart under the same identity after the old record expired) has renewed its record
        \* meanwhile, the live record is deleted and stays absent until that peer's next keep-alive
        /\ sc' = [p \in Ops |-> sc[p] \/ (p \in Dead(s) /\ status[p].ttl > 0)]
  /\ UNCHANGED <<conf, st, ka, touched, wd, late, mid>>
\* With request latency the evaluation is not atomic: the split is computed now, the clean() lands lag seconds later, and only
\* then the pause is toggled and the sleep begins.
ObserveBegin(o, j) ==
  /\ st[o] \in {"up", "exiting"} /\ j \in 1..Len(q[o]) /\ ~mid[o].on /\ conf.lag[o] > 0 /\ Dead(q[o][j].st) # {}
  /\ LET s == q[o][j].st IN
       mid' = [mid EXCEPT ![o] = [on |-> TRUE, cnt |-> conf.lag[o], ver |-> q[o][j].ver, dead |-> Dead(s),
                                  block |-> PrioOf(s, o) \cup SameOf(s, o), s |-> s]]
  /\ q' = [q EXCEPT ![o] = SubSeq(q[o], j + 1, Len(q[o]))]
  /\ UNCHANGED <<conf, st, status, ver, paused, sleep, ka, touched, wd, late, sc>>
ObserveEnd(o) ==
  /\ st[o] \in {"up", "exiting"} /\ mid[o].on /\ mid[o].cnt = 0
  /\ LET m == mid[o]
         cleaned == [p \in Ids |-> IF p \in m.dead THEN NoRec ELSE status[p]]
     IN /\ Write(cleaned, q)
        /\ paused' = [paused EXCEPT ![o] = m.block # {}]
        /\ sleep' = [sleep EXCEPT ![o] = IF m.block = {} THEN -1 ELSE Min({EffTtl(m.s[p]) : p \in m.block}) + conf.lag[o]]
        /\ sc' = [p \in Ops |-> sc[p] \/ (p \in m.dead /\ status[p].ttl > 0)]
  /\ mid' = [mid EXCEPT ![o] = NoMid]
  /\ UNCHANGED <<conf, st, ka, touched, wd, late>>
Observe(o) == (\E j \in 1..Len(q[o]) : ObserveAt(o, j) \/ ObserveBegin(o, j)) \/ ObserveEnd(o)

DeadlineWake(o) ==
  /\ st[o] \in {"up", "exiting"} /\ sleep[o] = 0   \* also when an event arrived at this very instant: the timer may win the race
  /\ Write(Touch(o), Same)
  /\ sleep' = [sleep EXCEPT ![o] = -1] /\ touched' = [touched EXCEPT ![o] = TRUE]
  \* what the code does (F26): the worker of an exiting operator, still asleep in process_peering_event, is not woken by the
  \* exit; if the deadline falls within queueing.exit_timeout it re-creates the record that keepalive() has just withdrawn
  /\ late' = [late EXCEPT ![o] = @ \/ (st[o] = "exiting" /\ wd[o])]
  /\ sc' = [sc EXCEPT ![o] = FALSE]
  /\ UNCHANGED <<conf, st, paused, ka, wd, mid>>

Stop(o) ==
  /\ st[o] = "up"
  /\ st' = [st EXCEPT ![o] = "exiting"] /\ ka' = [ka EXCEPT ![o] = -1]
  /\ UNCHANGED <<conf, status, ver, q, sleep, paused, touched, wd, late, sc, mid>>

Withdraw(o) ==
  /\ st[o] = "exiting" /\ ~wd[o]
  /\ Write([status EXCEPT ![o] = NoRec], Same)
  /\ wd' = [wd EXCEPT ![o] = TRUE]
  /\ UNCHANGED <<conf, st, paused, sleep, ka, touched, late, sc, mid>>

Down(o) ==
  /\ st[o] = "exiting" /\ (wd[o] \/ ~touched[o])        \* nothing to withdraw if it never wrote a record
  /\ st' = [st EXCEPT ![o] = "down"] /\ sleep' = [sleep EXCEPT ![o] = -1] /\ q' = [q EXCEPT ![o] = <<>>]
  /\ mid' = [mid EXCEPT ![o] = NoMid]
  /\ UNCHANGED <<conf, status, ver, paused, ka, touched, wd, late, sc>>

Kill(o) ==
  /\ st[o] # "down"
  /\ st' = [st EXCEPT ![o] = "down"] /\ ka' = [ka EXCEPT ![o] = -1] /\ sleep' = [sleep EXCEPT ![o] = -1]
  /\ q' = [q EXCEPT ![o] = <<>>] /\ mid' = [mid EXCEPT ![o] = NoMid]
  /\ UNCHANGED <<conf, status, ver, paused, touched, wd, late, sc>>

\* Others may also write without changing any record (metadata, other fields): still a new version and an event for everybody.
Ext(i, r) ==
  /\ i \in Ext_
  /\ status' = [status EXCEPT ![i] = r] /\ ver' = NextVer
  /\ q' = [o \in Ops |-> IF Listening(o) THEN Push(q[o], [ver |-> NextVer, st |-> status']) ELSE q[o]]
  /\ UNCHANGED <<conf, st, paused, sleep, ka, touched, wd, late, sc, mid>>

\* A step of some operator is due now: virtual time does not advance before it is taken.
\* (conf.lag[o] > 0: o's requests take that long to reach the server and its listings twice as long to be answered,
\* so queued snapshots may wait and every write of o lands lag[o] later.)
Urgent == \E o \in Ops : st[o] = "up" /\ ((q[o] # <<>> /\ conf.lag[o] = 0) \/ ka[o] = 0 \/ sleep[o] = 0 \/ (mid[o].on /\ mid[o].cnt = 0))
DecR(r) == IF r.ttl > 0 THEN [r EXCEPT !.ttl = r.ttl - 1] ELSE r
DecN(f) == [o \in Ops |-> IF f[o] > 0 THEN f[o] - 1 ELSE f[o]]
Tick ==
  /\ ~Urgent
  /\ status' = [i \in Ids |-> DecR(status[i])]
  /\ q' = [o \in Ops |-> [k \in 1..Len(q[o]) |-> [ver |-> q[o][k].ver, st |-> [i \in Ids |-> DecR(q[o][k].st[i])]]]]
  /\ ka' = DecN(ka) /\ sleep' = DecN(sleep)
  /\ mid' = [o \in Ops |-> IF mid[o].on THEN [mid[o] EXCEPT !.cnt = IF @ > 0 THEN @ - 1 ELSE 0, !.s = [i \in Ids |-> DecR(mid[o].s[i])]]
                                        ELSE mid[o]]
  /\ UNCHANGED <<conf, st, ver, paused, touched, wd, late, sc>>

OpNext == \E o \in Ops : Keepalive(o) \/ Observe(o) \/ DeadlineWake(o) \/ Withdraw(o) \/ Down(o)

-----------------------------------------------------------------------------
(* Properties *)
\* a running operator renews its record before it expires (so nobody may take it for dead)
RenewsInTime == \A o \in Ops : (st[o] = "up" /\ touched[o] /\ ~sc[o]) => status[o].ttl > 0
Family_F27 == \E o \in Ops : st[o] = "up" /\ touched[o] /\ sc[o] /\ status[o].ttl <= 0
NoSelfClean == \A o \in Ops : ~sc[o]
\* a graceful exit leaves no record behind (Down is enabled only after Withdraw; here: nothing re-creates it)
WithdrawsOnExit == \A o \in Ops : (st[o] = "down" /\ wd[o] /\ ~late[o]) => status[o] = NoRec
Family_F26 == \E o \in Ops : st[o] = "down" /\ wd[o] /\ late[o] /\ status[o] # NoRec
NoLateTouch == \A o \in Ops : ~late[o]
\* what "paused" must be once everybody has seen everybody
ShouldPause(o) == \E i \in Ids \ {o} : /\ (IF i \in Ops THEN st[i] = "up" /\ status[i].ttl > 0 ELSE EffTtl(status[i]) > 0)
                                      /\ status[i].prio >= conf.prio[o]
Stable == \A o \in Ops : st[o] = "up" => (paused[o] <=> ShouldPause(o))
NoDeadLeft == (\E o \in Ops : st[o] = "up") => \A i \in Ids : ~(status[i].ttl = 0 /\ status[i].fl = 0)
Tops == {o \in Ops : st[o] = "up" /\ \A p \in Ops \ {o} : st[p] = "up" => conf.prio[p] < conf.prio[o]}
ActiveOps == {o \in Ops : st[o] = "up" /\ ~paused[o]}
=============================================================================
