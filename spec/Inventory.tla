----------------------------- MODULE Inventory -----------------------------
(***************************************************************************)
(* inventory.ResourceMemories -- what the operator process remembers about *)
(* each object (C14: resumed once per object per process; C12: the error   *)
(* throttler of ONE object; C09: its daemons; C17: its indexing memory):   *)
(* one memory per object (uid), made when the object is first noticed --   *)
(* `noticed_by_listing` is fixed then --, the same one on every recall,    *)
(* forgotten with the DELETED event; an object re-created under the same   *)
(* name is another object and gets a memory of its own; no two memories    *)
(* share any part (memo, throttler, indexing memory, daemons memory).      *)
(***************************************************************************)
EXTENDS Naturals, Sequences, FiniteSets, TLC
CONSTANTS Uids, MaxMem
VARIABLES mem,       \* [Uids -> memory id, 0 = none]
          byList,    \* [memory id -> noticed_by_listing]
          nmem
ivars == <<mem, byList, nmem>>
IInit == mem = [u \in Uids |-> 0] /\ byList = [m \in 1..MaxMem |-> FALSE] /\ nmem = 0
\* recall(body, noticed_by_listing): the memory of that uid -- a new one (remembering how the object was first noticed) if there is none
Recall(u, listed) ==
  IF mem[u] # 0 THEN UNCHANGED ivars
  ELSE nmem < MaxMem /\ nmem' = nmem + 1 /\ mem' = [mem EXCEPT ![u] = nmem + 1] /\ byList' = [byList EXCEPT ![nmem + 1] = listed]
Forget(u) == mem' = [mem EXCEPT ![u] = 0] /\ UNCHANGED <<byList, nmem>>
INext == \E u \in Uids : (\E b \in BOOLEAN : Recall(u, b)) \/ Forget(u)
ISpec == IInit /\ [][INext]_ivars
\* no memory serves two objects
OnePerObject == \A u, v \in Uids : (mem[u] # 0 /\ mem[u] = mem[v]) => u = v
=============================================================================
