---------------------------- MODULE Rec_Discovery ----------------------------
(* Records of the real scanning.scan_resources on generated discovery documents (vf/discovery.py) judged by Discovery!ClassifyDiscovery. *)
EXTENDS Discovery, Json, IOUtils, TLCExt
CONSTANT NC
Recs == JsonDeserialize(IOEnv.REC_FILE)
VARIABLES c, i
Init == c \in 1..NC /\ i = 0
Next == i = 0 /\ i' \in {j \in 1..Len(Recs) : j % NC = c - 1} /\ UNCHANGED c
Spec == Init /\ [][Next]_<<c, i>>
Verdict == i = 0 \/ LET v == ClassifyDiscovery(Recs[i]) IN v = "ok" \/ PrintT(<<"REC", i, v>>)
=============================================================================
