------------------------------ MODULE PauseSet ------------------------------
(***************************************************************************)
(* The operator-wide pause as a function of the per-peering decisions      *)
(* (orchestration.Ensemble.operator_paused = ToggleSet(any) over the       *)
(* conflicts_found toggles of the peerings that are served):               *)
(*     paused  <=>  some peering that is still served says "conflict".     *)
(* A property automaton over recorded executions of one real operator      *)
(* serving several namespaces with a namespaced peering in each.           *)
(*   serve(d) / unserve(d)   the namespace appears / disappears            *)
(*   eval(d, paused)         the peer.eval hook of the peering in d        *)
(*   rest(watching)          at rest: are the operator's streams open?     *)
(*   kind(d, there)          another served kind (its CRD) appears / goes: *)
(*                           the pause is about peerings, not about kinds  *)
(***************************************************************************)
EXTENDS Naturals, Sequences, FiniteSets, TLC, Json, IOUtils, TLCExt
Traces == JsonDeserialize(IOEnv.TRACE_FILE)
VARIABLES tid, l, dims, flag, verdict
vars == <<tid, l, dims, flag, verdict>>
T == Traces[tid].events
E == T[l]
Init == /\ tid \in 1..Len(Traces) /\ l = 1 /\ dims = {} /\ flag = [d \in {} |-> FALSE] /\ verdict = "ok"
Paused == \E d \in dims : d \in DOMAIN flag /\ flag[d]
Bad(v) == verdict' = IF verdict = "ok" THEN v ELSE verdict
Step ==
  /\ l <= Len(T) /\ l' = l + 1 /\ UNCHANGED tid
  /\ CASE E.ev = "serve" -> dims' = dims \cup {E.d} /\ flag' = [d \in DOMAIN flag \ {E.d} |-> flag[d]] /\ UNCHANGED verdict
       \* the toggle of a peering that is no longer served is dropped: its last decision does not count any more
       [] E.ev = "unserve" -> dims' = dims \ {E.d} /\ flag' = [d \in DOMAIN flag \ {E.d} |-> flag[d]] /\ UNCHANGED verdict
       [] E.ev = "eval" -> /\ flag' = [d \in DOMAIN flag \cup {E.d} |-> IF d = E.d THEN E.paused ELSE flag[d]]
                           /\ UNCHANGED <<dims, verdict>>
       [] E.ev = "kind" -> UNCHANGED <<dims, flag, verdict>>
       [] E.ev = "rest" -> /\ UNCHANGED <<dims, flag>>
                           /\ IF Paused /\ E.watching THEN Bad("streams_open_while_a_served_peering_has_a_conflict")
                              ELSE IF ~Paused /\ ~E.watching /\ dims # {} THEN Bad("paused_although_no_served_peering_has_a_conflict")
                              ELSE UNCHANGED verdict
Spec == Init /\ [][Step]_vars
Book == IF l = Len(T) + 1 THEN TLCSet(1, [TLCGet(1) EXCEPT ![tid] = verdict]) ELSE TRUE
ASSUME TLCSet(1, [i \in 1..Len(Traces) |-> "incomplete"])
Verdicts == \A i \in 1..Len(Traces) : PrintT(<<"MONITOR", i, Traces[i].id, TLCGet(1)[i]>>)
=============================================================================
