SPECIFICATION Spec
CONSTANTS
  Res = {"r1", "r2"}
  Nss = {"n1", "n2"}
  ClusterScoped = {}
  MaxRevisions = 1000000
  MaxDeaths = 0
  HoldLock = TRUE
VIEW NoCount
INVARIANT Coverage
INVARIANT NoF34
CHECK_DEADLOCK FALSE
