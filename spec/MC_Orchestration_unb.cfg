SPECIFICATION Spec
CONSTANTS
  Pairs = {"r1n1", "r1n2", "r2n1", "r2n2"}
  MaxRevisions = 1000000
  MaxDeaths = 0
  HoldLock = TRUE
VIEW NoCount
INVARIANT Coverage
CHECK_DEADLOCK FALSE
