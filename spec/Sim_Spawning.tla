----------------------------- MODULE Sim_Spawning -----------------------------
(* MC_Spawning paced for `tlc -simulate`: at least one tick between two actions of the environment. TLC draws the configuration
   (backoff, timeout, reaction and latency of the daemons, a timer or not) and the history (edits, label toggles, deletion, forced
   removal of the finalizers, graceful stop); both are replayed into the real operator with scripted daemon functions, and the
   run is validated against Trace_Spawning like any other: the specification chooses the behaviour, the code must follow. *)
EXTENDS MC_Spawning
VARIABLE gap
ConfsSim == {[dh |-> [h \in Hs |-> IF h = "d1" THEN DL("daemon", b, t, r, l) ELSE IF h = "d2" THEN y ELSE x], polling |-> 3, filter |-> TRUE,
              prompt |-> TRUE, exitto |-> 2, peering |-> FALSE] :
               b \in {0, 2, 3}, t \in {0, 2, 4}, r \in {"obey", "cancel", "ignore", "selfexit"}, l \in {0, 1, 4},
               x \in {None, D("timer", 0, 0, "any")}, y \in {None, DL("daemon", 2, 3, "cancel", 0)}}
SimInit == Init /\ gap = 1
\* (an object removed before the framework's finalizer is on it leads straight into the known family F5: drawn rarely)
Direct == obj.exists /\ ~obj'.exists /\ ~obj.fin
SimNext == \/ (EnvStep /\ gap >= 1 /\ gap' = 0 /\ (Direct => now >= 12))
           \/ (Tick /\ gap' = IF gap < 5 THEN gap + 1 ELSE gap)
           \/ ((OpStep \/ DStep \/ Deliver \/ Down) /\ UNCHANGED gap)
SimSpec == SimInit /\ [][SimNext /\ conf' = conf]_<<vars, gap>>
=============================================================================
