---------------------------- MODULE MC_Execution ----------------------------
EXTENDS Execution
VARIABLES c, s, r
Lim == {Unset, 0, 1, 3, 5}
Confs == [timeout : Lim, retries : {Unset, 1, 2, 3}, backoff : {Unset, 0, 2, 7}, mode : {"", "temporary", "permanent", "ignored"}, defbackoff : {7}]
States == [runtime : 0..6, retries : 0..3]
Ress == [kind : {"ok", "perm", "exc"}, delay : {Unset}] \cup [kind : {"temp"}, delay : {Unset, 0, 1, 2, 5}]
Init == c \in Confs /\ s \in States /\ r \in Ress
Next == UNCHANGED <<c, s, r>>
Spec == Init /\ [][Next]_<<c, s, r>>
NeverBeyond == Law_NeverBeyond(c, s, r)
RetryWithin == Law_RetryWithin(c, s, r)
Modes == Law_Modes(c, s, r)
=============================================================================
