---------------------------- MODULE MC_Lifecycle ----------------------------
(* All startup/cleanup scripts of length <= 2 x peering on/off; every position of a stop flag, a cancellation and a failure. *)
EXTENDS Lifecycle
Outs == {"ok", "temp", "perm"}
Scripts == {<<a>> : a \in Outs} \cup {<<a, b>> : a \in {"temp"}, b \in Outs}
Acts == {<<>>} \cup {<<x>> : x \in Scripts} \cup {<<x, y>> : x \in {<<"ok">>, <<"perm">>}, y \in Scripts}
Confs == [startup : Acts, cleanup : Acts, peering : BOOLEAN]
MCInit == \E c \in Confs : Init0(c)
MCSpec == MCInit /\ [][Next]_vars /\ WF_vars(Progress) /\ Fair
\* negative: a root task that is not gated by the started flag issues requests before the startup handlers have finished
EarlyApi == /\ ~started /\ apis' = apis + 1
            /\ UNCHANGED <<conf, sc, hs, started, ready, rt, watch, busy, rec, daemons, trigger, runner, sfail, cran, lateD, orphans>>
NegSpec == MCInit /\ [][Next \/ EarlyApi]_vars
Bounded == apis <= 2 /\ Len(conf.startup) + Len(conf.cleanup) <= 3 /\ busy <= 1 /\ daemons <= 1
BoundedQ == apis <= 1 /\ Len(conf.startup) + Len(conf.cleanup) <= 1 /\ busy <= 1 /\ watch <= 1 /\ daemons <= 1
=============================================================================
