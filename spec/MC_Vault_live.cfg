SPECIFICATION Spec
CONSTANTS
  Req = {r1, r2}
  NKeys = 2
  Prio <- P21
  MaxItem = 4
  MaxCtx = 4
  MaxRevoke = 2
  MaxFault = 2
  NBackoff = 1
  MaxExpire = 0
  MaxRounds = 1
  SameIsIdentical = TRUE
  Variant = "code"
  Mode = "sess"
  LoginOutcomes <- AllOutcomes
INVARIANT NoReuse
INVARIANT NoCrash
INVARIANT SingleReauth
INVARIANT LockDiscipline
INVARIANT NoLeak
PROPERTY Terminates
PROPERTY LoginOnlyWhenNotReady
CHECK_DEADLOCK FALSE
