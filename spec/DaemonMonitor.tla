-------------------------- MODULE DaemonMonitor --------------------------
(***************************************************************************)
(* C09 as a property automaton over recorded executions of the real        *)
(* operator: the lifecycle of daemon/timer instances of ONE object.        *)
(* Events (from the world simulator, in virtual time):                     *)
(*   obj(exists, deleting, match)   the server's object after a change     *)
(*   proc(type, deleting, match)    the operator starts processing a view  *)
(*   enter(h) / exit(h, how)        the user's daemon function runs / ends *)
(*   flagseen(h)                    the function observes its stop flag    *)
(*   cancel(h)                      CancelledError is thrown into it       *)
(*   paused(on)                     the operator is (un)paused             *)
(*   opexit                         the operator process is exiting        *)
(*   quiet                          the world ran to rest                  *)
(* conf[h] = [backoff, timeout (0 = none), kind ("daemon"|"timer"),        *)
(*            sync (a thread: can be asked to stop, cannot be cancelled)]  *)
(* The laws are the clauses of the statement; a violated law is reported   *)
(* with a family label when it is one of the known findings (F5, F18).     *)
(***************************************************************************)
EXTENDS Naturals, Sequences, FiniteSets, TLC, Json, IOUtils, TLCExt

Traces == JsonDeserialize(IOEnv.TRACE_FILE)
CONSTANT Hs,
         Focus      \* "" = report the first clause that fails; otherwise only this clause is reported (the others are other properties')
VARIABLES tid, l, now, alive, flagged, when, cancelled, selfexited, due, obj, rematch, gonewhilealive, paused, exiting, verdict,
          selft, mft, racy      \* F33: the instant of an own exit, of the last stopping view processed, and whether they coincided
vars == <<tid, l, now, alive, flagged, when, cancelled, selfexited, due, obj, rematch, gonewhilealive, paused, exiting, verdict, selft, mft, racy>>
T == Traces[tid].events
E == T[l]
Conf == Traces[tid].conf

Init == /\ tid \in 1..Len(Traces) /\ l = 1 /\ now = 0
        /\ alive = [h \in Hs |-> 0] /\ flagged = [h \in Hs |-> FALSE] /\ when = [h \in Hs |-> 0]
        /\ cancelled = [h \in Hs |-> FALSE] /\ selfexited = [h \in Hs |-> FALSE] /\ due = [h \in Hs |-> FALSE]
        /\ obj = [exists |-> FALSE, deleting |-> FALSE, match |-> FALSE]
        /\ rematch = [h \in Hs |-> FALSE] /\ gonewhilealive = FALSE /\ paused = FALSE /\ exiting = FALSE
        /\ verdict = "ok" /\ selft = [h \in Hs |-> 0] /\ mft = 0 /\ racy = [h \in Hs |-> FALSE]

Bad(v) == verdict' = IF verdict = "ok" /\ (Focus = "" \/ Focus = v) THEN v ELSE verdict
Good == UNCHANGED verdict
Registered(h) == Conf[h].kind # "none"

\* the flag must be seen by every live unflagged instance at the very instant a deleting / mismatching / paused view is processed
MustFlag(e) == e.deleting \/ ~e.match \/ paused

Step ==
  /\ l <= Len(T) /\ l' = l + 1 /\ UNCHANGED tid
  /\ now' = E.t
  \* F33 bookkeeping: a function that returns on its own in the very instant in which a view that stops it is processed
  /\ LET stopping_view == E.ev = "proc" /\ E.type # "DELETED" /\ MustFlag(E)
         own == E.ev = "exit" /\ ~flagged[E.h] /\ ~cancelled[E.h] /\ E.how = "returned"
     IN /\ mft' = IF stopping_view THEN E.t ELSE mft
        /\ selft' = IF own THEN [selft EXCEPT ![E.h] = E.t] ELSE selft
        /\ racy' = [h \in Hs |-> racy[h] \/ (own /\ h = E.h /\ mft = E.t /\ mft # 0)
                                          \/ (stopping_view /\ selfexited[h] /\ selft[h] = E.t)]
  /\ LET late == {h \in Hs : due[h] /\ E.t > now} IN        \* time passes although a flag is due
     CASE E.ev = "obj" ->
            /\ obj' = [exists |-> E.exists, deleting |-> E.deleting, match |-> E.match]
            /\ gonewhilealive' = (gonewhilealive \/ (~E.exists /\ \E h \in Hs : alive[h] > 0 /\ ~flagged[h]))
            /\ UNCHANGED <<alive, flagged, when, cancelled, selfexited, due, rematch, paused, exiting>>
            /\ IF late # {} THEN Bad("flag_not_set_at_first_processing") ELSE Good
       [] E.ev = "proc" ->
            /\ due' = [h \in Hs |-> due[h] \/ (alive[h] > 0 /\ ~flagged[h] /\ MustFlag(E) /\ E.type # "DELETED")]
            /\ rematch' = [h \in Hs |-> rematch[h] \/ (alive[h] > 0 /\ flagged[h] /\ E.match /\ ~E.deleting)]
            /\ UNCHANGED <<alive, flagged, when, cancelled, selfexited, obj, gonewhilealive, paused, exiting>>
            /\ IF late # {} THEN Bad("flag_not_set_at_first_processing") ELSE Good
       [] E.ev = "enter" ->
            /\ alive' = [alive EXCEPT ![E.h] = @ + 1]
            /\ flagged' = [flagged EXCEPT ![E.h] = FALSE] /\ cancelled' = [cancelled EXCEPT ![E.h] = FALSE]
            /\ due' = [due EXCEPT ![E.h] = FALSE] /\ rematch' = [rematch EXCEPT ![E.h] = FALSE]
            /\ UNCHANGED <<when, selfexited, obj, gonewhilealive, paused, exiting>>
            /\ IF alive[E.h] > 0 THEN Bad("two_instances_at_once")
               ELSE IF selfexited[E.h] THEN (IF racy[E.h] THEN Bad("F33") ELSE Bad("restarted_after_exiting_on_its_own"))
               ELSE Good
       [] E.ev = "flagseen" ->
            /\ flagged' = [flagged EXCEPT ![E.h] = TRUE] /\ when' = [when EXCEPT ![E.h] = E.t]
            /\ due' = [due EXCEPT ![E.h] = FALSE]
            /\ UNCHANGED <<alive, cancelled, selfexited, obj, rematch, gonewhilealive, paused, exiting>>
            /\ IF late # {} /\ late # {E.h} THEN Bad("flag_not_set_at_first_processing") ELSE IF E.h \in late THEN Bad("flag_not_set_at_first_processing") ELSE Good
       [] E.ev = "cancel" ->
            /\ cancelled' = [cancelled EXCEPT ![E.h] = TRUE]
            /\ UNCHANGED <<alive, flagged, when, selfexited, due, obj, rematch, gonewhilealive, paused, exiting>>
            /\ IF exiting THEN Good      \* at operator exit the hung-task sweep may cancel anything
               ELSE IF ~flagged[E.h] THEN Bad("cancelled_without_stop_flag")
               ELSE IF E.t < when[E.h] + Conf[E.h].backoff THEN Bad("cancelled_before_backoff")
               ELSE Good
       [] E.ev = "exit" ->
            /\ alive' = [alive EXCEPT ![E.h] = IF @ > 0 THEN @ - 1 ELSE 0]
            /\ selfexited' = [selfexited EXCEPT ![E.h] = @ \/ (~flagged[E.h] /\ ~cancelled[E.h] /\ E.how = "returned")]
            /\ due' = [due EXCEPT ![E.h] = FALSE]
            /\ UNCHANGED <<flagged, when, cancelled, obj, rematch, gonewhilealive, paused, exiting>>
            /\ Good
       [] E.ev = "paused" ->
            /\ paused' = E.on /\ UNCHANGED <<alive, flagged, when, cancelled, selfexited, due, obj, rematch, gonewhilealive, exiting>> /\ Good
       [] E.ev = "opexit" ->
            /\ exiting' = TRUE /\ due' = [h \in Hs |-> FALSE]
            /\ UNCHANGED <<alive, flagged, when, cancelled, selfexited, obj, rematch, gonewhilealive, paused>> /\ Good
       [] E.ev = "released" ->    \* the framework's finalizer was withdrawn from the deleting object (or the object is gone)
            /\ UNCHANGED <<alive, flagged, when, cancelled, selfexited, due, obj, rematch, gonewhilealive, paused, exiting>>
            /\ IF \E h \in Hs : alive[h] > 0 /\ Conf[h].kind = "daemon" /\ E.byop /\ obj.match
                                 /\ ~(flagged[h] /\ Conf[h].timeout > 0 /\ E.t >= when[h] + Conf[h].backoff + Conf[h].timeout)
               THEN Bad("finalizer_released_while_daemon_alive") ELSE Good
       [] E.ev = "stall" ->
            /\ UNCHANGED <<alive, flagged, when, cancelled, selfexited, due, obj, rematch, gonewhilealive, paused, exiting>>
            /\ Bad("event_loop_stalled")
       [] E.ev = "quiet" ->
            /\ UNCHANGED <<alive, flagged, when, cancelled, selfexited, due, obj, rematch, gonewhilealive, paused, exiting>>
            /\ IF \E h \in Hs : due[h] THEN Bad("flag_not_set_at_first_processing")
               ELSE IF ~obj.exists /\ (\E h \in Hs : alive[h] > 0 /\ ~flagged[h]) THEN Bad("F5")           \* gone, never asked to stop
               ELSE IF ~obj.exists /\ (\E h \in Hs : alive[h] > 0 /\ flagged[h]) THEN Bad("F5")            \* gone, stages never driven
               ELSE IF obj.exists /\ ~obj.deleting /\ obj.match /\ ~paused /\ ~exiting
                       /\ (\E h \in Hs : Conf[h].kind = "daemon" /\ ~selfexited[h] /\ ~(alive[h] > 0 /\ ~flagged[h]))
                    THEN (IF \E h \in Hs : Registered(h) /\ rematch[h] THEN Bad("F18") ELSE Bad("matching_object_without_live_instance"))
               ELSE IF obj.exists /\ (obj.deleting \/ ~obj.match) /\ (\E h \in Hs : alive[h] > 0 /\ ~flagged[h]) THEN Bad("instance_not_asked_to_stop")
               \* "cancellation after the backoff" (only with a cancellation_timeout: without one the framework just polls): an instance that
               \* was asked to stop, has not left and is still wanted gone is cancelled
               \* once the backoff has passed (the world is at rest here, long after it)
               ELSE IF obj.exists /\ (obj.deleting \/ ~obj.match) /\ ~exiting
                       /\ (\E h \in Hs : Conf[h].kind = "daemon" /\ Conf[h].timeout > 0 /\ ~Conf[h].sync /\ alive[h] > 0 /\ flagged[h] /\ ~cancelled[h] /\ ~rematch[h]
                                           /\ E.t > when[h] + Conf[h].backoff + 2)
                    THEN Bad("never_cancelled_after_the_backoff")
               ELSE Good

Next == Step
Spec == Init /\ [][Next]_vars
Book == IF l = Len(T) + 1 THEN TLCSet(1, [TLCGet(1) EXCEPT ![tid] = verdict]) ELSE TRUE
ASSUME TLCSet(1, [i \in 1..Len(Traces) |-> "incomplete"])
Verdicts == \A i \in 1..Len(Traces) : PrintT(<<"MONITOR", i, Traces[i].id, TLCGet(1)[i]>>)
=============================================================================
