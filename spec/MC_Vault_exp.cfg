SPECIFICATION Spec
CONSTANTS
  Req = {r1, r2, r3}
  NKeys = 2
  Prio <- P11
  MaxItem = 4
  MaxCtx = 4
  MaxRevoke = 1
  MaxFault = 0
  NBackoff = 1
  MaxExpire = 2
  MaxRounds = 1
  SameIsIdentical = TRUE
  Variant = "code"
  Mode = "conn"
  LoginOutcomes <- FreshOnly
SYMMETRY Symm
INVARIANT TypeOK
INVARIANT NoReuse
INVARIANT NoCrash
INVARIANT SingleReauth
INVARIANT LockDiscipline
INVARIANT NoLeak
INVARIANT NoExpiredUse
INVARIANT ReauthOnlyOnRevocation
INVARIANT NotReadyMeansEmpty
PROPERTY LoginOnlyWhenNotReady
CHECK_DEADLOCK FALSE
