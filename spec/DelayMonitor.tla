---------------------------- MODULE DelayMonitor ----------------------------
(***************************************************************************)
(* C11 stated over recorded executions of the real operator with a raw-    *)
(* event handler that patches on every event, foreign edits and a late     *)
(* watch stream (so that views older than the operator's own progress      *)
(* patch arrive while the patch accumulated by the raw-event handler is    *)
(* not empty):  inv(t, retry, k, d) = the change handler was invoked at t  *)
(* with that retry number and ended as k ("ok" | "temp" with delay d).     *)
(* After a temporary failure the handler is invoked again, not sooner than *)
(* the requested delay, and with the next retry number -- whatever views   *)
(* pass by in between.                                                     *)
(***************************************************************************)
EXTENDS Naturals, Sequences, TLC, Json, IOUtils, TLCExt
Traces == JsonDeserialize(IOEnv.TRACE_FILE)
VARIABLES tid, l, prev, verdict
vars == <<tid, l, prev, verdict>>
T == Traces[tid].events
E == T[l]
None == [t |-> 0, retry |-> 0, k |-> "none", d |-> 0]
Init == tid \in 1..Len(Traces) /\ l = 1 /\ prev = None /\ verdict = "ok"
Bad(v) == verdict' = IF verdict = "ok" THEN v ELSE verdict
Step ==
  /\ l <= Len(T) /\ l' = l + 1 /\ UNCHANGED tid
  /\ IF E.ev # "inv" THEN UNCHANGED <<prev, verdict>>
     ELSE /\ prev' = [t |-> E.t, retry |-> E.retry, k |-> E.k, d |-> E.d]
          /\ IF prev.k = "temp" /\ E.t < prev.t + prev.d THEN Bad("retried_sooner_than_the_requested_delay")
             ELSE IF prev.k = "temp" /\ E.retry # prev.retry + 1 THEN Bad("retry_number_is_not_the_recorded_attempts")
             ELSE UNCHANGED verdict
Spec == Init /\ [][Step]_vars
Book == IF l = Len(T) + 1 THEN TLCSet(1, [TLCGet(1) EXCEPT ![tid] = verdict]) ELSE TRUE
ASSUME TLCSet(1, [i \in 1..Len(Traces) |-> "incomplete"])
Verdicts == \A i \in 1..Len(Traces) : PrintT(<<"MONITOR", i, Traces[i].id, TLCGet(1)[i]>>)
=============================================================================
