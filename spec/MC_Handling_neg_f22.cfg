SPECIFICATION SafeSpec
CONSTANTS
  H = {"a", "d"}
  ConfSet <- Confs_ad
  Delays = {1}
  EssVals = {1, 2}
  Foreign = {}
  Horizon = 5
  Doors <- NoDoors
  MaxEdits = 0
  MaxFails = 1
  MaxKills = 0
  MaxStops = 0
  MaxDeletes = 0
  MaxForeign = 0
  MaxToggles = 1
  MaxRelists = 0
  MaxHolds = 0
INVARIANT Witness_F22
CHECK_DEADLOCK FALSE
