----------------------------- MODULE Streaming -----------------------------
(***************************************************************************)
(* The life of ONE watcher task (queueing.watcher -> watching.infinite_    *)
(* watch -> continuous_watch -> watch_objs -> api.stream / api.request) as *)
(* the API server sees it, with time: the implementation-shaped companion  *)
(* of Watching.tla (which states continuity abstractly).                   *)
(*                                                                         *)
(* One action per stretch between two awaits that the server can observe:  *)
(*   Spawn     the watcher task starts (q.start); it lists at once         *)
(*   ListOk    the list request is answered: every listed object goes to   *)
(*             the multiplexer, the watch is opened from the list version  *)
(*   Fail      one ATTEMPT of the current list / watch call fails:         *)
(*             api.request sleeps error_backoffs[i] (or Retry-After, when  *)
(*             longer) and tries again, or gives up after the last one;    *)
(*             what giving up means is decided by who catches it:          *)
(*               429                    infinite_watch: back off, re-list  *)
(*               transport, listing     continuous_watch: back off, re-list*)
(*               transport, watching    watch_objs: a new watch call at    *)
(*                                      once, from the same version        *)
(*               5xx, 403, other 4xx    nobody: the watcher dies           *)
(*   WatchOk   the watch request is answered: must resume from `since`     *)
(*   Line      a line is read from the stream: object events and bookmarks *)
(*             move `since`, unsupported types are skipped, 410 ends the   *)
(*             stream (back off, re-list), any other ERROR kills the task  *)
(*   Put       an object event is handed to the per-object multiplexer     *)
(*   End       the connection ends: EOF, connection / payload error,       *)
(*             aiohttp's total timeout (client_timeout after the request)  *)
(*             or kopf's own inactivity timer (inactivity_timeout after    *)
(*             the last line): a new watch call at once, from `since`      *)
(*   Pause     the operator is paused / resumed (peering): the stream is   *)
(*             closed at once, the task backs off and lists again only     *)
(*             when it is no longer paused                                 *)
(*   Cancel    the orchestrator or the shutdown cancels the task; Exit     *)
(* Time: Tick advances the clock only when nothing of the above is due     *)
(* (urgency), so both a step that comes early and one that comes late are  *)
(* not behaviours of this specification.                                   *)
(*                                                                         *)
(* conf = [backoff, eb, ra, cli, ina]: watching.reconnect_backoff,         *)
(* networking.error_backoffs (a sequence), the Retry-After the server      *)
(* sends with a "429ra", watching.client_timeout, watching.inactivity_     *)
(* timeout (0 = not configured), limit: queueing.worker_limit (0 = none).  A never-changing variable, so that one   *)
(* TLC run validates traces of many configurations.                        *)
(***************************************************************************)
EXTENDS Naturals, Sequences, FiniteSets, TLC
CONSTANTS ConfSet, Horizon,
          On410        \* "relist" (the code) | "jump" (negative model: resume from the version the server names)

VARIABLES now, conf,
          pc,          \* "init" | "list" | "open" | "stream" | "dead" | "cancelled" | "exited"
          wake,        \* the instant at which the current call (or its next attempt) is made
          att,         \* failed attempts of the current call so far
          since,       \* continuous_watch's resource_version
          conn,        \* id of the response being read (0 = none)
          opened,      \* when it was opened
          act,         \* start of watch_objs / last line read: the base of the inactivity timer
          pend,        \* versions of object events read but not yet handed to the multiplexer
          old,         \* responses abandoned without being closed yet (closed by the generator's finalisation)
          mustclose,   \* responses that the code closes synchronously (pause, cancellation): urgent
          blockers,    \* the toggles of operator_paused that are on
          fresh,       \* the set has turned from off to on in this very instant
          noticed,     \* the pause-waiter of the current streaming_block is done (a few loop iterations after the toggle)
          relisted     \* ghost: a listing has been done since the watcher last left its streaming_block
kvars == <<pc, wake, att, since, conn, opened, act, pend, old, mustclose, noticed, relisted>>
vars == <<now, conf, kvars, blockers, fresh>>

Backoff == conf.backoff   EB == conf.eb   RA == conf.ra   CliT == conf.cli   InaT == conf.ina
Retriable == {"429", "429ra", "503", "403", "conn", "timeout"}
Swallowed == {"429", "429ra"}
Transport == {"conn", "timeout"}
ObjectTypes == {"ADDED", "MODIFIED", "DELETED"}
Paused == blockers # {}
\* a pause takes a few iterations of the event loop to reach the watcher: within its own instant both orders are observed
PausedForSure == Paused /\ ~fresh

Init == /\ conf \in ConfSet /\ now = 0 /\ pc = "init" /\ wake = 0 /\ att = 0 /\ since = 0 /\ conn = 0 /\ opened = 0 /\ act = 0
        /\ pend = <<>> /\ old = {} /\ mustclose = {} /\ blockers = {} /\ fresh = FALSE /\ noticed = FALSE /\ relisted = FALSE

env == <<now, conf, blockers, fresh>>
LeaveBlock == pc' = "list" /\ wake' = now + Backoff /\ att' = 0 /\ noticed' = FALSE /\ relisted' = FALSE

Spawn == /\ pc = "init" /\ pc' = "list" /\ wake' = now /\ att' = 0
         /\ UNCHANGED <<env, since, conn, opened, act, pend, old, mustclose, noticed, relisted>>

\* a call is being made (first attempt or a retry): streaming_block holds the FIRST attempt of a listing while paused
CallDue == /\ pc \in {"list", "open"} /\ now >= wake /\ pend = <<>>
           /\ (pc = "list" /\ att = 0 => ~PausedForSure)

ListOk(rv, rvs) ==
  /\ CallDue /\ pc = "list"
  /\ since' = rv /\ pend' = rvs
  \* after the listing: `while not operator_pause_waiter.done()` -- paused meanwhile: no watch, back off, start over
  /\ IF noticed THEN LeaveBlock /\ UNCHANGED act
     ELSE pc' = "open" /\ wake' = now /\ act' = now /\ att' = 0 /\ relisted' = TRUE /\ UNCHANGED noticed
  /\ UNCHANGED <<env, conn, opened, old, mustclose>>

Fail(f) ==
  /\ CallDue
  /\ IF f \in Retriable /\ att < Len(EB)
     THEN /\ att' = att + 1 /\ wake' = now + (IF f = "429ra" /\ RA > EB[att + 1] THEN RA ELSE EB[att + 1])
          /\ UNCHANGED <<pc, act, noticed, relisted>>
     ELSE IF f \in Swallowed \/ (pc = "list" /\ f \in Transport) THEN LeaveBlock /\ UNCHANGED act
          ELSE IF pc = "open" /\ f \in Transport THEN pc' = "open" /\ wake' = now /\ act' = now /\ att' = 0 /\ UNCHANGED <<noticed, relisted>>
          ELSE pc' = "dead" /\ att' = 0 /\ UNCHANGED <<wake, act, noticed, relisted>>
  /\ UNCHANGED <<env, since, conn, opened, pend, old, mustclose>>

WatchOk(s, w) ==
  /\ CallDue /\ pc = "open" /\ s = since /\ w # 0
  /\ pc' = "stream" /\ conn' = w /\ opened' = now /\ att' = 0
  /\ UNCHANGED <<env, wake, since, act, pend, old, mustclose, noticed, relisted>>

\* watch_objs' own timer runs from its start over the retries of the request, too
InactiveCall == /\ pc = "open" /\ InaT > 0 /\ now >= act + InaT
                /\ att' = 0 /\ wake' = now /\ act' = now
                /\ UNCHANGED <<env, pc, since, conn, opened, pend, old, mustclose, noticed, relisted>>

Reopen == pc' = "open" /\ wake' = now /\ att' = 0 /\ act' = now /\ conn' = 0

Line(w, type, rv) ==
  /\ UNCHANGED <<env, opened, mustclose>>
  /\ IF w # conn \/ pc # "stream" THEN w \in old \cup mustclose /\ UNCHANGED <<pc, wake, att, since, conn, act, pend, old, noticed, relisted>>   \* nobody reads it
     ELSE CASE type \in ObjectTypes -> /\ since' = (IF rv = 0 THEN since ELSE rv) /\ pend' = Append(pend, rv) /\ act' = now
                                       /\ UNCHANGED <<pc, wake, att, conn, old, noticed, relisted>>
            [] type = "BOOKMARK" -> /\ since' = (IF rv = 0 THEN since ELSE rv) /\ act' = now /\ UNCHANGED <<pc, wake, att, conn, pend, old, noticed, relisted>>
            [] type = "ERROR410" -> /\ old' = old \cup {conn} /\ conn' = 0 /\ UNCHANGED <<act, pend>>
                                    /\ IF On410 = "relist" THEN LeaveBlock /\ UNCHANGED since
                                       ELSE pc' = "open" /\ wake' = now /\ att' = 0 /\ since' = rv /\ UNCHANGED <<noticed, relisted>>
            [] type = "ERROR" -> /\ pc' = "dead" /\ old' = old \cup {conn} /\ conn' = 0 /\ UNCHANGED <<wake, att, since, act, pend, noticed, relisted>>
            [] OTHER -> act' = now /\ UNCHANGED <<pc, wake, att, since, conn, pend, old, noticed, relisted>>      \* an unsupported type: skipped

Put(rv) == /\ pend # <<>> /\ Head(pend) = rv /\ pend' = Tail(pend) /\ pc \notin {"cancelled", "exited"}
           /\ UNCHANGED <<env, pc, wake, att, since, conn, opened, act, old, mustclose, noticed, relisted>>

End(w, how) ==
  /\ UNCHANGED <<env, since, opened, pend, noticed, relisted>>
  /\ IF w = conn /\ w # 0
     THEN /\ pc = "stream" /\ UNCHANGED <<old, mustclose>>
          /\ CASE how \in {"eof", "conn", "payload"} -> Reopen
               [] how = "clienttimeout" -> CliT > 0 /\ now = opened + CliT /\ Reopen
               [] how = "client-closed" -> InaT > 0 /\ now >= act + InaT /\ Reopen
               [] OTHER -> FALSE
     ELSE /\ w \in old \cup mustclose /\ old' = old \ {w} /\ mustclose' = mustclose \ {w}
          /\ UNCHANGED <<pc, wake, att, conn, act>>

\* a toggle of operator_paused is turned on / off (peering); the watcher learns of it a few loop iterations later (Notice)
Pause(b, on) ==
  /\ IF on THEN b \notin blockers /\ blockers' = blockers \cup {b} /\ fresh' = (IF Paused THEN fresh ELSE TRUE)
     ELSE b \in blockers /\ blockers' = blockers \ {b} /\ UNCHANGED fresh
  /\ UNCHANGED <<now, conf, kvars>>
InBlock == pc \in {"open", "stream"} \/ (pc = "list" /\ att > 0)
Notice == /\ Paused /\ ~noticed /\ InBlock
          /\ CASE pc = "stream" -> LeaveBlock /\ mustclose' = mustclose \cup {conn} /\ conn' = 0
               [] pc = "open" -> LeaveBlock /\ UNCHANGED <<conn, mustclose>>
               [] OTHER -> noticed' = TRUE /\ UNCHANGED <<pc, wake, att, conn, mustclose, relisted>>      \* list_objs is not interrupted
          /\ UNCHANGED <<env, since, opened, act, pend, old>>

Cancel == /\ pc \in {"list", "open", "stream", "dead"} /\ pc' = "cancelled"
          /\ mustclose' = (IF conn = 0 THEN mustclose ELSE mustclose \cup {conn}) /\ conn' = 0 /\ pend' = <<>>
          /\ UNCHANGED <<env, wake, att, since, opened, act, old, noticed, relisted>>
Exit == /\ pc \in {"cancelled", "dead"} /\ pc' = "exited"
        /\ UNCHANGED <<env, wake, att, since, conn, opened, act, pend, old, mustclose, noticed, relisted>>

Urgent == \/ CallDue
          \/ pc \in {"open", "stream"} /\ InaT > 0 /\ now >= act + InaT
          \/ mustclose # {}
          \* (with a worker limit the watcher can be held in scheduler.spawn while events queue up: the hand-over is prompt only without one)
          \/ pend # <<>> /\ pc \notin {"cancelled", "exited"} /\ conf.limit = 0
          \/ Paused /\ ~noticed /\ InBlock
Tick == /\ now < Horizon /\ ~Urgent /\ now' = now + 1 /\ fresh' = FALSE /\ UNCHANGED <<conf, kvars, blockers>>

\* ---- laws (checked on the model itself; the traces are bound to the actions)
\* "while paused nothing is listed or watched": a pause older than this instant has no response being read
ClosedWhilePaused == PausedForSure => conn = 0 /\ mustclose = {}
\* "watching restarts with a fresh listing on resume": whatever is streamed was listed in the same streaming_block
FreshListing == pc = "stream" => relisted
TypeOK == /\ pc \in {"init", "list", "open", "stream", "dead", "cancelled", "exited"} /\ att \in 0..Len(EB) /\ wake \in Nat
          /\ (pc = "stream" <=> conn # 0)
=============================================================================
