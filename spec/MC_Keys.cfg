SPECIFICATION Spec
INVARIANT ShapeHolds
INVARIANT ValidUnlessF7
CHECK_DEADLOCK FALSE
