SPECIFICATION Spec
INVARIANT Law
INVARIANT LawAsDocumented
INVARIANT NeverTooMuch
CHECK_DEADLOCK FALSE
