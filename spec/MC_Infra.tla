------------------------------ MODULE MC_Infra ------------------------------
(* Laws of the retry reference over all fault words up to length 4 and 4 backoff configurations (one state per case). *)
EXTENDS Infra
Faults == {[k |-> "ok", ra |-> 0], [k |-> "conn", ra |-> 0], [k |-> "5xx", ra |-> 0], [k |-> "403", ra |-> 0],
           [k |-> "429", ra |-> 0], [k |-> "429", ra |-> 1], [k |-> "429", ra |-> 5], [k |-> "404", ra |-> 0]}
Words == UNION {[1..n -> Faults] : n \in 0..4}
Backoffs == {<<>>, <<2>>, <<1, 2>>, <<3, 3, 3>>}
VARIABLES w, b, e
Init == w \in Words /\ b \in Backoffs /\ e \in BOOLEAN
Next == UNCHANGED <<w, b, e>>
Spec == Init /\ [][Next]_<<w, b, e>>
P == RetryPlan(w, b, e)
LawCount == Len(P.times) <= Len(b) + 1
LawGapRetryAfter == \A i \in 1..(Len(P.times) - 1) : (w[i].k = "429" /\ (e \/ w[i].ra > b[i])) => P.times[i + 1] - P.times[i] >= w[i].ra
LawGapBackoff == \A i \in 1..(Len(P.times) - 1) : ~(w[i].k = "429" /\ e /\ w[i].ra > 0) => P.times[i + 1] - P.times[i] >= b[i]
LawNonRetryableAtOnce == \A i \in 1..Len(w) : (i <= Len(P.times) /\ w[i].k = "404" /\ \A j \in 1..(i - 1) : Retryable(w[j])) => Len(P.times) <= i
LawOkEnds == P.outcome = "ok" <=> (\E i \in 1..(Len(w) + 1) : i = Len(P.times) /\ (i > Len(w) \/ w[i].k = "ok"))
=============================================================================
