---------------------------- MODULE MC_Causes ----------------------------
(* Exhaustive check of the C05 laws on the reference classifier: one state per input combination. *)
EXTENDS Causes
VARIABLE x
Init == x \in Inputs
Next == UNCHANGED x
Spec == Init /\ [][Next]_x
InvTotal       == R(x) \in Reasons
InvNoChangeOnDeleting == x.deleting => Sel(x) \cap {"create", "update"} = {}
InvDeleteOnlyHeld == Sel(x) \cap {"delete", "deleteopt"} # {} => (x.deleting /\ x.blocked /\ x.ev # "DELETED")
InvNothingOnGoneFreeNoop == R(x) \in {"gone", "free", "noop"} => Sel(x) = {}
InvResumeOptIn == ~(x.deleting /\ "resume" \in Sel(x))
InvAllLaws == Laws
=============================================================================
