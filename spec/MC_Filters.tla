---------------------------- MODULE MC_Filters ----------------------------
(* Sanity laws of the reference reading over the whole declaration x state space (one state per pair). *)
EXTENDS Filters
Kinds == {"create", "update", "delete", "resume", "field", "event", "daemon", "timer", "index"}
Decls == [kind : Kinds, lab : {"none", "eq", "present", "absent", "cb"}, lab2 : {"none", "eq", "absent"},
          val : {"none", "field", "eq1", "eq3", "present", "absent", "cb_eq1", "cb_none"},
          old : {"none", "eq1", "eq2", "eq3", "present", "absent"}, new : {"none", "eq1", "eq2", "eq3", "present", "absent"},
          when : {"none", "T", "F"}]
States == [reason : {"create", "update", "delete", "resume", "-"}, la : {"-", "x", "y"}, lb : {"-", "y"}, fo : 0..3, fn : 0..3]
VARIABLES d, s
Init == d \in {x \in Decls : (x.old = "none" /\ x.new = "none") \/ (x.kind \in UpdateLike /\ x.val = "none")} /\ s = [reason |-> "-", la |-> "-", lb |-> "-", fo |-> 0, fn |-> 0]
Next == s.reason = "-" /\ s.la = "-" /\ s' \in States /\ UNCHANGED d
Spec == Init /\ [][Next]_<<d, s>>
\* laws of the statement
WhenFalseNever == d.when = "F" => ~Matches(d, s)
KindExclusive == (d.kind \in {"create", "update", "delete", "resume"} /\ Matches(d, s)) => d.kind = s.reason
AbsentPresentExclusive == ~(d.val = "present" /\ Matches(d, s) /\ Matches([d EXCEPT !.val = "absent"], s) /\ d.kind \notin UpdateLike)
UnchangedFieldNoUpdate == (d.kind \in UpdateLike /\ HasField(d) /\ s.fo = s.fn) => ~Matches(d, s)
CurrentValueOnly == (d.kind \in {"create", "resume", "delete", "event", "daemon", "timer", "index"} /\ d.val = "absent" /\ s.fn # 0) => ~Matches(d, s)
=============================================================================
