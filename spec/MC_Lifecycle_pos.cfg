SPECIFICATION MCSpec
CONSTANT NoConf = NoConf
CONSTANT MaxKids = 2
CONSTRAINT Bounded
INVARIANT NoApiBeforeStartup
INVARIANT ReadyAfterStartup
INVARIANT FailedStartupNoApi
INVARIANT CleanupLast
INVARIANT NothingLingers
INVARIANT ReRaises
PROPERTY FailFast
CHECK_DEADLOCK FALSE
