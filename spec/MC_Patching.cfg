SPECIFICATION Spec
CONSTANTS
  MaxForeign = 2
  MaxCycles = 3
  StaleOps = FALSE
INVARIANT NoStaleWrite
INVARIANT ForeignSurvives
INVARIANT EffectsThere
INVARIANT OthersKept
CHECK_DEADLOCK FALSE
