------------------------------ MODULE Causes ------------------------------
(***************************************************************************)
(* C05: classification of one event into exactly one cause, and which      *)
(* kinds of change handlers a cause may select.                             *)
(*                                                                         *)
(* Transcribed from kopf/_core/intents/causes.py (detect_changing_cause),   *)
(* kopf/_core/reactor/processing.py (_detect_causes: `initial`) and         *)
(* kopf/_core/intents/registries.py (ChangingRegistry.iter_handlers).       *)
(* `DetectCause` is the operator used by Handling.tla, so there is a single *)
(* source of truth for the classification.                                  *)
(***************************************************************************)
EXTENDS Naturals, FiniteSets, Sequences, TLC

Reasons == {"gone", "free", "delete", "create", "resume", "noop", "update"}
HandlerReasons == {"create", "update", "delete", "resume"}      \* causes.HANDLER_REASONS

\* evType: "NONE" (listing), "ADDED", "MODIFIED", "DELETED"
\* deleting: metadata.deletionTimestamp set;  blocked: kopf's finalizer present
\* hasOld: a last-handled state is stored;    differs: essence differs from it
\* initial: noticed_by_listing /\ ~fully_handled_once
DetectCause(evType, deleting, blocked, hasOld, differs, initial) ==
  IF evType = "DELETED"        THEN "gone"
  ELSE IF deleting /\ ~blocked THEN "free"
  ELSE IF deleting             THEN "delete"
  ELSE IF ~hasOld              THEN "create"
  ELSE IF ~differs /\ initial  THEN "resume"
  ELSE IF ~differs             THEN "noop"
  ELSE "update"

\* The `initial` flag carried by the cause: creation never mixes with resuming.
CauseInitial(reason, initial) == IF reason = "create" THEN FALSE ELSE initial

(***************************************************************************)
(* Handler kinds of the judged space (on.field is kept out, see DESIGN.md): *)
(*   create, update, delete (mandatory), deleteopt (optional=True),         *)
(*   resume (deleted=False), resumedel (deleted=True)                       *)
(***************************************************************************)
Kinds == {"create", "update", "delete", "deleteopt", "resume", "resumedel"}

KindSelected(kind, reason, initial, deleting) ==
  /\ reason \in HandlerReasons
  /\ CASE kind = "create"    -> reason = "create"
       [] kind = "update"    -> reason = "update"
       [] kind \in {"delete", "deleteopt"} -> reason = "delete"
       [] kind = "resume"    -> CauseInitial(reason, initial) /\ ~deleting
       [] kind = "resumedel" -> CauseInitial(reason, initial)

Selected(reason, initial, deleting) == {k \in Kinds : KindSelected(k, reason, initial, deleting)}

(***************************************************************************)
(* Laws of the statement, checked by TLC over the whole input space.        *)
(***************************************************************************)
Inputs == [ev : {"NONE", "ADDED", "MODIFIED", "DELETED"}, deleting : BOOLEAN, blocked : BOOLEAN,
           hasOld : BOOLEAN, differs : BOOLEAN, initial : BOOLEAN]
R(x) == DetectCause(x.ev, x.deleting, x.blocked, x.hasOld, x.differs, x.initial)
Sel(x) == Selected(R(x), x.initial, x.deleting)

LawTotal       == \A x \in Inputs : R(x) \in Reasons
LawNoChangeOnDeleting ==      \* creation/update handlers never on an object marked for deletion
  \A x \in Inputs : x.deleting => Sel(x) \cap {"create", "update"} = {}
LawDeleteOnlyHeld ==          \* deletion handlers only while marked for deletion and still held
  \A x \in Inputs : Sel(x) \cap {"delete", "deleteopt"} # {} => (x.deleting /\ x.blocked /\ x.ev # "DELETED")
LawNothingOnGoneFreeNoop ==
  \A x \in Inputs : R(x) \in {"gone", "free", "noop"} => Sel(x) = {}
LawResumeOptIn ==             \* resume handlers on a deleting object only if they opted in
  \A x \in Inputs : (x.deleting /\ "resume" \in Sel(x)) => FALSE
LawPrecedence ==
  \A x \in Inputs :
     /\ (x.ev = "DELETED" => R(x) = "gone")
     /\ (x.ev # "DELETED" /\ x.deleting /\ ~x.blocked => R(x) = "free")
     /\ (x.ev # "DELETED" /\ x.deleting /\ x.blocked => R(x) = "delete")
     /\ (x.ev # "DELETED" /\ ~x.deleting /\ ~x.hasOld => R(x) = "create")
     /\ (x.ev # "DELETED" /\ ~x.deleting /\ x.hasOld /\ ~x.differs /\ x.initial => R(x) = "resume")
     /\ (x.ev # "DELETED" /\ ~x.deleting /\ x.hasOld /\ ~x.differs /\ ~x.initial => R(x) = "noop")
     /\ (x.ev # "DELETED" /\ ~x.deleting /\ x.hasOld /\ x.differs => R(x) = "update")
Laws == LawTotal /\ LawNoChangeOnDeleting /\ LawDeleteOnlyHeld /\ LawNothingOnGoneFreeNoop
        /\ LawResumeOptIn /\ LawPrecedence

(***************************************************************************)
(* Postcondition for a record produced by the real code:                    *)
(*  rec.in  = the input combination as materialised in a real body/memory   *)
(*  rec.out = [reason, initial, kinds (set of kinds of the handlers that    *)
(*             registry.get_handlers returned for the detected cause)]      *)
(***************************************************************************)
ClassifyCause(rec) ==
  LET x == rec.in
      r == DetectCause(x.ev, x.deleting, x.blocked, x.hasOld, x.differs, x.initial)
  IN IF rec.out.reason # r THEN "wrong_reason"
     ELSE IF rec.out.initial # CauseInitial(r, x.initial) THEN "wrong_initial"
     ELSE IF r \in HandlerReasons /\ {rec.out.kinds[j] : j \in DOMAIN rec.out.kinds} # Selected(r, x.initial, x.deleting)
          THEN "wrong_handlers"
     ELSE IF r \notin HandlerReasons /\ rec.out.invoked # 0 THEN "handlers_on_informational_cause"
     ELSE "ok"
=============================================================================
