SPECIFICATION Spec
CONSTANTS
  Pairs = {"r1n1", "r1n2", "r2n1"}
  MaxRevisions = 4
  MaxDeaths = 0
  HoldLock = FALSE
INVARIANT Coverage
PROPERTY EventuallyCovered
CHECK_DEADLOCK FALSE
