SPECIFICATION Spec
CONSTANTS
  Res = {"r1", "r2"}
  Nss = {"n1", "n2"}
  ClusterScoped = {}
  MaxRevisions = 4
  MaxDeaths = 0
  HoldLock = FALSE
INVARIANT Coverage
PROPERTY EventuallyCovered
CHECK_DEADLOCK FALSE
