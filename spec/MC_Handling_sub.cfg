SPECIFICATION SafeSpec
CONSTANTS
  H = {"p", "q", "p/x", "p/y"}
  ConfSet <- Confs_sub
  Delays = {1}
  EssVals = {1, 2}
  Foreign = {}
  Horizon = 6
  Doors <- NoDoors
  MaxEdits = 1
  MaxFails = 2
  MaxKills = 0
  MaxStops = 0
  MaxDeletes = 0
  MaxForeign = 0
  MaxToggles = 0
  MaxRelists = 0
  MaxHolds = 0
INVARIANT InvokeGoverned
INVARIANT InvokeCauseOk
INVARIANT AtMostOnce
INVARIANT CloseExactlyWhenDone
INVARIANT TerminalConverged
INVARIANT FreshOrTimedOut
INVARIANT RetriesBounded
CHECK_DEADLOCK FALSE
