----------------------------- MODULE MC_Peering -----------------------------
(* Bounded environments for Peering.tla: every order of starts, graceful exits, kills and foreign record writes. *)
EXTENDS Peering
CONSTANTS PrioC, LifeC, PeriodC, MaxStarts, MaxStops, MaxKills, MaxExt, ExtRecs
VARIABLES nstart, nstop, nkill, next_
mcvars == <<vars, nstart, nstop, nkill, next_>>

MCInit == /\ Init0([prio |-> PrioC, life |-> LifeC, period |-> PeriodC, lag |-> [o \in Ops |-> 0], plag |-> [o \in Ops |-> 0]])
          /\ nstart = 0 /\ nstop = 0 /\ nkill = 0 /\ next_ = 0
EnvNext ==
  \/ \E o \in Ops : Start(o) /\ nstart < MaxStarts /\ nstart' = nstart + 1 /\ UNCHANGED <<nstop, nkill, next_>>
  \/ \E o \in Ops : Stop(o) /\ nstop < MaxStops /\ nstop' = nstop + 1 /\ UNCHANGED <<nstart, nkill, next_>>
  \/ \E o \in Ops : Kill(o) /\ nkill < MaxKills /\ nkill' = nkill + 1 /\ UNCHANGED <<nstart, nstop, next_>>
  \/ \E i \in Ext_ : \E r \in ExtRecs : Ext(i, r) /\ next_ < MaxExt /\ next_' = next_ + 1 /\ UNCHANGED <<nstart, nstop, nkill>>
MCNext == \/ (OpNext /\ UNCHANGED <<nstart, nstop, nkill, next_>>)
          \/ (Tick /\ UNCHANGED <<nstart, nstop, nkill, next_>>)
          \/ EnvNext
MCSpec == MCInit /\ [][MCNext]_mcvars /\ WF_mcvars(OpNext /\ UNCHANGED <<nstart, nstop, nkill, next_>>)
                 /\ WF_mcvars(Tick /\ UNCHANGED <<nstart, nstop, nkill, next_>>)
                 /\ \A o \in Ops : WF_mcvars((Withdraw(o) \/ Down(o)) /\ UNCHANGED <<nstart, nstop, nkill, next_>>)

P123 == [o \in Ops |-> CASE o = "a" -> 1 [] o = "b" -> 2 [] OTHER -> 3]
PTie == [o \in Ops |-> CASE o = "a" -> 1 [] OTHER -> 2]
PAll2 == [o \in Ops |-> 2]
L4 == [o \in Ops |-> 4]
L3 == [o \in Ops |-> 3]
L8 == [o \in Ops |-> 8]
Per2 == [o \in Ops |-> 2]
Per3 == [o \in Ops |-> 3]
Per4 == [o \in Ops |-> 4]
NoExt == {}
SomeExt == {[prio |-> 2, ttl |-> 0, fl |-> 3], [prio |-> 2, ttl |-> 3, fl |-> 0], [prio |-> 0, ttl |-> 2, fl |-> 0], [prio |-> 2, ttl |-> 0, fl |-> 0], NoRec}

\* exactly the highest-priority running operator ends up active (distinct priorities, no foreign records)
ExactlyTop == <>[](Stable /\ ActiveOps = Tops)
EventuallyStable == <>[]Stable
CleansDead == <>[]NoDeadLeft
=============================================================================
