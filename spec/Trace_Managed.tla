---------------------------- MODULE Trace_Managed ----------------------------
(* Trace validation for Managed.tla: the two conditions of a real operator with managed webhooks (insights.revised, the container's
   `changed`) are replaced from outside by recording ones; every immediate acquisition, queueing, grant, release, wait, wake-up and
   notification, every revision of the resources and every build of a configuration (with the client config and the resources it was
   built from) must be one step of the specification taken by the task that the event names -- the server, the chain, the orchestrator,
   the two managers, and the observers with their workers (named o1, o2, ... in the order they appear).  After every event the client
   config and the resources of the model are the recorded ones.  The invariants of Managed.tla are evaluated in every state. *)
EXTENDS Managed, Json, IOUtils, TLCExt
Traces == JsonDeserialize(IOEnv.TRACE_FILE)
VARIABLES tid, l
tvars == <<vars, tid, l>>
T == Traces[tid].events
E == T[l]
TInit == Init /\ tid \in 1..Len(Traces) /\ l = 1
Ev(e) == l <= Len(T) /\ E.ev = e /\ l' = l + 1 /\ UNCHANGED tid
Me == E.task
K == E.k
Step(t) == IF t = "server" THEN Server ELSE IF t = "chain" THEN Chain ELSE IF t = "orch" THEN Orch ELSE IF t \in Mgrs THEN Manager(t) ELSE Observer(t)
Same == cc' = cc /\ res' = res
TLockNow   == Ev("lock.now") /\ Step(Me) /\ holder[K] # Me /\ holder'[K] = Me /\ lockQ' = lockQ /\ Same
TLockQueue == Ev("lock.queue") /\ Step(Me) /\ lockQ'[K] = Append(lockQ[K], Me) /\ Same
TLockGot   == Ev("lock.got") /\ Step(Me) /\ Granted(Me, K) /\ UNCHANGED <<holder, lockQ, condQ, cc, res, nrev, cfg>> /\ pc[Me] \in {"q", "q0", "q1", "rq"}
TLockRel   == Ev("lock.rel") /\ Step(Me) /\ holder[K] = Me /\ holder'[K] # Me /\ condQ' = condQ /\ Same
TCondWait  == Ev("cond.wait") /\ Step(Me) /\ Me \notin condQ[K] /\ Me \in condQ'[K]
TCondWake  == Ev("cond.wake") /\ Step(Me) /\ pc[Me] = "notified" /\ pc'[Me] = "reacq"
TRevise    == Ev("revise") /\ Step(Me) /\ pc[Me] = "set" /\ pc'[Me] = "set2" /\ res' = E.res
TNotifyOk  == Ev("notify") /\ Step(Me) /\ pc[Me] \in {"set", "set2", "notify"} /\ pc'[Me] = "rel" /\ condQ'[K] = {}
              /\ (IF Me = "server" THEN cc' = E.cc ELSE cc' = cc) /\ res' = res
\* a configuration is built: from the client config and the resources of this very moment
TBuild     == Ev("build") /\ Step(Me) /\ pc[Me] = "look" /\ cc # 0 /\ E.cc = cc /\ E.res = res /\ cfg'[Me] = <<cc, res>>
\* what cannot be seen: a manager that finds no value yet just goes to wait
TSilent    == \E m \in Mgrs : Manager(m) /\ pc[m] = "look" /\ cc = 0 /\ UNCHANGED <<tid, l>>
TNext == TLockNow \/ TLockQueue \/ TLockGot \/ TLockRel \/ TCondWait \/ TCondWake \/ TRevise \/ TNotifyOk \/ TBuild \/ TSilent
TSpec == TInit /\ [][TNext]_tvars
Max2(a, b) == IF a >= b THEN a ELSE b
Broken == IF ~LockDiscipline THEN "LockDiscipline" ELSE ""
Book == /\ TLCSet(1, [TLCGet(1) EXCEPT ![tid] = Max2(@, l)])
        /\ (Broken = "" \/ TLCSet(2, [TLCGet(2) EXCEPT ![tid] = IF @ = "" THEN Broken ELSE @]))
ASSUME TLCSet(1, [i \in 1..Len(Traces) |-> 0])
ASSUME TLCSet(2, [i \in 1..Len(Traces) |-> ""])
Verdicts == \A i \in 1..Len(Traces) : PrintT(<<"VERDICT", i, Traces[i].id, TLCGet(1)[i] - 1, Len(Traces[i].events), TLCGet(2)[i]>>)
=============================================================================
