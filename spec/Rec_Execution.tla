---------------------------- MODULE Rec_Execution ----------------------------
EXTENDS Activities, Json, IOUtils, TLCExt
CONSTANT NC
Recs == JsonDeserialize(IOEnv.REC_FILE)
VARIABLES cc, i
Init == cc \in 1..NC /\ i = 0
Next == i = 0 /\ i' \in {j \in 1..Len(Recs) : j % NC = cc - 1} /\ UNCHANGED cc
Spec == Init /\ [][Next]_<<cc, i>>
Verdict == i = 0 \/ LET v == ClassifyC11x(Recs[i]) IN v = "ok" \/ PrintT(<<"REC", i, v>>)
=============================================================================
