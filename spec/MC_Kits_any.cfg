SPECIFICATION KSpec
CONSTANTS
  Names = {"a", "b"}
  Tasks = {"t1", "t2"}
  Fn = "any"
  MaxOps = 5
PROPERTY ReleasedEventually
CHECK_DEADLOCK FALSE
