------------------------------ MODULE MC_Keys ------------------------------
(* Laws of the reference on all ids of length 1..4 over the character classes: a key of the reference shape built from
   an id with alphanumeric ends is a valid annotation name. *)
EXTENDS Keys
Classes == <<65, 97, 48, Under, Dot, Slash, Lt, Gt, Dash>>          \* A a 0 _ . / < > -
Prefix == <<107, 111, 112, 102, 46, 100, 101, 118>>                  \* "kopf.dev"
VARIABLES id
Init == id \in UNION {[1..n -> 1..Len(Classes)] : n \in 1..4}
Next == UNCHANGED id
Spec == Init /\ [][Next]_id
Id == [i \in 1..Len(id) |-> Classes[id[i]]]
RefKey == Prefix \o <<Slash>> \o Safe(Id)
ShapeHolds == V2Shape(Prefix, Id, RefKey)
ValidUnlessF7 == ValidKey(RefKey) <=> ~Family_F7(Id)
=============================================================================
