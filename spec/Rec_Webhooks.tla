---------------------------- MODULE Rec_Webhooks ----------------------------
(* Records of the real admission.build_webhooks (vf/webhooks.py) judged by Webhooks!ClassifyWebhook. *)
EXTENDS Webhooks, Json, IOUtils, TLCExt
CONSTANT NC
Recs == JsonDeserialize(IOEnv.REC_FILE)
VARIABLES c, i
Init == c \in 1..NC /\ i = 0
Next == i = 0 /\ i' \in {j \in 1..Len(Recs) : j % NC = c - 1} /\ UNCHANGED c
Spec == Init /\ [][Next]_<<c, i>>
Verdict == i = 0 \/ LET v == ClassifyWebhook(Recs[i]) IN v = "ok" \/ PrintT(<<"REC", i, v>>)
=============================================================================
