------------------------------- MODULE Infra -------------------------------
(***************************************************************************)
(* C12: infrastructure errors are retried, then contained per object,      *)
(* never fatal.  Reference semantics for three mechanisms:                 *)
(*  - api.request: the retry loop over settings.networking.error_backoffs  *)
(*    with the Retry-After override (RetryPlan)                            *)
(*  - throttlers.throttled: per-object error delays (ThrottleOk)           *)
(*  - credentials.Vault + @authenticated: single re-authentication         *)
(*    (VaultOk)                                                            *)
(* and classifiers for records of the real code.                           *)
(***************************************************************************)
EXTENDS Naturals, Sequences, FiniteSets, TLC

Retryable(f) == f.k \in {"conn", "timeout", "5xx", "403", "429"}
Max(a, b) == IF a >= b THEN a ELSE b

\* the wait after the n-th failed attempt (n >= 1), or "none" when the budget is exhausted
WaitAfter(n, f, B, enforce) ==
  IF n > Len(B) THEN [some |-> FALSE, d |-> 0]
  ELSE [some |-> TRUE, d |-> IF f.k = "429" /\ f.ra > 0 /\ (enforce \/ f.ra > B[n]) THEN f.ra ELSE B[n]]

\* offsets (from the first attempt) of all attempts for a fault word, and the final outcome
RECURSIVE Plan(_, _, _, _, _)
Plan(word, B, enforce, n, t) ==      \* n = index of the attempt being made, t = its offset
  IF n > Len(word) THEN [times |-> <<t>>, outcome |-> "ok"]                  \* the word is over: this attempt succeeds
  ELSE LET f == word[n] IN
       IF f.k = "ok" THEN [times |-> <<t>>, outcome |-> "ok"]
       ELSE IF ~Retryable(f) THEN [times |-> <<t>>, outcome |-> "raised"]
       ELSE LET w == WaitAfter(n, f, B, enforce) IN
            IF ~w.some THEN [times |-> <<t>>, outcome |-> "raised"]
            ELSE LET rest == Plan(word, B, enforce, n + 1, t + w.d) IN [times |-> <<t>> \o rest.times, outcome |-> rest.outcome]
RetryPlan(word, B, enforce) == Plan(word, B, enforce, 1, 0)

ClassifyRetry(rec) ==
  LET p == RetryPlan(rec.word, rec.backoffs, rec.enforce) IN
  IF rec.outcome # p.outcome THEN "retry_wrong_outcome"
  ELSE IF Len(rec.times) # Len(p.times) THEN "retry_wrong_attempt_count"
  ELSE IF \E i \in DOMAIN p.times : rec.times[i] # p.times[i] THEN
       (IF \E i \in 1..(Len(rec.times) - 1) : rec.word[i].k = "429" /\ rec.times[i + 1] - rec.times[i] < rec.word[i].ra
        THEN "retry_waits_less_than_retry_after" ELSE "retry_wrong_instants")
  ELSE "ok"

\* throttling of one object: runs = <<[t, ok]>> the instants at which its processing actually ran and how it ended;
\* delays = settings.queueing.error_delays.  After the k-th consecutive error at t the next run is not before
\* t + delays[min(k, |delays|)] (no delay if the sequence is empty); a success resets k.
RECURSIVE ThrottleFrom(_, _, _, _)
ThrottleFrom(runs, delays, i, k) ==
  IF i >= Len(runs) THEN "ok"
  ELSE LET r == runs[i]
           k2 == IF r.ok THEN 0 ELSE k + 1
           d == IF r.ok \/ delays = <<>> THEN 0 ELSE delays[IF k2 <= Len(delays) THEN k2 ELSE Len(delays)]
       IN IF runs[i + 1].t < r.t + d THEN "throttle_resumed_too_early"
          ELSE ThrottleFrom(runs, delays, i + 1, k2)
ClassifyThrottle(rec) ==
  LET v == ThrottleFrom(rec.runs, rec.delays, 1, 0) IN
  IF v # "ok" THEN v
  ELSE IF \E i \in DOMAIN rec.others : rec.others[i].ran # rec.others[i].arrived THEN "other_object_delayed"
  ELSE IF ~rec.alive THEN "operator_stopped"
  ELSE IF ~rec.recovered THEN "did_not_recover"
  ELSE "ok"

\* vault: reqs = <<[t, sent, gen, code]>> in server order (sent: when the request left the client; one that left before the
\* re-authentication with the old credentials and arrives after it is not a reuse); invalid = generations invalidated by the server (at which instant)
ClassifyVault(rec) ==
  IF rec.logins # rec.expected_logins THEN "wrong_number_of_reauthentications"
  ELSE IF \E i \in DOMAIN rec.reqs : \E j \in DOMAIN rec.reqs :
            i < j /\ rec.reqs[i].code = 401 /\ rec.reqs[j].gen = rec.reqs[i].gen /\ rec.reqs[j].sent > rec.relogin_t
       THEN "invalidated_credentials_reused"
  ELSE IF ~rec.all_done THEN "blocked_request_never_proceeded"
  ELSE "ok"

\* a timer whose own PATCH exhausts the API retries: the operator stays alive, other objects' timers keep their pace, and the timer
\* of this object runs again once the API has recovered (F17: it never does)
ClassifyTimer(rec) ==
  IF ~rec.alive THEN "operator_stopped"
  ELSE IF rec.other_runs_during = 0 THEN "other_object_delayed"
  ELSE IF rec.runs_after = 0 THEN "F17"
  ELSE "ok"

ClassifyC12(rec) == CASE rec.kind = "retry" -> ClassifyRetry(rec)
                      [] rec.kind = "timer" -> ClassifyTimer(rec)
                      [] rec.kind = "throttle" -> ClassifyThrottle(rec)
                      [] rec.kind = "vault" -> ClassifyVault(rec)
                      [] OTHER -> "unknown_record_kind"
=============================================================================
